//@ unit mergers
//@ verus-flags --no-erasure-check
// (--no-erasure-check: see slider.rs -- the TracePos shim's AddAssignSpecImpl trips Verus' erasure pass after verification)
// The merger layer of crates/air-lib/trace-handler: merger/{call,ap,par,canon,fold}_merger.rs `try_merge_next_state_as_*`,
// merger/position_mapping.rs, merger/errors.rs `MergeError::incompatible_states`, data_keeper/keeper.rs.
// All states handed out by the two sliders are hostile (current data): no precondition on them.
//
// Trusted part of this file: the TracePos shim (verbatim from slider.rs, plus `Sub<u32>` from NewtypeSub!{(PosType)});
// the CID<T> shim (verbatim from call_merger.rs); ExecutionTrace as a newtype over Vec with the real method bodies'
// meaning stated on its view; `Clone for ExecutedState` = the derived clone returns an equal value; BiHashMap as an opaque
// type with a ghost set of pairs and bimap's documented `insert` (pairs sharing the left or the right value are evicted);
// `Default for TraceSlider/ExecutionTrace/MergerParResult/MergerFoldResult/ResolvedFold/BiHashMap` = the derived / library one
// (empty, zero); std's blanket `From<T> for T` is the identity (as in prev_result.rs); resolve_fold_lore is an external_body stub
// that only names its call relation (see fold_m); merge_call_results and prepare_{single,both}_canon_result are external_body stubs
// whose contracts are copied mechanically from the units that prove them (call_merger, canon_merger).
use vstd::prelude::*;

// the macro ap_merger.rs::prepare_merge_result uses, lifted as it is (plain Rust: no Verus syntax inside)
//@ lift crates/air-lib/trace-handler/src/merger/ap_merger.rs :: macro_rules to_maybe_generation
//@ end

verus! {

use std::rc::Rc;

// std: the blanket `impl<T> From<T> for T` is the identity (as in prev_result.rs); used by `trace.into()` in TraceSlider::new
pub assume_specification<T>[ <T as core::convert::From<T>>::from ](t: T) -> (r: T) ensures r == t;

// ---------------------------------------------------------------- shim: TracePos (trusted, verbatim from slider.rs)
#[derive(Copy, Clone, Default)]
pub struct TracePos(pub u32);
impl core::ops::AddAssign<u32> for TracePos { fn add_assign(&mut self, rhs: u32) { self.0 = self.0 + rhs; } }
impl From<u32> for TracePos { fn from(v: u32) -> TracePos { TracePos(v) } }
impl PartialEq for TracePos { fn eq(&self, o: &Self) -> bool { self.0 == o.0 } }
impl PartialOrd for TracePos { fn partial_cmp(&self, o: &Self) -> Option<core::cmp::Ordering> { self.0.partial_cmp(&o.0) } }
impl vstd::std_specs::ops::AddAssignSpecImpl<u32> for TracePos {
    open spec fn obeys_add_assign_spec() -> bool { true }
    open spec fn add_assign_req(&self, rhs: u32) -> bool { self.0 + rhs <= u32::MAX }
    open spec fn add_assign_spec(&self, rhs: u32) -> TracePos { TracePos((self.0 + rhs) as u32) }
}
impl vstd::std_specs::convert::FromSpecImpl<u32> for TracePos {
    open spec fn obeys_from_spec() -> bool { true }
    open spec fn from_spec(v: u32) -> TracePos { TracePos(v) }
}
impl vstd::std_specs::cmp::PartialOrdSpecImpl<TracePos> for TracePos {
    open spec fn obeys_partial_cmp_spec() -> bool { true }
    open spec fn partial_cmp_spec(&self, o: &TracePos) -> Option<core::cmp::Ordering> { if self.0 < o.0 { Some(core::cmp::Ordering::Less) } else if self.0 == o.0 { Some(core::cmp::Ordering::Equal) } else { Some(core::cmp::Ordering::Greater) } }
}
impl vstd::std_specs::cmp::PartialEqSpecImpl<TracePos> for TracePos {
    open spec fn obeys_eq_spec() -> bool { true }
    open spec fn eq_spec(&self, o: &TracePos) -> bool { self.0 == o.0 }
}
// NewtypeSub! { (PosType) pub struct TracePos(PosType); }: `TracePos(self.0 - rhs)`, underflow is a panic
impl vstd::std_specs::ops::SubSpecImpl<u32> for TracePos {
    open spec fn obeys_sub_spec() -> bool { true }
    open spec fn sub_req(self, rhs: u32) -> bool { self.0 >= rhs }
    open spec fn sub_spec(self, rhs: u32) -> TracePos { TracePos((self.0 - rhs) as u32) }
}
impl core::ops::Sub<u32> for TracePos { type Output = TracePos; fn sub(self, rhs: u32) -> TracePos { TracePos(self.0 - rhs) } }

// ---------------------------------------------------------------- shim: CID (trusted, verbatim from call_merger.rs)
pub struct CID<T> { pub id: u64, pub ph: core::marker::PhantomData<T> }
impl<T> Clone for CID<T> {
    fn clone(&self) -> (r: Self) ensures r == *self { CID { id: self.id, ph: core::marker::PhantomData } }
}
impl<T> PartialEq for CID<T> { fn eq(&self, o: &Self) -> bool { self.id == o.id } }
impl<T> Eq for CID<T> {}
impl<T> vstd::std_specs::cmp::PartialEqSpecImpl<CID<T>> for CID<T> {
    open spec fn obeys_eq_spec() -> bool { true }
    open spec fn eq_spec(&self, o: &CID<T>) -> bool { self.id == o.id }
}
pub struct ServiceResultCidAggregate { pub opaque: u8 }
pub struct JValue { pub opaque: u8 }
pub struct CanonResultCidAggregate { pub opaque: u8 }

// ---------------------------------------------------------------- lifted data types (interpreter-data)
pub type TraceLen = u32;
//@ lift crates/air-lib/interpreter-data/src/generation_idx.rs :: type GenerationIdxType
//@ end
//@ lift crates/air-lib/interpreter-data/src/generation_idx.rs :: struct GenerationIdx
//@ derive Copy Clone
//@ end
//@ lift crates/air-lib/interpreter-data/src/executed_state.rs :: enum Sender
//@ derive
//@ end
//@ lift crates/air-lib/interpreter-data/src/executed_state.rs :: enum ValueRef
//@ derive
//@ end
//@ lift crates/air-lib/interpreter-data/src/executed_state.rs :: enum CallResult
//@ derive
//@ end
//@ lift crates/air-lib/interpreter-data/src/executed_state.rs :: enum CanonResult
//@ derive
//@ end
//@ lift crates/air-lib/interpreter-data/src/executed_state.rs :: struct ParResult
//@ derive Clone Copy
//@ end
//@ lift crates/air-lib/interpreter-data/src/executed_state.rs :: struct SubTraceDesc
//@ derive Clone Copy
//@ end
//@ lift crates/air-lib/interpreter-data/src/executed_state.rs :: struct FoldSubTraceLore
//@ derive
//@ end
//@ lift crates/air-lib/interpreter-data/src/executed_state.rs :: type FoldLore
//@ end
//@ lift crates/air-lib/interpreter-data/src/executed_state.rs :: struct FoldResult
//@ derive
//@ end
//@ lift crates/air-lib/interpreter-data/src/executed_state.rs :: struct ApResult
//@ derive
//@ end
//@ lift crates/air-lib/interpreter-data/src/executed_state.rs :: enum ExecutedState
//@ derive
//@ end
// real: `#[derive(Clone)]` on ExecutedState and everything below it
impl Clone for ExecutedState { #[verifier::external_body] fn clone(&self) -> (r: Self) ensures r == *self { unimplemented!() } }

// ---------------------------------------------------------------- shim: ExecutionTrace (trusted; bodies as in interpreter-data/src/trace.rs)
pub struct ExecutionTrace(pub Vec<ExecutedState>);
impl ExecutionTrace {
    pub open spec fn tr(&self) -> Seq<ExecutedState> { self.0@ }
    // real: `self.0.len().try_into().expect(..)` -- panics above u32::MAX states
    pub fn trace_states_count(&self) -> (r: TraceLen)
        requires self.tr().len() <= u32::MAX
        ensures r == self.tr().len()
    { self.0.len() as u32 }
    // real: `self.0.get(usize::from(index))`
    pub fn get(&self, index: TracePos) -> (r: Option<&ExecutedState>)
        ensures r == (if index.0 < self.tr().len() { Some(&self.tr()[index.0 as int]) } else { None })
    { self.0.get(index.0 as usize) }
    // real: `impl Index<TracePos> for ExecutionTrace` = `&self.0[usize::from(index)]` (panics out of range)
    pub fn at(&self, index: TracePos) -> (r: &ExecutedState)
        requires index.0 < self.tr().len()
        ensures *r == self.tr()[index.0 as int]
    { &self.0[index.0 as usize] }
    // real: `Deref<Target = [ExecutedState]>` + slice `len`
    pub fn len(&self) -> (r: usize) ensures r == self.tr().len() { self.0.len() }
}

// ---------------------------------------------------------------- lifted: merger vocabulary, errors
//@ lift crates/air-lib/trace-handler/src/merger/position_mapping.rs :: enum PreparationScheme
//@ derive Copy Clone
//@ end
//@ lift crates/air-lib/trace-handler/src/merger/errors.rs :: enum DataType
//@ derive Copy Clone
//@ end
//@ lift crates/air-lib/trace-handler/src/data_keeper/errors.rs :: enum KeeperError
//@ derive
//@ end
//@ lift crates/air-lib/trace-handler/src/merger/errors.rs :: enum ApResultError
//@ end
//@ lift crates/air-lib/trace-handler/src/merger/errors.rs :: enum CallResultError
//@ end
//@ lift crates/air-lib/trace-handler/src/merger/errors.rs :: enum CanonResultError
//@ end
//@ lift crates/air-lib/trace-handler/src/merger/errors.rs :: enum FoldResultError
//@ end
//@ lift crates/air-lib/trace-handler/src/merger/errors.rs :: enum MergeError
//@ end
//@ lift crates/air-lib/trace-handler/src/merger/mod.rs :: type MergeResult
//@ end
//@ lift crates/air-lib/trace-handler/src/merger/mod.rs :: enum ValueSource
//@ derive Copy Clone
//@ end
//@ lift crates/air-lib/trace-handler/src/merger/mod.rs :: enum MergeCtxType
//@ derive Copy Clone
//@ end
type KeeperResult<T> = Result<T, KeeperError>;

// which error a kind mismatch must produce (merger/errors.rs doc comments): both states present -> IncompatibleExecutedStates
// with both of them; one present -> DifferentExecutedStateExpected with that state, the side it came from, the expected kind
pub open spec fn mismatch_error(p: Option<ExecutedState>, c: Option<ExecutedState>, expected: &'static str, e: MergeError) -> bool {
    match (p, c) {
        (Some(x), Some(y)) => e == MergeError::IncompatibleExecutedStates(x, y),
        (None, Some(y)) => e == MergeError::DifferentExecutedStateExpected(y, DataType::Current, expected),
        (Some(x), None) => e == MergeError::DifferentExecutedStateExpected(x, DataType::Previous, expected),
        (None, None) => false,
    }
}

impl MergeError {
//@ lift crates/air-lib/trace-handler/src/merger/errors.rs :: impl MergeError :: fn incompatible_states
//@ props C01 C09
//@ ret r
//@ rewrite 1 "unreachable!(\"shouldn't be called with both None\")" => "vstd::pervasive::unreached()"
//@ spec
        // `unreachable!` is a panic: every call site must exclude (None, None)
        requires prev_state is Some || current_state is Some
        ensures mismatch_error(prev_state, current_state, expected_state, r)
//@ end
}

// ---------------------------------------------------------------- slider (data_keeper/trace_slider.rs)
//@ lift crates/air-lib/trace-handler/src/data_keeper/trace_slider.rs :: type SeenElements
//@ end
//@ lift crates/air-lib/trace-handler/src/data_keeper/trace_slider.rs :: struct TraceSlider
//@ derive
//@ end
// real: `#[derive(Default)]` (empty trace, position 0, lengths 0)
impl Default for TraceSlider {
    fn default() -> (r: Self) ensures r.fresh(Seq::<ExecutedState>::empty())
    { TraceSlider { trace: ExecutionTrace(Vec::new()), position: TracePos(0), subtrace_len: 0, seen_elements: 0 } }
}

impl TraceSlider {
    // specs: verbatim from slider.rs (with slen() of the trace shim spelled tr().len())
    pub closed spec fn wf(&self) -> bool { self.trace.tr().len() <= u32::MAX && self.seen_elements <= self.subtrace_len }
    pub closed spec fn pos(&self) -> nat { self.position.0 as nat }
    pub closed spec fn slen(&self) -> nat { self.subtrace_len as nat }
    pub closed spec fn seen(&self) -> nat { self.seen_elements as nat }
    pub closed spec fn tlen(&self) -> nat { self.trace.tr().len() }
    pub open spec fn in_window(&self) -> bool { self.pos() + (self.slen() - self.seen()) <= self.tlen() }
    // new here: the content of the trace, and the state the slider hands out next (None: window or trace exhausted)
    pub closed spec fn states(&self) -> Seq<ExecutedState> { self.trace.tr() }
    pub open spec fn exhausted(&self) -> bool { !(self.seen() < self.slen() && self.pos() < self.tlen()) }
    pub open spec fn peek(&self) -> Option<ExecutedState> {
        if self.exhausted() { None } else { Some(self.states()[self.pos() as int]) }
    }
    // one step of the slider: exactly one state consumed iff it is not exhausted; the trace itself is never touched
    pub open spec fn stepped(&self, o: &TraceSlider) -> bool {
        &&& self.wf() && self.tlen() == o.tlen() && self.states() == o.states() && self.slen() == o.slen()
        &&& !o.exhausted() ==> self.pos() == o.pos() + 1 && self.seen() == o.seen() + 1
        &&& o.exhausted() ==> self.pos() == o.pos() && self.seen() == o.seen()
        &&& o.in_window() ==> self.in_window()
    }

    // a slider that has not moved yet: it stands at the start of `t` and its window is all of `t`
    pub closed spec fn fresh(&self, t: Seq<ExecutedState>) -> bool {
        self.trace.tr() == t && self.position.0 == 0 && self.subtrace_len == t.len() && self.seen_elements == 0
    }

//@ lift crates/air-lib/trace-handler/src/data_keeper/trace_slider.rs :: impl TraceSlider :: fn new
//@ props C01 C09
//@ ret r
//@ sig 1 "impl Into<ExecutionTrace>" => "ExecutionTrace"
//@ rewrite 1 "let trace = trace.into();" => "let trace: ExecutionTrace = trace.into();"
//@ spec
        requires trace.tr().len() <= u32::MAX          // the real trace_states_count() `expect`s this
        ensures r.fresh(trace.tr()), r.wf(), r.in_window(), r.pos() == 0, r.seen() == 0, r.slen() == trace.tr().len(),
            r.states() == trace.tr(), r.tlen() == trace.tr().len(),
//@ end

// The slider unit proves next_state against a contract that is silent about WHICH state is returned (ExecutedState is an
// opaque tag there), so it cannot be imported with `//@ stub` for contracts that speak about the merged content. It is
// lifted again here: the first seven clauses are the slider unit's contract verbatim, the last three are new.
//@ lift crates/air-lib/trace-handler/src/data_keeper/trace_slider.rs :: impl TraceSlider :: fn next_state
//@ props C01 C09
//@ ret r
//@ rewrite 1 "self.trace[self.position]" => "self.trace.at(self.position)"
//@ spec
        requires old(self).wf()
        ensures final(self).wf(), final(self).tlen() == old(self).tlen(),
            r is Some <==> (old(self).seen() < old(self).slen() && old(self).pos() < old(self).tlen()),
            r is Some ==> final(self).pos() == old(self).pos() + 1 && final(self).seen() == old(self).seen() + 1
                && final(self).slen() == old(self).slen(),
            r is None ==> final(self).pos() == old(self).pos() && final(self).seen() == old(self).seen()
                && final(self).slen() == old(self).slen(),
            old(self).in_window() ==> final(self).in_window(),
            // content: the state handed out is the one at the old position; the trace is not modified
            r == old(self).peek(),
            final(self).states() == old(self).states(),
            final(self).stepped(old(self)),
//@ end

//@ lift crates/air-lib/trace-handler/src/data_keeper/trace_slider.rs :: impl TraceSlider :: fn position
//@ props C01 C09
//@ ret r
//@ spec
        ensures r.0 == self.pos()
//@ end
}

// ---------------------------------------------------------------- keeper (data_keeper/keeper.rs, merge_ctx.rs)
// bimap::BiHashMap: a set of pairs, injective both ways; `insert` evicts the pairs that share the left or the right value
#[verifier::external_body]
#[verifier::reject_recursive_types(K)]
#[verifier::reject_recursive_types(V)]
pub struct BiHashMap<K, V> { k: core::marker::PhantomData<(K, V)> }
pub open spec fn bimap_insert<K, V>(s: Set<(K, V)>, left: K, right: V) -> Set<(K, V)> {
    s.filter(|p: (K, V)| p.0 != left && p.1 != right).insert((left, right))
}
impl<K, V> BiHashMap<K, V> {
    pub uninterp spec fn pairs(&self) -> Set<(K, V)>;
    #[verifier::external_body]
    pub fn insert(&mut self, left: K, right: V)
        ensures final(self).pairs() == bimap_insert(old(self).pairs(), left, right)
    { unimplemented!() }
}
//@ lift crates/air-lib/trace-handler/src/data_keeper/merge_ctx.rs :: struct MergeCtx
//@ derive
//@ end
//@ lift crates/air-lib/trace-handler/src/data_keeper/keeper.rs :: struct DataKeeper
//@ derive
//@ end

impl MergeCtx {
//@ lift crates/air-lib/trace-handler/src/data_keeper/merge_ctx.rs :: impl MergeCtx :: fn from_trace
//@ props C01 C09
//@ ret r
//@ spec
        requires trace.tr().len() <= u32::MAX
        ensures r.slider.fresh(trace.tr()), r.slider.wf(), r.slider.in_window(), r.slider.states() == trace.tr(),
            r.slider.pos() == 0, r.slider.seen() == 0, r.slider.slen() == trace.tr().len(), r.slider.tlen() == trace.tr().len(),
//@ end
}
// real: `<_>::default()` of bimap::BiHashMap (no pairs) and of ExecutionTrace (`#[derive(Default)]`: no states)
impl<K, V> Default for BiHashMap<K, V> {
    #[verifier::external_body]
    fn default() -> (r: Self) ensures r.pairs() == Set::<(K, V)>::empty() { unimplemented!() }
}
impl Default for ExecutionTrace {
    fn default() -> (r: Self) ensures r.tr() == Seq::<ExecutedState>::empty() { ExecutionTrace(Vec::new()) }
}

impl DataKeeper {
    pub open spec fn rlen(&self) -> nat { self.result_trace.tr().len() }
    // type-level invariant: slider invariants (slider.rs) and a result trace that still has a u32 position
    // (on the wasm32 target every Vec length is below 2^32; trace_states_count() `expect`s it)
    pub open spec fn wf(&self) -> bool { self.prev_ctx.slider.wf() && self.current_ctx.slider.wf() && self.rlen() <= u32::MAX }

//@ lift crates/air-lib/trace-handler/src/data_keeper/keeper.rs :: impl DataKeeper :: fn from_trace
//@ props C01 C09
//@ ret r
//@ spec
        requires prev_trace.tr().len() <= u32::MAX, current_trace.tr().len() <= u32::MAX
        ensures
            // C09: merging starts at the first state of each trace, with the whole trace as the window, and nothing merged yet
            r.wf(), r.prev_ctx.slider.fresh(prev_trace.tr()), r.current_ctx.slider.fresh(current_trace.tr()),
            r.prev_ctx.slider.in_window(), r.current_ctx.slider.in_window(),
            r.prev_ctx.slider.states() == prev_trace.tr(), r.current_ctx.slider.states() == current_trace.tr(),
            r.prev_ctx.slider.pos() == 0 && r.prev_ctx.slider.seen() == 0 && r.prev_ctx.slider.slen() == prev_trace.tr().len(),
            r.current_ctx.slider.pos() == 0 && r.current_ctx.slider.seen() == 0 && r.current_ctx.slider.slen() == current_trace.tr().len(),
            r.rlen() == 0, r.new_to_prev_pos.pairs() == Set::<(TracePos, TracePos)>::empty(),
            r.new_to_current_pos.pairs() == Set::<(TracePos, TracePos)>::empty(),
//@ end

//@ lift crates/air-lib/trace-handler/src/data_keeper/keeper.rs :: impl DataKeeper :: fn result_states_count
//@ props C01
//@ ret r
//@ spec
        ensures r == self.rlen()
//@ end

//@ lift crates/air-lib/trace-handler/src/data_keeper/keeper.rs :: impl DataKeeper :: fn result_trace_next_pos
//@ props C01 C09
//@ ret r
//@ spec
        requires self.rlen() <= u32::MAX     // the real trace_states_count() `expect`s this
        ensures r.0 == self.rlen()
//@ end

//@ lift crates/air-lib/trace-handler/src/data_keeper/keeper.rs :: impl DataKeeper :: fn prev_slider
//@ props C01 C09
//@ ret r
//@ spec
        ensures *r == self.prev_ctx.slider
//@ end

//@ lift crates/air-lib/trace-handler/src/data_keeper/keeper.rs :: impl DataKeeper :: fn current_slider
//@ props C01 C09
//@ ret r
//@ spec
        ensures *r == self.current_ctx.slider
//@ end

// contracts as in fold_state.rs, plus the frame on the fields that exist here
//@ lift crates/air-lib/trace-handler/src/data_keeper/keeper.rs :: impl DataKeeper :: fn prev_slider_mut
//@ props C01 C09
//@ ret r
//@ spec
        ensures *r == old(self).prev_ctx.slider, final(self).prev_ctx.slider == *final(r),
            final(self).current_ctx == old(self).current_ctx,
            final(self).new_to_prev_pos == old(self).new_to_prev_pos, final(self).new_to_current_pos == old(self).new_to_current_pos,
            final(self).result_trace == old(self).result_trace,
//@ end

//@ lift crates/air-lib/trace-handler/src/data_keeper/keeper.rs :: impl DataKeeper :: fn current_slider_mut
//@ props C01 C09
//@ ret r
//@ spec
        ensures *r == old(self).current_ctx.slider, final(self).current_ctx.slider == *final(r),
            final(self).prev_ctx == old(self).prev_ctx,
            final(self).new_to_prev_pos == old(self).new_to_prev_pos, final(self).new_to_current_pos == old(self).new_to_current_pos,
            final(self).result_trace == old(self).result_trace,
//@ end
}

// ---------------------------------------------------------------- what every try_merge_next_state_as_* does to the keeper
// C09.K2: exactly one state is consumed from each slider that is not exhausted -- whatever the outcome (Ok, NotMet, Err) --
// the traces and the result trace are untouched
pub open spec fn both_stepped(o: &DataKeeper, a: &DataKeeper) -> bool {
    &&& a.prev_ctx.slider.stepped(&o.prev_ctx.slider)
    &&& a.current_ctx.slider.stepped(&o.current_ctx.slider)
    &&& a.result_trace == o.result_trace
}
pub open spec fn maps_kept(o: &DataKeeper, a: &DataKeeper) -> bool {
    a.new_to_prev_pos == o.new_to_prev_pos && a.new_to_current_pos == o.new_to_current_pos
}
// the new-position -> old-position bookkeeping (position_mapping.rs): the state that is about to be appended to the
// result trace (at rlen) came from the position the slider(s) just left
pub open spec fn mapped(before: BiHashMap<TracePos, TracePos>, after: BiHashMap<TracePos, TracePos>, new_pos: nat, old_pos: nat) -> bool {
    after.pairs() == bimap_insert(before.pairs(), TracePos(new_pos as u32), TracePos(old_pos as u32))
}
pub open spec fn maps_prepared(o: &DataKeeper, a: &DataKeeper, scheme: PreparationScheme) -> bool {
    &&& (scheme is Previous || scheme is Both) ==> mapped(o.new_to_prev_pos, a.new_to_prev_pos, o.rlen(), (a.prev_ctx.slider.pos() - 1) as nat)
    &&& scheme is Current ==> a.new_to_prev_pos == o.new_to_prev_pos
    &&& (scheme is Current || scheme is Both) ==> mapped(o.new_to_current_pos, a.new_to_current_pos, o.rlen(), (a.current_ctx.slider.pos() - 1) as nat)
    &&& scheme is Previous ==> a.new_to_current_pos == o.new_to_current_pos
}

//@ lift crates/air-lib/trace-handler/src/merger/position_mapping.rs :: fn prepare_positions_mapping
//@ props C01 C05 C08 C09
//@ spec
    requires
        old(data_keeper).rlen() <= u32::MAX,
        // call-site facts: a slider the scheme names has just handed out a state, so its position is >= 1
        // (else `position() - 1` is an overflow panic)
        (scheme is Previous || scheme is Both) ==> old(data_keeper).prev_ctx.slider.pos() >= 1,
        (scheme is Current || scheme is Both) ==> old(data_keeper).current_ctx.slider.pos() >= 1,
    ensures
        final(data_keeper).prev_ctx == old(data_keeper).prev_ctx, final(data_keeper).current_ctx == old(data_keeper).current_ctx,
        final(data_keeper).result_trace == old(data_keeper).result_trace,
        maps_prepared(old(data_keeper), final(data_keeper), scheme),
//@ end

// ================================================================ par (merger/par_merger.rs)
//@ lift crates/air-lib/trace-handler/src/merger/par_merger.rs :: struct MergerParResult
//@ derive Copy Clone
//@ end
// real: `#[derive(Default)]`
impl Default for MergerParResult {
    fn default() -> (r: Self) ensures r.prev_par is None && r.current_par is None { MergerParResult { prev_par: None, current_par: None } }
}
use ExecutedState::Par;

impl MergerParResult {
//@ lift crates/air-lib/trace-handler/src/merger/par_merger.rs :: impl MergerParResult :: fn from_pars
//@ props C01 C09
//@ ret r
//@ spec
        ensures r.prev_par == Some(prev_par), r.current_par == Some(current_par)
//@ end
//@ lift crates/air-lib/trace-handler/src/merger/par_merger.rs :: impl MergerParResult :: fn from_prev_par
//@ props C01 C09
//@ ret r
//@ spec
        ensures r.prev_par == Some(prev_par), r.current_par is None
//@ end
//@ lift crates/air-lib/trace-handler/src/merger/par_merger.rs :: impl MergerParResult :: fn from_current_par
//@ props C01 C09
//@ ret r
//@ spec
        ensures r.prev_par is None, r.current_par == Some(current_par)
//@ end
}

// a slider's next state, as a par: absent / a par / something else
pub open spec fn par_of(s: Option<ExecutedState>) -> Option<ParResult> {
    match s { Some(ExecutedState::Par(p)) => Some(p), _ => None }
}
pub open spec fn par_or_none(s: Option<ExecutedState>) -> bool { s is None || s->Some_0 is Par }

//@ lift crates/air-lib/trace-handler/src/merger/par_merger.rs :: fn try_merge_next_state_as_par
//@ props C01 C09
//@ ret r
//@ spec
    requires old(data_keeper).wf()        // nothing about the states the sliders hand out: they are hostile
    ensures
        final(data_keeper).wf(), both_stepped(old(data_keeper), final(data_keeper)), maps_kept(old(data_keeper), final(data_keeper)),
        // Ok iff every present state is a Par; each par is handed on verbatim, on its own side
        r is Ok <==> par_or_none(old(data_keeper).prev_ctx.slider.peek()) && par_or_none(old(data_keeper).current_ctx.slider.peek()),
        r matches Ok(m) ==> m.prev_par == par_of(old(data_keeper).prev_ctx.slider.peek())
            && m.current_par == par_of(old(data_keeper).current_ctx.slider.peek()),
        // a kind mismatch is an error naming the offending state(s), never a panic
        r matches Err(e) ==> mismatch_error(old(data_keeper).prev_ctx.slider.peek(), old(data_keeper).current_ctx.slider.peek(), "par", e),
//@ end

// restated from call_merger.rs (a trait impl cannot be imported): where the instruction has to look the value up
impl vstd::std_specs::convert::FromSpecImpl<PreparationScheme> for ValueSource {
    open spec fn obeys_from_spec() -> bool { true }
    open spec fn from_spec(scheme: PreparationScheme) -> ValueSource {
        if scheme is Current { ValueSource::CurrentData } else { ValueSource::PreviousData }
    }
}
impl From<PreparationScheme> for ValueSource {
//@ lift crates/air-lib/trace-handler/src/merger/call_merger.rs :: impl From<PreparationScheme> for ValueSource :: fn from
//@ props C01 C09
//@ end
}

// ================================================================ call (merger/call_merger.rs)
pub mod call_m {
use super::*;

// vocabulary of the per-state join, copied from the unit that proves merge_call_results
//@ import-spec call_merger :: is_sent is_result vref_eqv res_eqv join
// callee: contract proved in unit call_merger on the lifted body
//@ stub call_merger :: merge_call_results

//@ lift crates/air-lib/trace-handler/src/merger/call_merger.rs :: const EXPECTED_STATE_NAME
//@ rewrite 1 "&str" => "&'static str"
//@ end
//@ lift crates/air-lib/trace-handler/src/merger/call_merger.rs :: struct MetCallResult
//@ derive
//@ end
//@ lift crates/air-lib/trace-handler/src/merger/call_merger.rs :: enum MergerCallResult
//@ derive
//@ end

impl MetCallResult {
//@ lift crates/air-lib/trace-handler/src/merger/call_merger.rs :: impl MetCallResult :: fn new
//@ props C01 C09
//@ ret r
//@ spec
        ensures r.result == result, r.trace_pos == trace_pos, r.source == source
//@ end
}

//@ lift crates/air-lib/trace-handler/src/merger/call_merger.rs :: fn prepare_call_result
//@ props C01 C09
//@ ret r
//@ spec
    requires
        old(data_keeper).rlen() <= u32::MAX,
        (scheme is Previous || scheme is Both) ==> old(data_keeper).prev_ctx.slider.pos() >= 1,
        (scheme is Current || scheme is Both) ==> old(data_keeper).current_ctx.slider.pos() >= 1,
    ensures
        final(data_keeper).prev_ctx == old(data_keeper).prev_ctx, final(data_keeper).current_ctx == old(data_keeper).current_ctx,
        final(data_keeper).result_trace == old(data_keeper).result_trace,
        maps_prepared(old(data_keeper), final(data_keeper), scheme),
        // the value is handed on verbatim, with the position it will get in the result trace and its origin
        r matches MergerCallResult::Met(m) && m.result == call_result && m.trace_pos.0 == old(data_keeper).rlen()
            && (m.source is CurrentData <==> scheme is Current),
//@ end

// a slider's next state, as a call
pub open spec fn call_of(s: Option<ExecutedState>) -> Option<CallResult> {
    match s { Some(ExecutedState::Call(c)) => Some(c), _ => None }
}
pub open spec fn call_or_none(s: Option<ExecutedState>) -> bool { s is None || s->Some_0 is Call }
// what the call instruction must be handed (C09): the only state there is, or the join of the two; None: nothing / inconsistent
pub open spec fn merged_call(p: Option<ExecutedState>, c: Option<ExecutedState>) -> Option<CallResult> {
    match (call_of(p), call_of(c)) {
        (Some(a), Some(b)) => join(a, b),
        (Some(a), None) => Some(a),
        (None, Some(b)) => Some(b),
        (None, None) => None,
    }
}
// the merged state is the current one iff only the current data had a result (or a state at all)
pub open spec fn taken_from_current(p: Option<ExecutedState>, c: Option<ExecutedState>) -> bool {
    match (call_of(p), call_of(c)) {
        (Some(a), Some(b)) => is_sent(a) && is_result(b),
        (None, Some(_)) => true,
        _ => false,
    }
}
// the bookkeeping: the new position is mapped to the old position(s) of the state(s) the value was taken from
// (two results that merge are recorded on the previous side, and on both sides if both are Executed and the code says Both)
pub open spec fn call_maps_prepared(o: &DataKeeper, a: &DataKeeper, p: Option<ExecutedState>, c: Option<ExecutedState>) -> bool {
    if taken_from_current(p, c) {
        maps_prepared(o, a, PreparationScheme::Current)
    } else if call_of(c) is None {
        maps_prepared(o, a, PreparationScheme::Previous)
    } else {
        maps_prepared(o, a, PreparationScheme::Previous)
            || (call_of(p)->Some_0 is Executed && call_of(c)->Some_0 is Executed && maps_prepared(o, a, PreparationScheme::Both))
    }
}

//@ lift crates/air-lib/trace-handler/src/merger/call_merger.rs :: fn try_merge_next_state_as_call
//@ props C01 C09
//@ ret r
//@ spec
    requires old(data_keeper).wf()        // nothing about the states the sliders hand out: they are hostile
    ensures
        // C09.K2: one state consumed from each non-exhausted slider, whatever the outcome; traces untouched
        final(data_keeper).wf(), both_stepped(old(data_keeper), final(data_keeper)),
        ({
            let p = old(data_keeper).prev_ctx.slider.peek();
            let c = old(data_keeper).current_ctx.slider.peek();
            // NotMet iff both sliders are exhausted; Met iff at least one had a Call state, no other kind showed up
            // and the two call states are consistent
            &&& (r matches Ok(MergerCallResult::NotMet)) <==> (p is None && c is None)
            &&& (r matches Ok(MergerCallResult::Met(_))) <==> (call_or_none(p) && call_or_none(c) && merged_call(p, c) is Some)
            // the value handed to the call instruction is the join (the only state, if there is one only): nothing is forgotten
            &&& r matches Ok(MergerCallResult::Met(m)) ==> Some(m.result) == merged_call(p, c)
                    && m.trace_pos.0 == old(data_keeper).rlen()
                    && (m.source is CurrentData <==> taken_from_current(p, c))
                    && call_maps_prepared(old(data_keeper), final(data_keeper), p, c)
            // a state of another kind: an error naming the offending state(s), never a panic
            &&& !(call_or_none(p) && call_or_none(c)) ==> (r matches Err(e) && mismatch_error(p, c, "call", e))
            // two call states that do not join: the join's error
            &&& (call_or_none(p) && call_or_none(c) && (p is Some || c is Some) && merged_call(p, c) is None)
                    ==> (r matches Err(e) && e is IncorrectCallResult)
            &&& !(r matches Ok(MergerCallResult::Met(_))) ==> maps_kept(old(data_keeper), final(data_keeper))
        }),
//@ end
} // mod call_m


// ================================================================ ap (merger/ap_merger.rs)
pub mod ap_m {
use super::*;

//@ lift crates/air-lib/trace-handler/src/merger/ap_merger.rs :: const EXPECTED_STATE_NAME
//@ rewrite 1 "&str" => "&'static str"
//@ end
//@ lift crates/air-lib/trace-handler/src/merger/ap_merger.rs :: struct MetApResult
//@ derive
//@ end
//@ lift crates/air-lib/trace-handler/src/merger/ap_merger.rs :: enum MergerApResult
//@ derive
//@ end

impl MetApResult {
//@ lift crates/air-lib/trace-handler/src/merger/ap_merger.rs :: impl MetApResult :: fn new
//@ props C01 C09
//@ ret r
//@ spec
        ensures r.generation == generation, r.value_source == value_source
//@ end
}

// `res_generations` comes from (hostile) data: any length. Exactly one generation is usable.
pub open spec fn ap_usable(a: ApResult) -> bool { a.res_generations@.len() == 1 }

//@ lift crates/air-lib/trace-handler/src/merger/ap_merger.rs :: fn prepare_merge_result
//@ props C01 C09
//@ ret r
//@ spec
    requires
        old(data_keeper).rlen() <= u32::MAX,
        (scheme is Previous || scheme is Both) ==> old(data_keeper).prev_ctx.slider.pos() >= 1,
        (scheme is Current || scheme is Both) ==> old(data_keeper).current_ctx.slider.pos() >= 1,
        // nothing about ap_result.res_generations
    ensures
        final(data_keeper).prev_ctx == old(data_keeper).prev_ctx, final(data_keeper).current_ctx == old(data_keeper).current_ctx,
        final(data_keeper).result_trace == old(data_keeper).result_trace,
        // (the bookkeeping is done before the generations are looked at, hence also on Err)
        maps_prepared(old(data_keeper), final(data_keeper), scheme),
        r is Ok <==> ap_usable(ap_result),
        r matches Ok(m) ==> (m matches MergerApResult::Met(met) && met.generation == ap_result.res_generations@[0]
            && (met.value_source is CurrentData <==> scheme is Current)),
        // 0 or more than 1 generations: an error carrying the state, never an index panic
        r matches Err(e) ==> e == MergeError::IncorrectApResult(ApResultError::InvalidDstGenerations(ap_result)),
//@ end

pub open spec fn ap_of(s: Option<ExecutedState>) -> Option<ApResult> {
    match s { Some(ExecutedState::Ap(a)) => Some(a), _ => None }
}
pub open spec fn ap_or_none(s: Option<ExecutedState>) -> bool { s is None || s->Some_0 is Ap }
// the ap state whose generation is used: the previous one if there is one (prev data cannot learn generations from current)
pub open spec fn chosen_ap(p: Option<ExecutedState>, c: Option<ExecutedState>) -> Option<ApResult> {
    match (ap_of(p), ap_of(c)) {
        (Some(a), _) => Some(a),
        (None, Some(b)) => Some(b),
        (None, None) => None,
    }
}
pub open spec fn ap_scheme(p: Option<ExecutedState>, c: Option<ExecutedState>) -> PreparationScheme {
    if p is Some && c is Some { PreparationScheme::Both } else if p is Some { PreparationScheme::Previous } else { PreparationScheme::Current }
}

//@ lift crates/air-lib/trace-handler/src/merger/ap_merger.rs :: fn try_merge_next_state_as_ap
//@ props C01 C09
//@ ret r
//@ spec
    requires old(data_keeper).wf()        // nothing about the states the sliders hand out: they are hostile
    ensures
        final(data_keeper).wf(), both_stepped(old(data_keeper), final(data_keeper)),
        ({
            let p = old(data_keeper).prev_ctx.slider.peek();
            let c = old(data_keeper).current_ctx.slider.peek();
            let kinds_ok = ap_or_none(p) && ap_or_none(c);
            &&& (r matches Ok(MergerApResult::NotMet)) <==> (p is None && c is None)
            &&& (r matches Ok(MergerApResult::Met(_))) <==> (kinds_ok && chosen_ap(p, c) is Some && ap_usable(chosen_ap(p, c)->Some_0))
            &&& r matches Ok(MergerApResult::Met(m)) ==> (chosen_ap(p, c) matches Some(a) && m.generation == a.res_generations@[0]
                    && (m.value_source is CurrentData <==> p is None))
            // a state of another kind: an error naming the offending state(s), never a panic
            &&& !kinds_ok ==> (r matches Err(e) && mismatch_error(p, c, "ap", e))
            // an ap state with 0 or several generations: an error carrying it
            &&& (kinds_ok && chosen_ap(p, c) is Some && !ap_usable(chosen_ap(p, c)->Some_0))
                    ==> r == Err::<MergerApResult, MergeError>(MergeError::IncorrectApResult(ApResultError::InvalidDstGenerations(chosen_ap(p, c)->Some_0)))
            &&& (kinds_ok && (p is Some || c is Some)) ==> maps_prepared(old(data_keeper), final(data_keeper), ap_scheme(p, c))
            &&& !(kinds_ok && (p is Some || c is Some)) ==> maps_kept(old(data_keeper), final(data_keeper))
        }),
//@ end
} // mod ap_m

// ================================================================ canon (merger/canon_merger.rs)
pub mod canon_m {
use super::*;

// vocabulary of the per-state join, copied from the unit that proves merge_canon_results / prepare_*_canon_result
//@ import-spec canon_merger :: is_sent is_result res_eqv join
//@ lift crates/air-lib/trace-handler/src/merger/canon_merger.rs :: const EXPECTED_STATE_NAME
//@ rewrite 1 "&str" => "&'static str"
//@ end
//@ lift crates/air-lib/trace-handler/src/merger/canon_merger.rs :: enum MergerCanonResult
//@ derive
//@ end
// callees: contracts proved in unit canon_merger on the lifted bodies
//@ stub canon_merger :: prepare_single_canon_result
//@ stub canon_merger :: prepare_both_canon_result

pub open spec fn canon_of(s: Option<ExecutedState>) -> Option<CanonResult> {
    match s { Some(ExecutedState::Canon(c)) => Some(c), _ => None }
}
pub open spec fn canon_or_none(s: Option<ExecutedState>) -> bool { s is None || s->Some_0 is Canon }
// what the canon instruction must be handed (C09): the only state there is, or the join of the two
pub open spec fn merged_canon(p: Option<ExecutedState>, c: Option<ExecutedState>) -> Option<CanonResult> {
    match (canon_of(p), canon_of(c)) {
        (Some(a), Some(b)) => join(a, b),
        (Some(a), None) => Some(a),
        (None, Some(b)) => Some(b),
        (None, None) => None,
    }
}

//@ lift crates/air-lib/trace-handler/src/merger/canon_merger.rs :: fn try_merge_next_state_as_canon
//@ props C01 C09
//@ ret r
//@ spec
    requires old(data_keeper).wf()        // nothing about the states the sliders hand out: they are hostile
    ensures
        final(data_keeper).wf(), both_stepped(old(data_keeper), final(data_keeper)), maps_kept(old(data_keeper), final(data_keeper)),
        ({
            let p = old(data_keeper).prev_ctx.slider.peek();
            let c = old(data_keeper).current_ctx.slider.peek();
            let kinds_ok = canon_or_none(p) && canon_or_none(c);
            &&& (r matches Ok(MergerCanonResult::Empty)) <==> (p is None && c is None)
            &&& (r matches Ok(MergerCanonResult::CanonResult(_))) <==> (kinds_ok && merged_canon(p, c) is Some)
            &&& r matches Ok(MergerCanonResult::CanonResult(m)) ==> Some(m) == merged_canon(p, c)
            &&& !kinds_ok ==> (r matches Err(e) && mismatch_error(p, c, "canon", e))
            &&& (kinds_ok && (p is Some || c is Some) && merged_canon(p, c) is None) ==> (r matches Err(e) && e is IncorrectCanonResult)
        }),
//@ end
} // mod canon_m


// ================================================================ fold (merger/fold_merger.rs, fold_merger/fold_lore_resolver.rs)
pub mod fold_m {
use super::*;

//@ lift crates/air-lib/trace-handler/src/merger/fold_merger/fold_lore_resolver.rs :: struct ResolvedSubTraceDescs
//@ derive
//@ end
//@ lift crates/air-lib/trace-handler/src/merger/fold_merger/fold_lore_resolver.rs :: type FoldStatesCount
//@ end
// the real field is `HashMap<TracePos, ResolvedSubTraceDescs>`; only its emptiness is spoken about here
#[verifier::external_body]
pub struct LoreMap { m: std::collections::HashMap<u32, ResolvedSubTraceDescs> }
impl LoreMap {
    pub uninterp spec fn entries(&self) -> Map<TracePos, ResolvedSubTraceDescs>;
}
//@ lift crates/air-lib/trace-handler/src/merger/fold_merger/fold_lore_resolver.rs :: struct ResolvedFold
//@ derive
//@ rewrite 1 "HashMap<TracePos, ResolvedSubTraceDescs>" => "LoreMap"
//@ end
//@ lift crates/air-lib/trace-handler/src/merger/fold_merger.rs :: struct MergerFoldResult
//@ derive
//@ end
// an absent fold state resolves to nothing: no iterations, no states
pub open spec fn empty_fold(f: ResolvedFold) -> bool { f.fold_states_count == 0 && f.lore.entries() == Map::<TracePos, ResolvedSubTraceDescs>::empty() }
// real: `#[derive(Default)]` on both
impl Default for ResolvedFold {
    #[verifier::external_body]
    fn default() -> (r: Self) ensures empty_fold(r) { unimplemented!() }
}
impl Default for MergerFoldResult {
    fn default() -> (r: Self) ensures empty_fold(r.prev_fold_lore), empty_fold(r.current_fold_lore)
    { MergerFoldResult { prev_fold_lore: ResolvedFold::default(), current_fold_lore: ResolvedFold::default() } }
}

// resolve_fold_lore is NOT lifted: Verus rejects its `fold.lore.iter().zip(lens).try_fold(.., |mut resolved_lore, (lore, lens)| ..)`
// ("only variables are supported here, not general patterns"; `Zip::try_fold` has no specification either). Its callee
// compute_lens_convolution is proved in unit convolution; the closure's two indexings `subtraces_desc[0]` / `[1]` are safe because
// that callee returned Ok (=> every sublore has exactly two descriptors). The stub below only NAMES the call relation
// (no determinism, no success condition claimed), so that the contracts can say which fold was resolved against which context.
pub uninterp spec fn resolves_to(fold: FoldResult, merge_ctx: MergeCtx, r: MergeResult<ResolvedFold>) -> bool;
#[verifier::external_body]
pub fn resolve_fold_lore(fold: &FoldResult, merge_ctx: &MergeCtx) -> (r: MergeResult<ResolvedFold>)
    ensures resolves_to(*fold, *merge_ctx, r)
{ unimplemented!() }

impl MergerFoldResult {
//@ lift crates/air-lib/trace-handler/src/merger/fold_merger.rs :: impl MergerFoldResult :: fn from_fold_result
//@ props C01 C09
//@ ret r
//@ spec
        ensures
            // the fold is resolved against the context it came from; the other side gets the empty lore
            ctx_type is Previous ==> match r {
                Ok(m) => resolves_to(*fold, data_keeper.prev_ctx, Ok(m.prev_fold_lore)) && empty_fold(m.current_fold_lore),
                Err(e) => resolves_to(*fold, data_keeper.prev_ctx, Err(e)),
            },
            ctx_type is Current ==> match r {
                Ok(m) => resolves_to(*fold, data_keeper.current_ctx, Ok(m.current_fold_lore)) && empty_fold(m.prev_fold_lore),
                Err(e) => resolves_to(*fold, data_keeper.current_ctx, Err(e)),
            },
//@ end

//@ lift crates/air-lib/trace-handler/src/merger/fold_merger.rs :: impl MergerFoldResult :: fn from_fold_results
//@ props C01 C09
//@ ret r
//@ spec
        ensures
            // each fold is resolved against its own context; the first failure is the result
            match r {
                Ok(m) => resolves_to(*prev_fold, data_keeper.prev_ctx, Ok(m.prev_fold_lore))
                    && resolves_to(*current_fold, data_keeper.current_ctx, Ok(m.current_fold_lore)),
                Err(e) => resolves_to(*prev_fold, data_keeper.prev_ctx, Err(e))
                    || ((exists|f: ResolvedFold| resolves_to(*prev_fold, data_keeper.prev_ctx, Ok(f)))
                        && resolves_to(*current_fold, data_keeper.current_ctx, Err(e))),
            },
//@ end
}

pub open spec fn fold_of(s: Option<ExecutedState>) -> Option<FoldResult> {
    match s { Some(ExecutedState::Fold(f)) => Some(f), _ => None }
}
pub open spec fn fold_or_none(s: Option<ExecutedState>) -> bool { s is None || s->Some_0 is Fold }
// one side of the result: the resolution of the fold state of that side against that side's context, or the empty lore
pub open spec fn side_resolved(s: Option<ExecutedState>, ctx: MergeCtx, f: ResolvedFold) -> bool {
    match fold_of(s) { Some(fold) => resolves_to(fold, ctx, Ok(f)), None => empty_fold(f) }
}
pub open spec fn side_failed(s: Option<ExecutedState>, ctx: MergeCtx, e: MergeError) -> bool {
    fold_of(s) matches Some(fold) && resolves_to(fold, ctx, Err(e))
}

//@ lift crates/air-lib/trace-handler/src/merger/fold_merger.rs :: fn try_merge_next_state_as_fold
//@ props C01 C09
//@ ret r
//@ spec
    requires old(data_keeper).wf()        // nothing about the states the sliders hand out: they are hostile
    ensures
        final(data_keeper).wf(), both_stepped(old(data_keeper), final(data_keeper)), maps_kept(old(data_keeper), final(data_keeper)),
        ({
            let p = old(data_keeper).prev_ctx.slider.peek();
            let c = old(data_keeper).current_ctx.slider.peek();
            let kinds_ok = fold_or_none(p) && fold_or_none(c);
            // a state of another kind: an error naming the offending state(s), never a panic
            &&& !kinds_ok ==> (r matches Err(e) && mismatch_error(p, c, "fold", e))
            // otherwise each side's lore is the resolution of that side's fold against that side's (already advanced) context
            &&& kinds_ok ==> match r {
                    Ok(m) => side_resolved(p, final(data_keeper).prev_ctx, m.prev_fold_lore)
                        && side_resolved(c, final(data_keeper).current_ctx, m.current_fold_lore),
                    Err(e) => side_failed(p, final(data_keeper).prev_ctx, e) || side_failed(c, final(data_keeper).current_ctx, e),
                }
        }),
//@ end
} // mod fold_m

} // verus!
fn main() {}
