//@ unit multiformat
// crates/air-lib/interpreter-sede/src/multiformat.rs: parse_multiformat_bytes, decode_multiformat,
// write_multiformat, encode_multiformat (C27, multiformat layer).
//
// Trusted part of this file:
//  * unsigned_varint::{encode,decode}::u32 with uninterpreted `varint_enc` / `varint_dec` and the round-trip law
//    `lib_varint_dec(varint_enc(n) ++ rest) == Some((n, rest))` (axiom_varint_round_trip; the native job C27.roundtrip checks it on the real crate
//    over a boundary grid). The tag parse `varint_dec` of the contracts additionally demands that the bytes consumed ARE the encoding (F15).
//  * `Format<Value>` mirrors crates/air-lib/interpreter-sede/src/format.rs (same three methods) with
//    uninterpreted `decode_spec` / `encode_spec`; it cannot be lifted because the contracts need those spec members.
//    `from_slice` carries the precondition `payload_checked`: it may only be applied to a payload whose codec tag
//    has been compared with the expected one.
//  * `Write` stands for std::io::Write (write_all appends to a ghost `written()`; `Vec<u8>` implements it).
use vstd::prelude::*;
verus! {

// ---------------------------------------------------------------- shim: unsigned_varint (trusted)
pub uninterp spec fn varint_enc(n: u32) -> Seq<u8>;
// what unsigned_varint::decode::u32 returns. It silently drops the bits of a fifth byte that do not fit into u32 (finding F15),
// so it is NOT assumed to accept canonical encodings only.
pub uninterp spec fn lib_varint_dec(bytes: Seq<u8>) -> Option<(u32, Seq<u8>)>;
#[verifier::external_body]
pub proof fn axiom_varint_round_trip(n: u32, rest: Seq<u8>)
    ensures lib_varint_dec(varint_enc(n) + rest) == Some((n, rest))
{}
// the codec tag of a multiformat payload, from the property statement: bytes that ARE the encoding of a codec, nothing else
pub open spec fn varint_dec(bytes: Seq<u8>) -> Option<(u32, Seq<u8>)> {
    match lib_varint_dec(bytes) {
        Some((n, rest)) => if varint_enc(n).len() == bytes.len() - rest.len() { Some((n, rest)) } else { None },
        None => None,
    }
}
pub proof fn lemma_varint_round_trip(n: u32, rest: Seq<u8>)
    ensures varint_dec(varint_enc(n) + rest) == Some((n, rest))
{
    axiom_varint_round_trip(n, rest);
}
pub mod varint_decode {
    use vstd::prelude::*;
    use super::*;
    // unsigned_varint::decode::Error
    pub enum Error { Insufficient, Overflow, NotMinimal }
    #[verifier::external_body]
    pub fn u32(buf: &[u8]) -> (r: Result<(u32, &[u8]), Error>)
        ensures r is Ok <==> lib_varint_dec(buf@) is Some,
            r matches Ok((n, rest)) ==> lib_varint_dec(buf@) == Some((n, rest@)) && rest@.len() <= buf@.len(),
    { unimplemented!() }
    // the other widths of unsigned_varint::decode: nothing is known about them (a narrower decoder drops bits, a wider one
    // accepts more tags), so code that reads the codec with one of them cannot meet the contract of parse_multiformat_bytes
    #[verifier::external_body] pub fn u8(buf: &[u8]) -> Result<(u8, &[u8]), Error> { unimplemented!() }
    #[verifier::external_body] pub fn u16(buf: &[u8]) -> Result<(u16, &[u8]), Error> { unimplemented!() }
    #[verifier::external_body] pub fn u64(buf: &[u8]) -> Result<(u64, &[u8]), Error> { unimplemented!() }
    #[verifier::external_body] pub fn usize(buf: &[u8]) -> Result<(usize, &[u8]), Error> { unimplemented!() }
}
pub mod varint_encode {
    use vstd::prelude::*;
    use super::*;
    #[verifier::external_body]
    pub fn u32_buffer() -> [u8; 5] { unimplemented!() }
    #[verifier::external_body]
    pub fn u32(number: u32, buf: &mut [u8; 5]) -> (r: &[u8])
        ensures r@ == varint_enc(number)
    { unimplemented!() }
}

// ---------------------------------------------------------------- shim: std::io::Write, Format (trusted)
pub mod io { pub struct Error; }
pub trait Write {
    spec fn written(&self) -> Seq<u8>;
    fn write_all(&mut self, buf: &[u8]) -> (r: Result<(), io::Error>)
        ensures r is Ok ==> final(self).written() == old(self).written() + buf@;
}
impl Write for Vec<u8> {
    open spec fn written(&self) -> Seq<u8> { self@ }
    #[verifier::external_body]
    fn write_all(&mut self, buf: &[u8]) -> (r: Result<(), io::Error>) { unimplemented!() }
}
pub trait Format<Value> {
    type SerializationError;
    type DeserializationError;
    type WriteError;
    spec fn decode_spec(&self, bytes: Seq<u8>) -> Result<Value, Self::DeserializationError>;
    spec fn encode_spec(&self, value: &Value) -> Seq<u8>;
    // "this payload's codec tag was compared with the expected codec"
    spec fn payload_checked(&self, bytes: Seq<u8>) -> bool;

    fn to_vec(&self, val: &Value) -> Result<Vec<u8>, Self::SerializationError>;
    fn from_slice(&self, slice: &[u8]) -> (r: Result<Value, Self::DeserializationError>)
        requires self.payload_checked(slice@)
        ensures r == self.decode_spec(slice@);
    fn to_writer<W: Write>(&self, value: &Value, write: &mut W) -> (r: Result<(), Self::WriteError>)
        ensures r is Ok ==> final(write).written() == old(write).written() + self.encode_spec(value);
}

//@ lift crates/air-lib/interpreter-sede/src/multiformat.rs :: type SerializationCodec
//@ end
//@ lift crates/air-lib/interpreter-sede/src/multiformat.rs :: const ENCODING_BUFFER_CAPACITY
//@ end
//@ lift crates/air-lib/interpreter-sede/src/multiformat.rs :: enum DecodeError
//@ derive
//@ end
//@ lift crates/air-lib/interpreter-sede/src/multiformat.rs :: enum EncodeError
//@ derive
//@ rewrite 1 "std::io::Error" => "io::Error"
//@ end
impl<E> From<varint_decode::Error> for DecodeError<E> { fn from(e: varint_decode::Error) -> Self { DecodeError::VarInt(e) } }
impl<E> vstd::std_specs::convert::FromSpecImpl<varint_decode::Error> for DecodeError<E> {
    open spec fn obeys_from_spec() -> bool { true }
    open spec fn from_spec(e: varint_decode::Error) -> Self { DecodeError::VarInt(e) }
}
impl<E> From<io::Error> for EncodeError<E> { fn from(e: io::Error) -> Self { EncodeError::Io(e) } }
impl<E> vstd::std_specs::convert::FromSpecImpl<io::Error> for EncodeError<E> {
    open spec fn obeys_from_spec() -> bool { true }
    open spec fn from_spec(e: io::Error) -> Self { EncodeError::Io(e) }
}

// Rewrites in decode_multiformat / write_multiformat: Verus gives no spec to the `From` conversion hidden in `?`
// and rejects a datatype constructor used as a function value; both are written out as annotated closures
// (`x?` -> `x.map_err(|e| e.into())?`, `map_err(Ctor)` -> `map_err(|e| Ctor(e))`).
// ---------------------------------------------------------------- the contract
// what decoding multiformat bytes with an expected codec must give (None: some error not pinned down here)
pub open spec fn decode_mf_spec<Value, Fmt: Format<Value>>(bytes: Seq<u8>, expected: u32, format: &Fmt)
    -> Option<Result<Value, DecodeError<Fmt::DeserializationError>>>
{
    match varint_dec(bytes) {
        None => None,
        Some((codec, payload)) =>
            if codec != expected { Some(Err(DecodeError::Codec(codec))) }
            else { Some(match format.decode_spec(payload) { Ok(v) => Ok(v), Err(e) => Err(DecodeError::Format(e)) }) },
    }
}

//@ lift crates/air-lib/interpreter-sede/src/multiformat.rs :: fn parse_multiformat_bytes
//@ props C27
//@ ret r
//@ spec
    ensures r is Ok <==> varint_dec(data@) is Some,
        r matches Ok((n, rest)) ==> varint_dec(data@) == Some((n, rest@)),
//@ end

//@ lift crates/air-lib/interpreter-sede/src/multiformat.rs :: fn decode_multiformat
//@ props C27
//@ ret r
//@ rewrite 1 "parse_multiformat_bytes(multiformat_data)?" => "parse_multiformat_bytes(multiformat_data).map_err(|e: varint_decode::Error| -> (o: DecodeError<<Fmt as Format<Value>>::DeserializationError>) ensures o == DecodeError::<<Fmt as Format<Value>>::DeserializationError>::VarInt(e) { e.into() })?"
//@ rewrite 1 "map_err(DecodeError::Format)" => "map_err(|e: <Fmt as Format<Value>>::DeserializationError| -> (o: DecodeError<<Fmt as Format<Value>>::DeserializationError>) ensures o == DecodeError::Format(e) { DecodeError::Format(e) })"
//@ spec
    requires
        // from_slice may be applied to the payload only when its tag is the expected one
        varint_dec(multiformat_data@) matches Some((c, payload)) ==> (c == expected_codec ==> format.payload_checked(payload)),
    ensures
        varint_dec(multiformat_data@) is None ==> r matches Err(DecodeError::VarInt(_)),
        // C27.V1: Err(Codec(c)) iff the decoded codec differs from the expected one -- whatever the payload
        decode_mf_spec::<Value, Fmt>(multiformat_data@, expected_codec, format) matches Some(expected_result) ==> r == expected_result,
        (r matches Err(DecodeError::Codec(c))) <==> (varint_dec(multiformat_data@) matches Some((c2, _)) && c2 != expected_codec),
        r matches Err(DecodeError::Codec(c)) ==> (varint_dec(multiformat_data@) matches Some((c2, _)) && c2 == c),
//@ end

//@ lift crates/air-lib/interpreter-sede/src/multiformat.rs :: fn write_multiformat
//@ props C27
//@ ret r
//@ rewrite 1 "map_err(EncodeError::Format)" => "map_err(|e: <Fmt as Format<Value>>::WriteError| -> (o: EncodeError<<Fmt as Format<Value>>::WriteError>) { EncodeError::Format(e) })"
//@ spec
    ensures
        r is Ok ==> final(output).written() == old(output).written() + varint_enc(codec) + format.encode_spec(data),
//@ end

//@ lift crates/air-lib/interpreter-sede/src/multiformat.rs :: fn encode_multiformat
//@ props C27
//@ ret r
//@ spec
    ensures
        r matches Ok(bytes) ==> bytes@ == varint_enc(codec) + format.encode_spec(data),
//@ end

// decode . encode: the tag written by write_multiformat is the tag decode_multiformat compares
//@ lemma multiformat_round_trip props C27
proof fn multiformat_round_trip<Value, Fmt: Format<Value>>(value: &Value, codec: u32, expected: u32, format: &Fmt)
    ensures
        decode_mf_spec::<Value, Fmt>(varint_enc(codec) + format.encode_spec(value), expected, format) ==
            Some(if codec != expected { Err(DecodeError::Codec(codec)) }
                 else { match format.decode_spec(format.encode_spec(value)) { Ok(v) => Ok(v), Err(e) => Err(DecodeError::Format(e)) } })
{
    lemma_varint_round_trip(codec, format.encode_spec(value));
}
//@ end

} // verus!
fn main() {}
