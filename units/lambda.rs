//@ unit lambda
// Lens application to a scalar (C24): air/src/execution_step/lambda_applier/utils.rs (one-step functions)
// and applier.rs (`select_by_path_from_scalar`, the loop over the path), against the recursive `nav` of the
// property statement.
//
// Trusted part of this file:
//  * JValue shim (air_interpreter_value::JValue): same six variants; the payloads of Array (`Rc<[JValue]>`) and
//    Object (`Rc<Map<JsonString, JValue>>`) are opaque types with uninterpreted views `arr_view` / `map_view`
//    (this breaks the type recursion Verus rejects); `get` on them has the obvious slice / BTreeMap contract.
//  * serde_json::Number: opaque; one uninterpreted `int_value`, with is_i64/as_i64/is_u64/as_u64 defined from it.
//  * scalars of the execution context: `Scalars::get_value` returns a reference that resolves to the
//    uninterpreted `scalar_spec(name)`; a fold variable handed out by it is never exhausted
//    (PEEK_ALLOWED_ON_NON_EMPTY, the `expect` in select_by_scalar).
//  * ExecutionError / CatchableError: the variants used here; `JValue::as_array`, `JArray::len`, `From<usize> for JValue`
//    (uninterpreted `jvalue_of_usize`) for the `.length` functor.
//  * canon-map part (second sentence of C24): CanonStreamMap / CanonStream opaque (`index` = HashMap::get by the derived
//    Eq/Hash of StreamMapKey = `key_view`), NonEmpty, `select_by_path_from_canon_map_stream` and
//    `update_tetraplet_with_path` stubs without contracts, `<i64 as From<u32>>::from` (lossless widening).
// Rewrites (all local): the closure of try_number_to_u32 gets its annotated form (R11); the closure inside the
//    lifted `lambda_to_execution_error!` is annotated (`ensures is_lambda_error(o)`) and wrapped in `verus_exec_expr!`
//    so that Verus syntax is legal inside a macro body; in select_by_path_from_scalar the loop iterator is named
//    (`in it: lambda`) and the `impl Iterator` parameter is instantiated at the call sites' `core::slice::Iter`;
//    in select_by_path_from_canon_map `JsonString::from(*field_name).to_owned()` -> `json_string_from_str(*field_name)`.
use vstd::prelude::*;
use vstd::std_specs::iter::IteratorSpec;
verus! {

pub type Rc<T> = std::rc::Rc<T>;

// ---------------------------------------------------------------- shim: JValue (trusted)
pub mod serde_json {
    use vstd::prelude::*;
    #[verifier::external_body]
    pub struct Number { _opaque: () }
    // serde_json::Number is PosInt(u64) | NegInt(i64, always negative) | Float(f64). The shim keeps ONE uninterpreted
    // fact, the integer a number stands for (None: a float); is_i64/as_i64/is_u64/as_u64 are the functions of it
    // that serde_json implements, so they are mutually consistent by construction.
    impl Number {
        pub uninterp spec fn int_value(&self) -> Option<int>;
        pub open spec fn as_i64_spec(&self) -> Option<i64> {
            match self.int_value() { Some(i) => if i64::MIN <= i <= i64::MAX { Some(i as i64) } else { None }, None => None }
        }
        pub open spec fn as_u64_spec(&self) -> Option<u64> {
            match self.int_value() { Some(i) => if 0 <= i <= u64::MAX { Some(i as u64) } else { None }, None => None }
        }
        #[verifier::external_body]
        pub fn as_u64(&self) -> (r: Option<u64>) ensures r == self.as_u64_spec() { unimplemented!() }
        #[verifier::external_body]
        pub fn as_i64(&self) -> (r: Option<i64>) ensures r == self.as_i64_spec() { unimplemented!() }
        #[verifier::external_body]
        pub fn is_u64(&self) -> (r: bool) ensures r == self.as_u64_spec() is Some { unimplemented!() }
        #[verifier::external_body]
        pub fn is_i64(&self) -> (r: bool) ensures r == self.as_i64_spec() is Some { unimplemented!() }
    }
    impl Clone for Number {
        #[verifier::external_body]
        fn clone(&self) -> (r: Self) ensures r == *self { unimplemented!() }
    }
}
pub type JsonString = Rc<str>;
#[verifier::external_body]
pub struct JArray { _opaque: () }      // Rc<[JValue]>
#[verifier::external_body]
pub struct JObject { _opaque: () }     // Rc<Map<JsonString, JValue>>
pub enum JValue { Null, Bool(bool), Number(serde_json::Number), String(JsonString), Array(JArray), Object(JObject) }
impl Clone for JValue {
    #[verifier::external_body]
    fn clone(&self) -> (r: Self) ensures r == *self { unimplemented!() }
}
impl JValue {
    // real: `match self { JValue::Array(array) => Some(array), _ => None }` (as a slice)
    pub fn as_array(&self) -> (r: Option<&JArray>)
        ensures r == (match *self { JValue::Array(a) => Some(&a), _ => None::<&JArray> })
    { match self { JValue::Array(array) => Some(array), _ => None } }
}
// `From<usize> for JValue` (from_integer!: `JValue::Number(n.into())`)
pub uninterp spec fn jvalue_of_usize(n: usize) -> JValue;
impl From<usize> for JValue {
    #[verifier::external_body]
    fn from(n: usize) -> (r: JValue) { unimplemented!() }
}
impl vstd::std_specs::convert::FromSpecImpl<usize> for JValue {
    open spec fn obeys_from_spec() -> bool { true }
    open spec fn from_spec(n: usize) -> JValue { jvalue_of_usize(n) }
}
pub uninterp spec fn arr_view(a: &JArray) -> Seq<JValue>;
pub uninterp spec fn map_view(m: &JObject) -> Map<Seq<char>, JValue>;
impl JArray {
    #[verifier::external_body]
    pub fn len(&self) -> (r: usize) ensures r == arr_view(self).len() { unimplemented!() }
    // <[JValue]>::get
    #[verifier::external_body]
    pub fn get(&self, i: usize) -> (r: Option<&JValue>)
        ensures r == (if i < arr_view(self).len() { Some(&arr_view(self)[i as int]) } else { None::<&JValue> })
    { unimplemented!() }
}
impl JObject {
    // Map<JsonString, JValue>::get::<str>
    #[verifier::external_body]
    pub fn get(&self, k: &str) -> (r: Option<&JValue>)
        ensures r == (if map_view(self).dom().contains(k@) { Some(&map_view(self)[k@]) } else { None::<&JValue> })
    { unimplemented!() }
}

// ---------------------------------------------------------------- errors
//@ lift air/src/execution_step/lambda_applier/errors.rs :: enum LambdaError
//@ derive
//@ end
//@ lift air/src/execution_step/lambda_applier/mod.rs :: type LambdaResult
//@ end
pub enum CatchableError { LambdaApplierError(LambdaError), VariableNotFound(String), LengthFunctorAppliedToNotArray(JValue) }
pub enum ExecutionError { Catchable(Rc<CatchableError>), Uncatchable }
pub type ExecutionResult<T> = Result<T, ExecutionError>;
pub mod execution_step {
    pub use super::ExecutionError; pub use super::CatchableError;
    pub mod value_types { pub use super::super::CanonStream; }
}
pub open spec fn is_lambda_error(e: ExecutionError) -> bool {
    e matches ExecutionError::Catchable(c) && *c is LambdaApplierError
}
pub open spec fn is_catchable(e: ExecutionError) -> bool { e is Catchable }

// ---------------------------------------------------------------- shim: scalars of the execution context (trusted)
pub struct ValueAggregate { pub result: JValue }
impl ValueAggregate {
    pub fn get_result(&self) -> (r: &JValue) ensures *r == self.result { &self.result }
}
pub struct IterableItem { pub resolved: ValueAggregate }
impl IterableItem {
    pub fn into_resolved_result(self) -> (r: ValueAggregate) ensures r == self.resolved { self.resolved }
}
#[verifier::external_body]
pub struct IterableValue { _opaque: () }     // Box<dyn Iterable<Item = IterableItem>>
impl IterableValue {
    pub uninterp spec fn peeked(&self) -> Option<IterableItem>;
    #[verifier::external_body]
    pub fn peek(&self) -> (r: Option<IterableItem>) ensures r == self.peeked() { unimplemented!() }
}
pub struct FoldState { pub iterable: IterableValue }
pub const PEEK_ALLOWED_ON_NON_EMPTY: &'static str = "peek always return elements inside fold";
pub enum ScalarRef<'i> { Value(&'i ValueAggregate), IterableValue(&'i FoldState) }
// a fold variable is visible only while its iterable is non-empty
pub open spec fn scalar_ref_wf(s: ScalarRef<'_>) -> bool {
    s matches ScalarRef::IterableValue(f) ==> f.iterable.peeked() is Some
}
// the JSON value a scalar reference resolves to
pub open spec fn scalar_ref_value(s: ScalarRef<'_>) -> JValue {
    match s {
        ScalarRef::Value(v) => v.result,
        ScalarRef::IterableValue(f) => f.iterable.peeked()->0.resolved.result,
    }
}
#[verifier::external_body]
pub struct Scalars { _opaque: () }
impl Scalars {
    pub uninterp spec fn scalar_spec(&self, name: Seq<char>) -> Option<JValue>;
    pub uninterp spec fn is_fold_variable(&self, name: Seq<char>) -> bool;
    #[verifier::external_body]
    pub fn get_value<'s>(&'s self, name: &str) -> (r: ExecutionResult<ScalarRef<'s>>)
        ensures
            r is Ok <==> self.scalar_spec(name@) is Some,
            r matches Ok(s) ==> scalar_ref_wf(s) && Some(scalar_ref_value(s)) == self.scalar_spec(name@),
            r matches Ok(s) ==> (s is IterableValue <==> self.is_fold_variable(name@)),
            r matches Err(e) ==> is_catchable(e),
    { unimplemented!() }
}
pub struct ExecutionCtx<'i> { pub scalars: Scalars, pub _p: core::marker::PhantomData<&'i ()> }

//@ lift crates/air-lib/lambda/ast/src/ast.rs :: enum ValueAccessor
//@ derive Clone Copy
//@ end

//@ lift air/src/execution_step/lambda_applier/mod.rs :: macro_rules lambda_to_execution_error
//@ rewrite 1 "$lambda_expr.map_err(|lambda_error| {" => "::vstd::prelude::verus_exec_expr!{ $lambda_expr.map_err(|lambda_error: LambdaError| -> (o: ExecutionError) ensures is_lambda_error(o) {"
//@ rewrite 1 "})\n    };" => "}) }\n    };"
//@ end

// ---------------------------------------------------------------- the spec: plain JSON navigation
pub open spec fn step_idx(v: JValue, i: u32) -> Option<JValue> {
    match v { JValue::Array(a) => if (i as int) < arr_view(&a).len() { Some(arr_view(&a)[i as int]) } else { None }, _ => None }
}
pub open spec fn step_field(v: JValue, k: Seq<char>) -> Option<JValue> {
    match v { JValue::Object(m) => if map_view(&m).dom().contains(k) { Some(map_view(&m)[k]) } else { None }, _ => None }
}
// a JSON number used as an index: it must fit u32
pub open spec fn number_as_idx(n: serde_json::Number) -> Option<u32> {
    match n.as_u64_spec() { Some(v) => if v <= u32::MAX { Some(v as u32) } else { None }, None => None }
}
// an accessor taken from a scalar resolves to Idx / Field by the JSON type of the scalar
pub open spec fn step_scalar(v: JValue, accessor: JValue) -> Option<JValue> {
    match accessor {
        JValue::String(k) => step_field(v, k@),
        JValue::Number(n) => match number_as_idx(n) { Some(i) => step_idx(v, i), None => None },
        _ => None,
    }
}
pub open spec fn step(scalars: &Scalars, v: JValue, acc: &ValueAccessor<'_>) -> Option<JValue> {
    match *acc {
        ValueAccessor::ArrayAccess { idx } => step_idx(v, idx),
        ValueAccessor::FieldAccessByName { field_name } => step_field(v, field_name@),
        ValueAccessor::FieldAccessByScalar { scalar_name } => match scalars.scalar_spec(scalar_name@) {
            Some(s) => step_scalar(v, s),
            None => None,
        },
        ValueAccessor::Error => None,
    }
}
// nav(v, path): navigation along the whole path; nav_from(v, path, i) is nav on the suffix path[i..]
//   nav(v, [])       = Some(v)
//   nav(v, a :: p)   = match step(v, a) { Some(v2) => nav(v2, p), None => None }
pub open spec fn nav_from(scalars: &Scalars, v: JValue, path: Seq<&ValueAccessor<'_>>, i: int) -> Option<JValue>
    decreases path.len() - i
{
    if i < 0 || i >= path.len() { Some(v) } else {
        match step(scalars, v, path[i]) { Some(v2) => nav_from(scalars, v2, path, i + 1), None => None }
    }
}
pub open spec fn nav(scalars: &Scalars, v: JValue, path: Seq<&ValueAccessor<'_>>) -> Option<JValue> {
    nav_from(scalars, v, path, 0)
}

// ---------------------------------------------------------------- utils.rs
//@ lift air/src/execution_step/lambda_applier/utils.rs :: fn try_jvalue_with_idx
//@ props C24
//@ ret r
//@ spec
    ensures
        r is Ok <==> step_idx(*jvalue, idx) is Some,
        r matches Ok(v) ==> step_idx(*jvalue, idx) == Some(*v),
//@ end

//@ lift air/src/execution_step/lambda_applier/utils.rs :: fn try_jvalue_with_field_name
//@ props C24
//@ ret r
//@ spec
    ensures
        r is Ok <==> step_field(*jvalue, field_name@) is Some,
        r matches Ok(v) ==> step_field(*jvalue, field_name@) == Some(*v),
//@ end

//@ lift air/src/execution_step/lambda_applier/utils.rs :: fn try_number_to_u32
//@ props C24
//@ ret r
//@ rewrite 1 "|v| u32::try_from(v).ok()" => "|v: u64| -> (o: Option<u32>) ensures o == (if v <= u32::MAX { Some(v as u32) } else { None::<u32> }) { u32::try_from(v).ok() }"
//@ spec
    ensures
        r is Ok <==> number_as_idx(*accessor) is Some,
        r matches Ok(i) ==> number_as_idx(*accessor) == Some(i),
//@ end

//@ lift air/src/execution_step/lambda_applier/utils.rs :: fn select_by_jvalue
//@ props C24
//@ ret r
//@ spec
    ensures
        r is Ok <==> step_scalar(*value, *accessor) is Some,
        r matches Ok(v) ==> step_scalar(*value, *accessor) == Some(*v),
//@ end

//@ lift air/src/execution_step/lambda_applier/utils.rs :: fn select_by_scalar
//@ props C24
//@ ret r
//@ spec
    requires scalar_ref_wf(scalar_ref)
    ensures
        r is Ok <==> step_scalar(*value, scalar_ref_value(scalar_ref)) is Some,
        r matches Ok(v) ==> step_scalar(*value, scalar_ref_value(scalar_ref)) == Some(*v),
//@ end

//@ lift air/src/execution_step/lambda_applier/utils.rs :: fn try_jvalue_as_idx
//@ props C24
//@ ret r
//@ spec
    ensures
        r is Ok <==> (*jvalue matches JValue::Number(n) && number_as_idx(n) is Some),
        r matches Ok(i) ==> (*jvalue matches JValue::Number(n) && number_as_idx(n) == Some(i)),
//@ end

//@ lift air/src/execution_step/lambda_applier/utils.rs :: fn try_scalar_ref_as_idx
//@ props C24
//@ ret r
//@ spec
    requires scalar_ref_wf(scalar)
    ensures
        r is Ok <==> (scalar_ref_value(scalar) matches JValue::Number(n) && number_as_idx(n) is Some),
        r matches Ok(i) ==> (scalar_ref_value(scalar) matches JValue::Number(n) && number_as_idx(n) == Some(i)),
//@ end


// ---------------------------------------------------------------- applier.rs
// Signature rewrite: `lambda: impl Iterator<Item = &ValueAccessor>` is instantiated at `core::slice::Iter<ValueAccessor>`,
// the type of the argument at all three call sites (`value_path.iter()` on a NonEmpty, `body.iter()` on a slice):
// vstd's for-loop support needs the iterator laws of a concrete iterator type.
// loop_isolation(false): the loop body must know that the ghost snapshot `value0` is the initial value of the
// `mut value` parameter (a by-value `mut` parameter cannot be named with `old(..)` in an invariant).
#[verifier::loop_isolation(false)]
//@ lift air/src/execution_step/lambda_applier/applier.rs :: fn select_by_path_from_scalar
//@ props C24
//@ ret r
//@ rewrite 1 "in lambda" => "in it: lambda"
//@ sig 1 "impl Iterator<Item = &'accessor ValueAccessor<'accessor>>" => "core::slice::Iter<'accessor, ValueAccessor<'accessor>>"
//@ spec
    requires
        lambda.obeys_prophetic_iter_laws(), lambda.decrease() is Some,      // true of every `.iter()`
        // "this variant is guaranteed not to be present in a lambda" (parser)
        forall|i: int| 0 <= i < lambda.remaining().len() ==> !(lambda.remaining()[i] is Error),
    ensures
        // the lens gives what plain JSON navigation gives, and fails exactly when navigation is impossible
        r is Ok <==> nav(&exec_ctx.scalars, *value, lambda.remaining()) is Some,
        r matches Ok(v) ==> nav(&exec_ctx.scalars, *value, lambda.remaining()) == Some(v),
        r matches Err(e) ==> is_catchable(e),
//@ before "for accessor in lambda"
    let ghost value0 = *value;
//@ loop 0
        invariant
            it.seq() == lambda.remaining(),
            0 <= it.index() <= it.seq().len(),
            forall|i: int| 0 <= i < it.seq().len() ==> !(it.seq()[i] is Error),
            nav(&exec_ctx.scalars, value0, it.seq()) == nav_from(&exec_ctx.scalars, *value, it.seq(), it.index()),
//@ before "match accessor {"
        assert(it.seq()[it.index()] == accessor);
//@ end


//@ lift crates/air-lib/lambda/ast/src/ast.rs :: enum Functor
//@ derive Clone Copy
//@ end

// `.length` on arrays only
//@ lift air/src/execution_step/lambda_applier/applier.rs :: fn select_by_functor_from_scalar
//@ props C24
//@ ret r
//@ spec
    ensures
        r is Ok <==> *value is Array,
        r matches Ok(v) ==> (*value matches JValue::Array(a) && v == jvalue_of_usize(arr_view(&a).len() as usize)),
//@ end


// ---------------------------------------------------------------- canon stream map keys (stream_map_key.rs)
// "On canonical streams and maps the first index selects an element or key group the same way": the key under which a
// value is INSERTED (from_kvpair_owned -> from_value) and the key LOOKED UP from a scalar (from_value_ref) must be the
// same function `key_of` of the JSON value, and a literal accessor must give the key `key_of` gives for the same JSON.
//@ lift air/src/execution_step/execution_context/stream_maps_variables/stream_map_key.rs :: enum StreamMapKey
//@ derive Clone
//@ end

// abstract value of a key (Rc<str> payloads compared by content)
pub enum KeyView { Str(Seq<char>), U64(u64), I64(i64) }
pub open spec fn key_view(k: StreamMapKey) -> KeyView {
    match k { StreamMapKey::Str(s) => KeyView::Str(s@), StreamMapKey::U64(n) => KeyView::U64(n), StreamMapKey::I64(n) => KeyView::I64(n) }
}
// from the property statement: JSON string => Str key; JSON integer => I64 if it fits i64, else U64; anything else => no key
pub open spec fn key_of(v: JValue) -> Option<StreamMapKey> {
    match v {
        JValue::String(s) => Some(StreamMapKey::Str(s)),
        JValue::Number(n) => match n.int_value() {
            Some(i) => if i64::MIN <= i <= i64::MAX { Some(StreamMapKey::I64(i as i64)) }
                       else if 0 <= i <= u64::MAX { Some(StreamMapKey::U64(i as u64)) } else { None },
            None => None,
        },
        _ => None,
    }
}

impl StreamMapKey {
//@ lift air/src/execution_step/execution_context/stream_maps_variables/stream_map_key.rs :: impl StreamMapKey :: fn from_value
//@ props C24
//@ ret r
//@ spec
        ensures r == key_of(value)
//@ end

//@ lift air/src/execution_step/execution_context/stream_maps_variables/stream_map_key.rs :: impl StreamMapKey :: fn from_value_ref
//@ props C24
//@ ret r
//@ spec
        ensures r == key_of(*value)
//@ end
}

impl From<i64> for StreamMapKey {
//@ lift air/src/execution_step/execution_context/stream_maps_variables/stream_map_key.rs :: impl From<i64> for StreamMapKey :: fn from
//@ props C24
//@ name StreamMapKey::from_i64
//@ no-canary
//@ end
}
impl vstd::std_specs::convert::FromSpecImpl<i64> for StreamMapKey {
    open spec fn obeys_from_spec() -> bool { true }
    open spec fn from_spec(value: i64) -> Self { StreamMapKey::I64(value) }
}
impl From<u64> for StreamMapKey {
//@ lift air/src/execution_step/execution_context/stream_maps_variables/stream_map_key.rs :: impl From<u64> for StreamMapKey :: fn from
//@ props C24
//@ name StreamMapKey::from_u64
//@ no-canary
//@ end
}
impl vstd::std_specs::convert::FromSpecImpl<u64> for StreamMapKey {
    open spec fn obeys_from_spec() -> bool { true }
    open spec fn from_spec(value: u64) -> Self { StreamMapKey::U64(value) }
}
// vstd specifies the widening u32 -> u64 but not u32 -> i64 (`value.into()` below): lossless widening, trusted
pub assume_specification [<i64 as From<u32>>::from] (v: u32) -> (r: i64) ensures r == v as i64;
// a literal numeric accessor `[42]` is the key I64(42) -- what key_of gives for the JSON number 42
impl From<u32> for StreamMapKey {
//@ lift air/src/execution_step/execution_context/stream_maps_variables/stream_map_key.rs :: impl From<u32> for StreamMapKey :: fn from
//@ props C24
//@ name StreamMapKey::from_u32
//@ no-canary
//@ end
}
impl vstd::std_specs::convert::FromSpecImpl<u32> for StreamMapKey {
    open spec fn obeys_from_spec() -> bool { true }
    open spec fn from_spec(value: u32) -> Self { StreamMapKey::I64(value as i64) }
}
impl From<JsonString> for StreamMapKey {
//@ lift air/src/execution_step/execution_context/stream_maps_variables/stream_map_key.rs :: impl From<JsonString> for StreamMapKey :: fn from
//@ props C24
//@ name StreamMapKey::from_json_string
//@ no-canary
//@ end
}
impl vstd::std_specs::convert::FromSpecImpl<JsonString> for StreamMapKey {
    open spec fn obeys_from_spec() -> bool { true }
    open spec fn from_spec(value: JsonString) -> Self { StreamMapKey::Str(value) }
}

// `From<&str> for StreamMapKey` (`Str(value.into())`) is not lifted: it needs `<Rc<str> as From<&str>>::from`, for which
// vstd has no spec and Verus rejects an assume_specification (early-bound impl lifetime mismatch). It is not on the
// lens path: the literal field accessor goes through `JsonString::from(..)` + `From<JsonString>` (lifted above).
//@ lift air/src/execution_step/lambda_applier/utils.rs :: fn try_scalar_ref_as_stream_map_key
//@ props C24
//@ ret r
//@ spec
    ensures
        // a key taken from a scalar is the key the same JSON value is inserted under
        scalar matches ScalarRef::Value(a) ==> (r is Ok <==> key_of(a.result) is Some),
        scalar matches ScalarRef::Value(a) ==> (r matches Ok(k) ==> key_of(a.result) == Some(k)),
        scalar matches ScalarRef::Value(a) ==> (r matches Err(e) ==> e is CanonStreamMapAccessorHasInvalidType),
        scalar is IterableValue ==> r matches Err(LambdaError::CanonStreamMapAccessorMustNotBeIterable),
//@ end


// ---------------------------------------------------------------- canon map entry point (applier.rs)
// shims (trusted): CanonStreamMap / CanonStream are opaque; `index` is `self.map.get(key)` on a HashMap keyed by the
// derived Eq/Hash of StreamMapKey, i.e. by `key_view`; NonEmpty (non_empty_vec 0.2); the stream continuation
// `select_by_path_from_canon_map_stream` and the tetraplet bookkeeping are stubs without contracts.
pub struct SecurityTetraplet { pub lens: String }
pub type RcSecurityTetraplet = Rc<SecurityTetraplet>;
impl ValueAggregate {
    #[verifier::external_body]
    pub fn get_tetraplet(&self) -> RcSecurityTetraplet { unimplemented!() }
}
#[verifier::external_body]
pub struct CanonStream { _opaque: () }
impl CanonStream {
    pub uninterp spec fn as_jvalue_spec(&self) -> JValue;
    pub uninterp spec fn empty_jvalue() -> JValue;      // CanonStream::new(vec![], _).as_jvalue()
    pub uninterp spec fn values_len(&self) -> nat;
    #[verifier::external_body]
    pub fn new(values: Vec<ValueAggregate>, tetraplet: Rc<SecurityTetraplet>) -> (r: Self)
        ensures r.values_len() == values@.len(), values@.len() == 0 ==> r.as_jvalue_spec() == Self::empty_jvalue()
    { unimplemented!() }
    #[verifier::external_body]
    pub fn as_jvalue(&self) -> (r: JValue) ensures r == self.as_jvalue_spec() { unimplemented!() }
    #[verifier::external_body]
    pub fn iter(&self) -> core::slice::Iter<'_, ValueAggregate> { unimplemented!() }
}
#[verifier::external_body]
pub struct CanonStreamMap { _opaque: () }
impl CanonStreamMap {
    pub uninterp spec fn index_spec(&self, k: KeyView) -> Option<&CanonStream>;
    #[verifier::external_body]
    pub fn index<'self_l>(&'self_l self, stream_map_key: &StreamMapKey) -> (r: Option<&'self_l CanonStream>)
        ensures r == self.index_spec(key_view(*stream_map_key))
    { unimplemented!() }
    #[verifier::external_body]
    pub fn tetraplet(&self) -> &Rc<SecurityTetraplet> { unimplemented!() }
}
pub struct EmptyError;
pub struct NonEmpty<T>(pub Vec<T>);
impl<T> NonEmpty<T> {
    pub open spec fn wf(&self) -> bool { self.0@.len() > 0 }
    // real: `(&self[0], &self[1..])`
    #[verifier::external_body]
    pub fn split_first(&self) -> (r: (&T, &[T]))
        requires self.wf()
        ensures *r.0 == self.0@[0], r.1@ == self.0@.subrange(1, self.0@.len() as int)
    { unimplemented!() }
}
impl<T> TryFrom<Vec<T>> for NonEmpty<T> {
    type Error = EmptyError;
    #[verifier::external_body]
    fn try_from(xs: Vec<T>) -> (r: Result<Self, EmptyError>) { unimplemented!() }
}
impl<T> vstd::std_specs::convert::TryFromSpecImpl<Vec<T>> for NonEmpty<T> {
    open spec fn obeys_try_from_spec() -> bool { true }
    open spec fn try_from_spec(xs: Vec<T>) -> Result<Self, EmptyError> { if xs@.len() == 0 { Err(EmptyError) } else { Ok(NonEmpty(xs)) } }
}
pub assume_specification<T: Clone> [<[T]>::to_vec] (s: &[T]) -> (r: Vec<T>) ensures r@.len() == s@.len();
pub enum LambdaAST<'input> { Functor(Functor), ValuePath(NonEmpty<ValueAccessor<'input>>) }
pub struct MapLensResult { pub result: JValue, pub tetraplet: RcSecurityTetraplet }
impl MapLensResult {
//@ lift air/src/execution_step/lambda_applier/applier.rs :: impl MapLensResult :: fn new
//@ props C24
//@ ret r
//@ spec
        ensures r.result == result, r.tetraplet == tetraplet
//@ end
}
#[verifier::external_body]
fn update_tetraplet_with_path<P>(original_tetraplet: &SecurityTetraplet, original_path: &P, prefix_with_path: bool) -> RcSecurityTetraplet
{ unimplemented!() }
#[verifier::external_body]
fn select_by_path_from_canon_map_stream<'value, I: Iterator<Item = (JValue, RcSecurityTetraplet)>>(
    stream: I, lambda: &NonEmpty<ValueAccessor<'_>>, exec_ctx: &ExecutionCtx<'_>,
) -> (r: ExecutionResult<MapLensResult>)
{ unimplemented!() }
// `JsonString::from(s).to_owned()`: an Rc<str> with the text of s (neither `Rc<str>: From<&str>` nor the blanket
// `ToOwned::to_owned` on Rc<str> can be given a usable spec, see above)
#[verifier::external_body]
pub fn json_string_from_str(s: &str) -> (r: JsonString) ensures r@ == s@ { unimplemented!() }

// the key a first accessor stands for: literal index / literal name / the JSON value of a (non-fold) scalar
pub open spec fn accessor_key(scalars: &Scalars, acc: &ValueAccessor<'_>) -> Option<KeyView> {
    match *acc {
        ValueAccessor::ArrayAccess { idx } => Some(KeyView::I64(idx as i64)),
        ValueAccessor::FieldAccessByName { field_name } => Some(KeyView::Str(field_name@)),
        ValueAccessor::FieldAccessByScalar { scalar_name } =>
            if scalars.is_fold_variable(scalar_name@) { None } else {
                match scalars.scalar_spec(scalar_name@) {
                    Some(v) => match key_of(v) { Some(k) => Some(key_view(k)), None => None },
                    None => None,
                }
            },
        ValueAccessor::Error => None,
    }
}

//@ lift air/src/execution_step/lambda_applier/applier.rs :: fn select_by_path_from_canon_map
//@ props C24
//@ ret r
//@ rewrite 1 "JsonString::from(*field_name).to_owned()" => "json_string_from_str(*field_name)"
//@ spec
    requires lambda.wf(), !(lambda.0@[0] is Error)
    ensures
        // no key (invalid scalar type, fold variable, unknown scalar) => error
        accessor_key(&exec_ctx.scalars, &lambda.0@[0]) is None ==> (r matches Err(e) && is_catchable(e)),
        // `csm.$.key`: the group stored under exactly that key, however the key was written
        accessor_key(&exec_ctx.scalars, &lambda.0@[0]) matches Some(k) ==> (lambda.0@.len() == 1 ==>
            (r matches Ok(m) && m.result == (match canon_map.index_spec(k) {
                Some(cs) => cs.as_jvalue_spec(), None => CanonStream::empty_jvalue() }))),
//@ end

// a literal key and the same key taken from a scalar are the same StreamMapKey
//@ lemma literal_and_scalar_keys_agree props C24
proof fn literal_and_scalar_keys_agree(idx: u32, n: serde_json::Number, name: Seq<char>, s: JsonString)
    ensures
        n.int_value() == Some(idx as int) ==> (key_of(JValue::Number(n)) matches Some(k)
            && key_view(k) == key_view(<StreamMapKey as vstd::std_specs::convert::FromSpec<u32>>::from_spec(idx))),
        s@ == name ==> (key_of(JValue::String(s)) matches Some(k) && key_view(k) == KeyView::Str(name)),
{}
//@ end

} // verus!
fn main() {}
