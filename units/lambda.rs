//@ unit lambda
// Lens application to a scalar (C24): air/src/execution_step/lambda_applier/utils.rs (one-step functions)
// and applier.rs (`select_by_path_from_scalar`, the loop over the path), against the recursive `nav` of the
// property statement.
//
// Trusted part of this file:
//  * JValue shim (air_interpreter_value::JValue): same six variants; the payloads of Array (`Rc<[JValue]>`) and
//    Object (`Rc<Map<JsonString, JValue>>`) are opaque types with uninterpreted views `arr_view` / `map_view`
//    (this breaks the type recursion Verus rejects); `get` on them has the obvious slice / BTreeMap contract.
//  * serde_json::Number: opaque, `as_u64` uninterpreted.
//  * scalars of the execution context: `Scalars::get_value` returns a reference that resolves to the
//    uninterpreted `scalar_spec(name)`; a fold variable handed out by it is never exhausted
//    (PEEK_ALLOWED_ON_NON_EMPTY, the `expect` in select_by_scalar).
//  * ExecutionError / CatchableError: the variants used here; `JValue::as_array`, `JArray::len`, `From<usize> for JValue`
//    (uninterpreted `jvalue_of_usize`) for the `.length` functor.
// Rewrites (all local): the closure of try_number_to_u32 gets its annotated form (R11); the closure inside the
//    lifted `lambda_to_execution_error!` is annotated (`ensures is_lambda_error(o)`) and wrapped in `verus_exec_expr!`
//    so that Verus syntax is legal inside a macro body; in select_by_path_from_scalar the loop iterator is named
//    (`in it: lambda`) and the `impl Iterator` parameter is instantiated at the call sites' `core::slice::Iter`.
use vstd::prelude::*;
use vstd::std_specs::iter::IteratorSpec;
verus! {

pub type Rc<T> = std::rc::Rc<T>;

// ---------------------------------------------------------------- shim: JValue (trusted)
pub mod serde_json {
    use vstd::prelude::*;
    #[verifier::external_body]
    pub struct Number { _opaque: () }
    impl Number {
        pub uninterp spec fn as_u64_spec(&self) -> Option<u64>;
        #[verifier::external_body]
        pub fn as_u64(&self) -> (r: Option<u64>) ensures r == self.as_u64_spec() { unimplemented!() }
    }
    impl Clone for Number {
        #[verifier::external_body]
        fn clone(&self) -> (r: Self) ensures r == *self { unimplemented!() }
    }
}
pub type JsonString = Rc<str>;
#[verifier::external_body]
pub struct JArray { _opaque: () }      // Rc<[JValue]>
#[verifier::external_body]
pub struct JObject { _opaque: () }     // Rc<Map<JsonString, JValue>>
pub enum JValue { Null, Bool(bool), Number(serde_json::Number), String(JsonString), Array(JArray), Object(JObject) }
impl Clone for JValue {
    #[verifier::external_body]
    fn clone(&self) -> (r: Self) ensures r == *self { unimplemented!() }
}
impl JValue {
    // real: `match self { JValue::Array(array) => Some(array), _ => None }` (as a slice)
    pub fn as_array(&self) -> (r: Option<&JArray>)
        ensures r == (match *self { JValue::Array(a) => Some(&a), _ => None::<&JArray> })
    { match self { JValue::Array(array) => Some(array), _ => None } }
}
// `From<usize> for JValue` (from_integer!: `JValue::Number(n.into())`)
pub uninterp spec fn jvalue_of_usize(n: usize) -> JValue;
impl From<usize> for JValue {
    #[verifier::external_body]
    fn from(n: usize) -> (r: JValue) { unimplemented!() }
}
impl vstd::std_specs::convert::FromSpecImpl<usize> for JValue {
    open spec fn obeys_from_spec() -> bool { true }
    open spec fn from_spec(n: usize) -> JValue { jvalue_of_usize(n) }
}
pub uninterp spec fn arr_view(a: &JArray) -> Seq<JValue>;
pub uninterp spec fn map_view(m: &JObject) -> Map<Seq<char>, JValue>;
impl JArray {
    #[verifier::external_body]
    pub fn len(&self) -> (r: usize) ensures r == arr_view(self).len() { unimplemented!() }
    // <[JValue]>::get
    #[verifier::external_body]
    pub fn get(&self, i: usize) -> (r: Option<&JValue>)
        ensures r == (if i < arr_view(self).len() { Some(&arr_view(self)[i as int]) } else { None::<&JValue> })
    { unimplemented!() }
}
impl JObject {
    // Map<JsonString, JValue>::get::<str>
    #[verifier::external_body]
    pub fn get(&self, k: &str) -> (r: Option<&JValue>)
        ensures r == (if map_view(self).dom().contains(k@) { Some(&map_view(self)[k@]) } else { None::<&JValue> })
    { unimplemented!() }
}

// ---------------------------------------------------------------- errors
//@ lift air/src/execution_step/lambda_applier/errors.rs :: enum LambdaError
//@ derive
//@ end
//@ lift air/src/execution_step/lambda_applier/mod.rs :: type LambdaResult
//@ end
pub enum CatchableError { LambdaApplierError(LambdaError), VariableNotFound(String), LengthFunctorAppliedToNotArray(JValue) }
pub enum ExecutionError { Catchable(Rc<CatchableError>), Uncatchable }
pub type ExecutionResult<T> = Result<T, ExecutionError>;
pub mod execution_step { pub use super::ExecutionError; pub use super::CatchableError; }
pub open spec fn is_lambda_error(e: ExecutionError) -> bool {
    e matches ExecutionError::Catchable(c) && *c is LambdaApplierError
}
pub open spec fn is_catchable(e: ExecutionError) -> bool { e is Catchable }

// ---------------------------------------------------------------- shim: scalars of the execution context (trusted)
pub struct ValueAggregate { pub result: JValue }
impl ValueAggregate {
    pub fn get_result(&self) -> (r: &JValue) ensures *r == self.result { &self.result }
}
pub struct IterableItem { pub resolved: ValueAggregate }
impl IterableItem {
    pub fn into_resolved_result(self) -> (r: ValueAggregate) ensures r == self.resolved { self.resolved }
}
#[verifier::external_body]
pub struct IterableValue { _opaque: () }     // Box<dyn Iterable<Item = IterableItem>>
impl IterableValue {
    pub uninterp spec fn peeked(&self) -> Option<IterableItem>;
    #[verifier::external_body]
    pub fn peek(&self) -> (r: Option<IterableItem>) ensures r == self.peeked() { unimplemented!() }
}
pub struct FoldState { pub iterable: IterableValue }
pub const PEEK_ALLOWED_ON_NON_EMPTY: &'static str = "peek always return elements inside fold";
pub enum ScalarRef<'i> { Value(&'i ValueAggregate), IterableValue(&'i FoldState) }
// a fold variable is visible only while its iterable is non-empty
pub open spec fn scalar_ref_wf(s: ScalarRef<'_>) -> bool {
    s matches ScalarRef::IterableValue(f) ==> f.iterable.peeked() is Some
}
// the JSON value a scalar reference resolves to
pub open spec fn scalar_ref_value(s: ScalarRef<'_>) -> JValue {
    match s {
        ScalarRef::Value(v) => v.result,
        ScalarRef::IterableValue(f) => f.iterable.peeked()->0.resolved.result,
    }
}
#[verifier::external_body]
pub struct Scalars { _opaque: () }
impl Scalars {
    pub uninterp spec fn scalar_spec(&self, name: Seq<char>) -> Option<JValue>;
    #[verifier::external_body]
    pub fn get_value<'s>(&'s self, name: &str) -> (r: ExecutionResult<ScalarRef<'s>>)
        ensures
            r is Ok <==> self.scalar_spec(name@) is Some,
            r matches Ok(s) ==> scalar_ref_wf(s) && Some(scalar_ref_value(s)) == self.scalar_spec(name@),
            r matches Err(e) ==> is_catchable(e),
    { unimplemented!() }
}
pub struct ExecutionCtx<'i> { pub scalars: Scalars, pub _p: core::marker::PhantomData<&'i ()> }

//@ lift crates/air-lib/lambda/ast/src/ast.rs :: enum ValueAccessor
//@ derive Clone Copy
//@ end

//@ lift air/src/execution_step/lambda_applier/mod.rs :: macro_rules lambda_to_execution_error
//@ rewrite 1 "$lambda_expr.map_err(|lambda_error| {" => "::vstd::prelude::verus_exec_expr!{ $lambda_expr.map_err(|lambda_error: LambdaError| -> (o: ExecutionError) ensures is_lambda_error(o) {"
//@ rewrite 1 "})\n    };" => "}) }\n    };"
//@ end

// ---------------------------------------------------------------- the spec: plain JSON navigation
pub open spec fn step_idx(v: JValue, i: u32) -> Option<JValue> {
    match v { JValue::Array(a) => if (i as int) < arr_view(&a).len() { Some(arr_view(&a)[i as int]) } else { None }, _ => None }
}
pub open spec fn step_field(v: JValue, k: Seq<char>) -> Option<JValue> {
    match v { JValue::Object(m) => if map_view(&m).dom().contains(k) { Some(map_view(&m)[k]) } else { None }, _ => None }
}
// a JSON number used as an index: it must fit u32
pub open spec fn number_as_idx(n: serde_json::Number) -> Option<u32> {
    match n.as_u64_spec() { Some(v) => if v <= u32::MAX { Some(v as u32) } else { None }, None => None }
}
// an accessor taken from a scalar resolves to Idx / Field by the JSON type of the scalar
pub open spec fn step_scalar(v: JValue, accessor: JValue) -> Option<JValue> {
    match accessor {
        JValue::String(k) => step_field(v, k@),
        JValue::Number(n) => match number_as_idx(n) { Some(i) => step_idx(v, i), None => None },
        _ => None,
    }
}
pub open spec fn step(scalars: &Scalars, v: JValue, acc: &ValueAccessor<'_>) -> Option<JValue> {
    match *acc {
        ValueAccessor::ArrayAccess { idx } => step_idx(v, idx),
        ValueAccessor::FieldAccessByName { field_name } => step_field(v, field_name@),
        ValueAccessor::FieldAccessByScalar { scalar_name } => match scalars.scalar_spec(scalar_name@) {
            Some(s) => step_scalar(v, s),
            None => None,
        },
        ValueAccessor::Error => None,
    }
}
// nav(v, path): navigation along the whole path; nav_from(v, path, i) is nav on the suffix path[i..]
//   nav(v, [])       = Some(v)
//   nav(v, a :: p)   = match step(v, a) { Some(v2) => nav(v2, p), None => None }
pub open spec fn nav_from(scalars: &Scalars, v: JValue, path: Seq<&ValueAccessor<'_>>, i: int) -> Option<JValue>
    decreases path.len() - i
{
    if i < 0 || i >= path.len() { Some(v) } else {
        match step(scalars, v, path[i]) { Some(v2) => nav_from(scalars, v2, path, i + 1), None => None }
    }
}
pub open spec fn nav(scalars: &Scalars, v: JValue, path: Seq<&ValueAccessor<'_>>) -> Option<JValue> {
    nav_from(scalars, v, path, 0)
}

// ---------------------------------------------------------------- utils.rs
//@ lift air/src/execution_step/lambda_applier/utils.rs :: fn try_jvalue_with_idx
//@ props C24
//@ ret r
//@ spec
    ensures
        r is Ok <==> step_idx(*jvalue, idx) is Some,
        r matches Ok(v) ==> step_idx(*jvalue, idx) == Some(*v),
//@ end

//@ lift air/src/execution_step/lambda_applier/utils.rs :: fn try_jvalue_with_field_name
//@ props C24
//@ ret r
//@ spec
    ensures
        r is Ok <==> step_field(*jvalue, field_name@) is Some,
        r matches Ok(v) ==> step_field(*jvalue, field_name@) == Some(*v),
//@ end

//@ lift air/src/execution_step/lambda_applier/utils.rs :: fn try_number_to_u32
//@ props C24
//@ ret r
//@ rewrite 1 "|v| u32::try_from(v).ok()" => "|v: u64| -> (o: Option<u32>) ensures o == (if v <= u32::MAX { Some(v as u32) } else { None::<u32> }) { u32::try_from(v).ok() }"
//@ spec
    ensures
        r is Ok <==> number_as_idx(*accessor) is Some,
        r matches Ok(i) ==> number_as_idx(*accessor) == Some(i),
//@ end

//@ lift air/src/execution_step/lambda_applier/utils.rs :: fn select_by_jvalue
//@ props C24
//@ ret r
//@ spec
    ensures
        r is Ok <==> step_scalar(*value, *accessor) is Some,
        r matches Ok(v) ==> step_scalar(*value, *accessor) == Some(*v),
//@ end

//@ lift air/src/execution_step/lambda_applier/utils.rs :: fn select_by_scalar
//@ props C24
//@ ret r
//@ spec
    requires scalar_ref_wf(scalar_ref)
    ensures
        r is Ok <==> step_scalar(*value, scalar_ref_value(scalar_ref)) is Some,
        r matches Ok(v) ==> step_scalar(*value, scalar_ref_value(scalar_ref)) == Some(*v),
//@ end

//@ lift air/src/execution_step/lambda_applier/utils.rs :: fn try_jvalue_as_idx
//@ props C24
//@ ret r
//@ spec
    ensures
        r is Ok <==> (*jvalue matches JValue::Number(n) && number_as_idx(n) is Some),
        r matches Ok(i) ==> (*jvalue matches JValue::Number(n) && number_as_idx(n) == Some(i)),
//@ end

//@ lift air/src/execution_step/lambda_applier/utils.rs :: fn try_scalar_ref_as_idx
//@ props C24
//@ ret r
//@ spec
    requires scalar_ref_wf(scalar)
    ensures
        r is Ok <==> (scalar_ref_value(scalar) matches JValue::Number(n) && number_as_idx(n) is Some),
        r matches Ok(i) ==> (scalar_ref_value(scalar) matches JValue::Number(n) && number_as_idx(n) == Some(i)),
//@ end


// ---------------------------------------------------------------- applier.rs
// Signature rewrite: `lambda: impl Iterator<Item = &ValueAccessor>` is instantiated at `core::slice::Iter<ValueAccessor>`,
// the type of the argument at all three call sites (`value_path.iter()` on a NonEmpty, `body.iter()` on a slice):
// vstd's for-loop support needs the iterator laws of a concrete iterator type.
// loop_isolation(false): the loop body must know that the ghost snapshot `value0` is the initial value of the
// `mut value` parameter (a by-value `mut` parameter cannot be named with `old(..)` in an invariant).
#[verifier::loop_isolation(false)]
//@ lift air/src/execution_step/lambda_applier/applier.rs :: fn select_by_path_from_scalar
//@ props C24
//@ ret r
//@ rewrite 1 "in lambda" => "in it: lambda"
//@ sig 1 "impl Iterator<Item = &'accessor ValueAccessor<'accessor>>" => "core::slice::Iter<'accessor, ValueAccessor<'accessor>>"
//@ spec
    requires
        lambda.obeys_prophetic_iter_laws(), lambda.decrease() is Some,      // true of every `.iter()`
        // "this variant is guaranteed not to be present in a lambda" (parser)
        forall|i: int| 0 <= i < lambda.remaining().len() ==> !(lambda.remaining()[i] is Error),
    ensures
        // the lens gives what plain JSON navigation gives, and fails exactly when navigation is impossible
        r is Ok <==> nav(&exec_ctx.scalars, *value, lambda.remaining()) is Some,
        r matches Ok(v) ==> nav(&exec_ctx.scalars, *value, lambda.remaining()) == Some(v),
        r matches Err(e) ==> is_catchable(e),
//@ before "for accessor in lambda"
    let ghost value0 = *value;
//@ loop 0
        invariant
            it.seq() == lambda.remaining(),
            0 <= it.index() <= it.seq().len(),
            forall|i: int| 0 <= i < it.seq().len() ==> !(it.seq()[i] is Error),
            nav(&exec_ctx.scalars, value0, it.seq()) == nav_from(&exec_ctx.scalars, *value, it.seq(), it.index()),
//@ before "match accessor {"
        assert(it.seq()[it.index()] == accessor);
//@ end


//@ lift crates/air-lib/lambda/ast/src/ast.rs :: enum Functor
//@ derive Clone Copy
//@ end

// `.length` on arrays only
//@ lift air/src/execution_step/lambda_applier/applier.rs :: fn select_by_functor_from_scalar
//@ props C24
//@ ret r
//@ spec
    ensures
        r is Ok <==> *value is Array,
        r matches Ok(v) ==> (*value matches JValue::Array(a) && v == jvalue_of_usize(arr_view(&a).len() as usize)),
//@ end

} // verus!
fn main() {}
