#![feature(allocator_api)]
//@ unit cid_record_canon
// C03, signature clause, producer side, CANON states: every `Canon(Executed(cid))` state handed to the trace is registered for signing.
//   air/src/execution_step/instructions/canon_utils/mod.rs  populate_seen_cid_context, populate_unseen_cid_context (the two
//                                                           `record_canon_cid` sites), create_canon_stream_for_first_time,
//                                                           handle_canon_executed, handle_canon_request_sent_by, handle_unseen_canon,
//                                                           handle_seen_canon
//   air/src/execution_step/instructions/canon.rs            Canon::execute
//   air/src/execution_step/execution_context/context.rs     record_canon_cid
// The verifier (interpreter_data/verification.rs) counts, for every `Canon(Executed(cid))`, the cid for the peer_pk of
// `tetraplet_store[canon_result_store[cid].tetraplet]`. Contract (R), canon form:
//   every canon state with a CID given to `meet_canon_end` was registered (`record_canon_cid(p, cid)`) exactly once, with
//   p = peer_pk of the tetraplet stored under the canon aggregate; a `RequestSentBy` mark registers nothing; nothing else is registered.
// Here the registration precedes the epilog (which binds the canon stream and pushes the state), and the epilog can fail. Its only
// failures are UNCATCHABLE (`set_canon_value` -> ShadowingIsNotAllowed); an uncatchable error ends the run with the PREVIOUS data
// (C02, unit runner), so no data carries the orphan registration. (R) is therefore claimed on every outcome except an uncatchable error.
//
// Ghost logs: `PeerCidTracker.recorded` (one entry (peer, cid) per `register` call), `TraceHandler.pushed_canon` (states given to
// `meet_canon_end`). The two CID trackers the code touches directly are ghost maps id -> stored item.
//
// Trusted part of this file:
//  * the two closure types of canon_utils (`dyn Fn`): opaque structs with an `external_body` method `call` (3 declared rewrites
//    `f(args)` -> `f.call(args)`, as unit canon). `CanonEpilogClosure::call` = canon.rs `epilog_closure` body
//    (`set_canon_value(..)?; meet_canon_end(CanonResult::executed(cid)); Ok(())`): Ok => exactly that state is pushed; Err => nothing is
//    pushed AND THE ERROR IS UNCATCHABLE; it never registers and never touches the CID store. The epilogs of canon_map.rs and
//    canon_stream_map_scalar.rs have the same shape (every `?` before `meet_canon_end` yields an UncatchableError) but are not lifted.
//    `CreateCanonStreamClosure::call`: reads the stream table; registers nothing, CID store untouched;
//  * CidTracker::track_value `Ok(c) ==> map' == map.insert(c.id, value)` (unit cid_store: `tracked_as`; a CID identifies its content),
//    ExecutionCidState::{get_canon_result_by_cid, get_tetraplet_by_cid} = lookups in those maps (unit cid_state);
//  * the two iterator chains (`.iter().map(|v| cid_state.track_canon_value(v)).collect()` in populate_unseen_cid_context and the
//    `get_canon_value_by_cid` one in handle_canon_executed) are rewritten to helpers that touch only the canon ELEMENT / value trackers
//    (not the two maps above, not the peer tracker);
//  * PeerCidTracker::register appends to the ghost log (real effect: unit cid_record_sign); resolve_peer_id_to_string (read-only);
//    TraceHandler::{meet_canon_start, meet_canon_end}; SecurityTetraplet::new; `&str == String`; `From<T> for T`; `Rc::clone`;
//  * verify_canon: contract imported mechanically from unit call_verifier.
use vstd::prelude::*;

//@ lift air/src/execution_step/errors/execution_errors.rs :: macro_rules trace_to_exec_err
//@ end

//@ lift air/src/execution_step/instructions/mod.rs :: macro_rules joinable
//@ end

verus! {

use std::rc::Rc;
use core::marker::PhantomData;

pub mod ax {
    use vstd::prelude::*;
    use vstd::std_specs::cmp::PartialEqSpec;
    #[verifier::external_body]
    pub broadcast proof fn axiom_str_eq_string_obeys()
        ensures #[trigger] <&str as PartialEqSpec<String>>::obeys_eq_spec() {}
    #[verifier::external_body]
    pub broadcast proof fn axiom_str_eq_string(a: &str, b: &String)
        ensures #[trigger] <&str as PartialEqSpec<String>>::eq_spec(&a, b) == (a@ == b@) {}
}
broadcast use {ax::axiom_str_eq_string_obeys, ax::axiom_str_eq_string};
pub assume_specification<T>[ <T as core::convert::From<T>>::from ](t: T) -> (r: T) ensures r == t;
pub assume_specification<T: ?Sized, A: std::alloc::Allocator + Clone>[ <std::rc::Rc<T, A> as Clone>::clone ](a: &std::rc::Rc<T, A>) -> (r: std::rc::Rc<T, A>)
    ensures r == *a;

// ---------------------------------------------------------------- shim: opaque data (trusted)
pub struct CID<T> { pub id: u64, pub ph: PhantomData<T> }
impl<T> Clone for CID<T> { fn clone(&self) -> (r: Self) ensures r == *self { CID { id: self.id, ph: PhantomData } } }
#[derive(Clone, Copy)]
pub struct AirPos(pub usize);
pub struct ValueAggregate { pub x: u64 }
pub struct JValue { pub x: u8 }
pub struct CanonCidAggregate { pub x: u8 }
pub struct SecurityTetraplet { pub peer_pk: String, pub service_id: String, pub function_name: String, pub lens: String }
pub type RcSecurityTetraplet = Rc<SecurityTetraplet>;
impl SecurityTetraplet {
    #[verifier::external_body]
    pub fn new(peer_pk: String, service_id: &str, function_name: &str, lens: &str) -> (r: Self)
        ensures r.peer_pk@ == peer_pk@, r.service_id@ == service_id@, r.function_name@ == function_name@, r.lens@ == lens@
    { unimplemented!() }
}

//@ lift crates/air-lib/interpreter-data/src/executed_state.rs :: struct CanonResultCidAggregate
//@ derive
//@ end
impl CanonResultCidAggregate {
//@ lift crates/air-lib/interpreter-data/src/executed_state/impls.rs :: impl CanonResultCidAggregate :: fn new
//@ name CanonResultCidAggregate::new
//@ props C03
//@ ret r
//@ spec
        ensures r.tetraplet == tetraplet, r.values == values
//@ end
}
//@ lift crates/air-lib/interpreter-data/src/executed_state.rs :: enum CanonResult
//@ derive Clone
//@ end
impl CanonResult {
//@ lift crates/air-lib/interpreter-data/src/executed_state/impls.rs :: impl CanonResult :: fn executed
//@ name CanonResult::executed
//@ props C03
//@ ret r
//@ spec
        ensures r == CanonResult::Executed(cid)
//@ end
//@ lift crates/air-lib/interpreter-data/src/executed_state/impls.rs :: impl CanonResult :: fn request_sent_by
//@ name CanonResult::request_sent_by
//@ props C03
//@ ret r
//@ spec
        ensures r == CanonResult::RequestSentBy(peer_id)
//@ end
}
//@ lift crates/air-lib/trace-handler/src/merger/canon_merger.rs :: enum MergerCanonResult
//@ derive
//@ end

//@ lift air/src/execution_step/value_types/canon_stream.rs :: struct CanonStream
//@ pub-fields
//@ derive
//@ end
impl CanonStream {
//@ lift air/src/execution_step/value_types/canon_stream.rs :: impl CanonStream :: fn new
//@ name CanonStream::new
//@ props C03
//@ ret r
//@ spec
        ensures r == (CanonStream { values, tetraplet })
//@ end
//@ lift air/src/execution_step/value_types/canon_stream.rs :: impl CanonStream :: fn tetraplet
//@ name CanonStream::tetraplet
//@ props C03
//@ ret r
//@ spec
        ensures *r == self.tetraplet
//@ end
}

// ---------------------------------------------------------------- errors
pub struct LambdaError { pub x: u8 }
pub struct ErrorObjectError { pub x: u8 }
pub struct StreamMapError { pub x: u8 }
pub struct TraceHandlerError { pub x: u8 }
pub struct CidCalculationError { pub x: u8 }
pub type TraceHandlerResult<T> = Result<T, TraceHandlerError>;
pub enum UncatchableError {
    TraceError { trace_error: TraceHandlerError, instruction: String },
    InstructionParametersMismatch { param: &'static str, expected_value: String, stored_value: String },
    Other(u8),
}
impl From<CidCalculationError> for UncatchableError { fn from(e: CidCalculationError) -> Self { UncatchableError::Other(1) } }
impl vstd::std_specs::convert::FromSpecImpl<CidCalculationError> for UncatchableError {
    open spec fn obeys_from_spec() -> bool { true }
    open spec fn from_spec(e: CidCalculationError) -> UncatchableError { UncatchableError::Other(1) }
}
//@ lift air/src/execution_step/errors/catchable_errors.rs :: enum CatchableError
//@ derive
//@ end
//@ lift air/src/execution_step/errors/execution_errors.rs :: enum ExecutionError
//@ derive
//@ end
pub type ExecutionResult<T> = Result<T, ExecutionError>;
pub mod execution_step { pub use super::{ExecutionError, UncatchableError, Joinable}; }
//@ lift air/src/execution_step/errors/joinable.rs :: trait Joinable
//@ end
impl From<UncatchableError> for ExecutionError { fn from(e: UncatchableError) -> Self { ExecutionError::Uncatchable(e) } }
impl vstd::std_specs::convert::FromSpecImpl<UncatchableError> for ExecutionError {
    open spec fn obeys_from_spec() -> bool { true }
    open spec fn from_spec(e: UncatchableError) -> ExecutionError { ExecutionError::Uncatchable(e) }
}
pub open spec fn waiting(e: CatchableError) -> bool { e is VariableNotFound }
pub open spec fn joinable_err(e: ExecutionError) -> bool {
    match e { ExecutionError::Catchable(c) => waiting(*c), ExecutionError::Uncatchable(_) => false }
}
impl ExecutionError {
    // real: errors/execution_errors.rs `impl Joinable for ExecutionError` (proved in unit resolved_call)
    #[verifier::external_body]
    pub fn is_joinable(&self) -> (r: bool) ensures r == joinable_err(*self) { unimplemented!() }
}
// the run ends with the previous data: no new data, nothing to sign (C02)
pub open spec fn uncatchable<T>(r: ExecutionResult<T>) -> bool { r matches Err(ExecutionError::Uncatchable(_)) }

// ---------------------------------------------------------------- shim: the context's sub-objects (trusted)
pub struct Scalars<'i> { pub opaque_payload: u64, pub ph: PhantomData<&'i u8> }
pub struct Streams { pub x: u8 }
pub struct StreamMaps { pub x: u8 }
pub struct LastErrorDescriptor { pub x: u8 }
pub struct ErrorDescriptor { pub x: u8 }
pub struct InstructionTracker { pub x: u8 }
pub struct SignatureStore { pub x: u8 }
pub struct CallResults { pub x: u8 }
pub struct CallRequests { pub x: u8 }
pub struct PeerCidTracker { pub recorded: Ghost<Seq<(Seq<char>, u64)>>, pub x: u8 }
impl PeerCidTracker {
    // real effect (kept iff peer == current_peer_id): unit cid_record_sign
    #[verifier::external_body]
    pub fn register<T>(&mut self, peer: &str, cid: &CID<T>)
        ensures final(self).recorded@ == old(self).recorded@.push((peer@, cid.id))
    { unimplemented!() }
}
// the two trackers canon_utils touches directly: ghost map CID id -> stored item
pub struct TetTracker { pub m: Ghost<Map<u64, RcSecurityTetraplet>>, pub x: u8 }
impl TetTracker {
    // real: CidTracker<SecurityTetraplet>::track_value(value: impl Into<Rc<Val>>) (unit cid_store)
    #[verifier::external_body]
    pub fn track_value(&mut self, value: RcSecurityTetraplet) -> (r: Result<CID<SecurityTetraplet>, CidCalculationError>)
        ensures r matches Ok(c) ==> final(self).m@ == old(self).m@.insert(c.id, value),
            r is Err ==> final(self).m@ == old(self).m@,
    { unimplemented!() }
}
pub struct CanonResTracker { pub m: Ghost<Map<u64, Rc<CanonResultCidAggregate>>>, pub x: u8 }
impl CanonResTracker {
    // real: CidTracker<CanonResultCidAggregate>::track_value(value: impl Into<Rc<Val>>) (unit cid_store)
    #[verifier::external_body]
    pub fn track_value(&mut self, value: CanonResultCidAggregate) -> (r: Result<CID<CanonResultCidAggregate>, CidCalculationError>)
        ensures r matches Ok(c) ==> final(self).m@ == old(self).m@.insert(c.id, Rc::new(value)),
            r is Err ==> final(self).m@ == old(self).m@,
    { unimplemented!() }
}
pub struct ExecutionCidState { pub tetraplet_tracker: TetTracker, pub canon_result_tracker: CanonResTracker, pub x: u8 }
impl ExecutionCidState {
    // real (unit cid_state): `Ok <==> present`, `Ok(v) ==> v == the stored item`
    #[verifier::external_body]
    pub fn get_canon_result_by_cid(&self, cid: &CID<CanonResultCidAggregate>) -> (r: Result<Rc<CanonResultCidAggregate>, UncatchableError>)
        ensures r is Ok <==> self.canon_result_tracker.m@.contains_key(cid.id),
            r matches Ok(v) ==> v == self.canon_result_tracker.m@[cid.id],
    { unimplemented!() }
    #[verifier::external_body]
    pub fn get_tetraplet_by_cid(&self, cid: &CID<SecurityTetraplet>) -> (r: Result<RcSecurityTetraplet, UncatchableError>)
        ensures r is Ok <==> self.tetraplet_tracker.m@.contains_key(cid.id),
            r matches Ok(v) ==> v == self.tetraplet_tracker.m@[cid.id],
    { unimplemented!() }
}
// the peer whose signature must cover a canon cid: `tetraplet_store[canon_result_store[cid].tetraplet].peer_pk` -- what
// collect_peers_cids_from_trace reads
pub open spec fn canon_peer(st: ExecutionCidState, cid: CID<CanonResultCidAggregate>) -> Seq<char> {
    st.tetraplet_tracker.m@[st.canon_result_tracker.m@[cid.id].tetraplet.id].peer_pk@
}

//@ lift air/src/execution_step/execution_context/context.rs :: struct RcRunParameters
//@ derive
//@ end

//@ lift air/src/execution_step/execution_context/context.rs :: struct ExecutionCtx
//@ end

impl<'i> ExecutionCtx<'i> {
    pub closed spec fn recorded(&self) -> Seq<(Seq<char>, u64)> { self.peer_cid_tracker.recorded@ }
    pub closed spec fn cid(&self) -> ExecutionCidState { self.cid_state }

//@ lift air/src/execution_step/execution_context/context.rs :: impl <'i> ExecutionCtx<'i> :: fn record_canon_cid
//@ name ExecutionCtx::record_canon_cid
//@ props C03
//@ spec
        ensures final(self).recorded() == old(self).recorded().push((peer_id@, cid.id)), final(self).cid() == old(self).cid(),
//@ end
}
impl ExecutionCtx<'_> {
//@ lift air/src/execution_step/execution_context/context.rs :: impl ExecutionCtx<'_> :: fn make_subgraph_incomplete
//@ name ExecutionCtx::make_subgraph_incomplete
//@ props C03
//@ spec
        ensures final(self).recorded() == old(self).recorded(), final(self).cid() == old(self).cid(),
//@ end
}

// ---------------------------------------------------------------- shim: trace handler (trusted)
pub struct TraceHandler { pub pushed_canon: Ghost<Seq<CanonResult>>, pub x: u8 }
impl TraceHandler {
    #[verifier::external_body]
    pub fn meet_canon_start(&mut self) -> (r: TraceHandlerResult<MergerCanonResult>)
        ensures final(self).pushed_canon@ == old(self).pushed_canon@
    { unimplemented!() }
    // real: self.data_keeper.result_trace.push(ExecutedState::Canon(canon_result))
    #[verifier::external_body]
    pub fn meet_canon_end(&mut self, canon_result: CanonResult)
        ensures final(self).pushed_canon@ == old(self).pushed_canon@.push(canon_result)
    { unimplemented!() }
}

// ---------------------------------------------------------------- shim: AST, peer resolution
pub mod ast {
    use super::*;
//@ lift crates/air-lib/air-parser/src/ast/values.rs :: struct Stream
//@ derive
//@ end
//@ lift crates/air-lib/air-parser/src/ast/values.rs :: struct CanonStream
//@ derive
//@ end
    pub struct ResolvableToPeerIdVariable<'i> { pub opaque_payload: u64, pub ph: PhantomData<&'i u8> }
//@ lift crates/air-lib/air-parser/src/ast/instructions.rs :: struct Canon
//@ derive
//@ end
    impl<'i> Canon<'i> {
        #[verifier::external_body]
        pub fn to_string(&self) -> String { unimplemented!() }
    }
}
use ast::ResolvableToPeerIdVariable;
#[verifier::external_body]
pub fn resolve_peer_id_to_string<'i>(peer_id: &ResolvableToPeerIdVariable<'_>, exec_ctx: &ExecutionCtx<'i>) -> ExecutionResult<String>
{ unimplemented!() }

// ---------------------------------------------------------------- shim: the two closures of canon_utils (trusted; `dyn Fn`)
pub struct CreateCanonStreamClosure<'c> { pub ph: PhantomData<&'c u8>, pub x: u8 }
impl<'c> CreateCanonStreamClosure<'c> {
    // real (canon.rs create_canon_stream_producer): reads the stream, `CanonStream::from_values(values, peer_pk)`
    #[verifier::external_body]
    pub fn call(&self, exec_ctx: &mut ExecutionCtx<'_>, peer_pk: String) -> (r: CanonStream)
        ensures r.tetraplet.peer_pk@ == peer_pk@,
            final(exec_ctx).recorded() == old(exec_ctx).recorded(), final(exec_ctx).cid() == old(exec_ctx).cid(),
    { unimplemented!() }
}
pub struct CanonEpilogClosure<'c> { pub ph: PhantomData<&'c u8>, pub x: u8 }
impl<'c> CanonEpilogClosure<'c> {
    // real (canon.rs epilog_closure): `exec_ctx.scalars.set_canon_value(name, CanonStreamWithProvenance::new(stream, cid.clone()))?;
    //                                  trace_ctx.meet_canon_end(CanonResult::executed(cid)); Ok(())`
    // `set_canon_value` -> ValuesSparseMatrix::set_value: its only error is UncatchableError::ShadowingIsNotAllowed
    #[verifier::external_body]
    pub fn call(&self, canon_stream: CanonStream, canon_result_cid: CID<CanonResultCidAggregate>, exec_ctx: &mut ExecutionCtx<'_>,
                trace_ctx: &mut TraceHandler) -> (r: ExecutionResult<()>)
        ensures
            final(exec_ctx).recorded() == old(exec_ctx).recorded(), final(exec_ctx).cid() == old(exec_ctx).cid(),
            r is Ok ==> final(trace_ctx).pushed_canon@ == old(trace_ctx).pushed_canon@.push(CanonResult::Executed(canon_result_cid)),
            r is Err ==> uncatchable(r) && final(trace_ctx).pushed_canon@ == old(trace_ctx).pushed_canon@,
    { unimplemented!() }
}
#[verifier::external_body]
pub fn epilog_closure(canon_stream_name: &str) -> Box<CanonEpilogClosure<'_>> { unimplemented!() }
#[verifier::external_body]
pub fn create_canon_stream_producer<'closure, 'name: 'closure>(stream_name: &'name str, position: AirPos) -> Box<CreateCanonStreamClosure<'closure>>
{ unimplemented!() }

// real: `canon_stream.iter().map(|canon_value| exec_ctx.cid_state.track_canon_value(canon_value)).collect::<Result<_, _>>()?`
// (track_canon_value touches the value / tetraplet-of-element / canon ELEMENT trackers; see the header)
#[verifier::external_body]
pub fn track_canon_values(exec_ctx: &mut ExecutionCtx<'_>, canon_stream: &CanonStream) -> (r: ExecutionResult<Vec<CID<CanonCidAggregate>>>)
    ensures final(exec_ctx).recorded() == old(exec_ctx).recorded(),
        final(exec_ctx).cid().canon_result_tracker == old(exec_ctx).cid().canon_result_tracker,
        // a canon element's tetraplet may be tracked too: the tetraplet map only grows, by items that are their own key's content
        forall|k: u64| old(exec_ctx).cid().tetraplet_tracker.m@.contains_key(k) ==>
            #[trigger] final(exec_ctx).cid().tetraplet_tracker.m@.contains_key(k)
            && final(exec_ctx).cid().tetraplet_tracker.m@[k] == old(exec_ctx).cid().tetraplet_tracker.m@[k],
{ unimplemented!() }
// real: `value_cids.iter().map(|c| exec_ctx.cid_state.get_canon_value_by_cid(c)).collect::<Result<Vec<_>, _>>()` (read-only)
#[verifier::external_body]
pub fn collect_canon_values(value_cids: &Vec<CID<CanonCidAggregate>>, exec_ctx: &ExecutionCtx<'_>) -> Result<Vec<ValueAggregate>, UncatchableError>
{ unimplemented!() }

//@ import-spec call_verifier :: tet_eq
//@ stub call_verifier :: verify_canon

// ================================================================ contract (R), canon form, from the property statement
pub open spec fn canon_cid_of(c: CanonResult) -> Option<CID<CanonResultCidAggregate>> {
    match c { CanonResult::Executed(cid) => Some(cid), CanonResult::RequestSentBy(_) => None }
}
pub open spec fn owed(rec0: Seq<(Seq<char>, u64)>, c: CanonResult, st: ExecutionCidState) -> Seq<(Seq<char>, u64)> {
    match canon_cid_of(c) {
        Some(cid) => rec0.push((canon_peer(st, cid), cid.id)),
        None => rec0,
    }
}
// at most one state was handed to the trace; the registrations made are exactly the ones owed for it -- none if none was
pub open spec fn rec_exact(c0: ExecutionCtx, c1: ExecutionCtx, p0: Seq<CanonResult>, p1: Seq<CanonResult>) -> bool {
    if p1 == p0 { c1.recorded() == c0.recorded() } else {
        &&& p1.len() == p0.len() + 1
        &&& p1.drop_last() =~= p0
        &&& c1.recorded() == owed(c0.recorded(), p1.last(), c1.cid())
    }
}
// (R) on every outcome that can return new data (Ok, catchable error)
pub open spec fn rec_ok<T>(c0: ExecutionCtx, c1: ExecutionCtx, p0: Seq<CanonResult>, p1: Seq<CanonResult>, r: ExecutionResult<T>) -> bool {
    !uncatchable(r) ==> rec_exact(c0, c1, p0, p1)
}

// ================================================================ canon_utils/mod.rs
//@ lift air/src/execution_step/instructions/canon_utils/mod.rs :: fn populate_seen_cid_context
//@ props C03
//@ spec
    ensures final(exec_ctx).recorded() == old(exec_ctx).recorded().push((peer_id@, canon_result_cid.id)), final(exec_ctx).cid() == old(exec_ctx).cid(),
//@ end

//@ lift air/src/execution_step/instructions/canon_utils/mod.rs :: fn populate_unseen_cid_context
//@ props C03
//@ ret r
//@ rewrite 1 "canon_stream\n        .iter()\n        .map(|canon_value| exec_ctx.cid_state.track_canon_value(canon_value))\n        .collect::<Result<_, _>>()?" => "track_canon_values(exec_ctx, canon_stream)?"
//@ spec
    ensures
        // the new canon result is registered once, for the peer of the tetraplet it is stored under = the canon stream's own
        r matches Ok(cid) ==> final(exec_ctx).recorded() == old(exec_ctx).recorded().push((canon_peer(final(exec_ctx).cid(), cid), cid.id))
            && canon_peer(final(exec_ctx).cid(), cid) == canon_stream.tetraplet.peer_pk@,
        // no CID => no registration
        r is Err ==> final(exec_ctx).recorded() == old(exec_ctx).recorded(),
//@ end

//@ lift air/src/execution_step/instructions/canon_utils/mod.rs :: fn create_canon_stream_for_first_time
//@ props C03
//@ ret r
//@ rewrite 1 "create_canon_stream(exec_ctx, peer_id)" => "create_canon_stream.call(exec_ctx, peer_id)"
//@ rewrite 1 "epilog(canon_stream, canon_result_cid, exec_ctx, trace_ctx)" => "epilog.call(canon_stream, canon_result_cid, exec_ctx, trace_ctx)"
//@ spec
    ensures rec_ok(*old(exec_ctx), *final(exec_ctx), old(trace_ctx).pushed_canon@, final(trace_ctx).pushed_canon@, r),
        // the new result is stored (hence signed) under the peer that canonicalized
        final(trace_ctx).pushed_canon@ != old(trace_ctx).pushed_canon@ ==>
            (canon_cid_of(final(trace_ctx).pushed_canon@.last()) matches Some(cid) && canon_peer(final(exec_ctx).cid(), cid) == peer_id@),
//@ end

//@ lift air/src/execution_step/instructions/canon_utils/mod.rs :: fn handle_unseen_canon
//@ props C03
//@ ret r
//@ rewrite 1 "use crate::joinable;" => ""
//@ spec
    ensures rec_ok(*old(exec_ctx), *final(exec_ctx), old(trace_ctx).pushed_canon@, final(trace_ctx).pushed_canon@, r)
//@ end

//@ lift air/src/execution_step/instructions/canon_utils/mod.rs :: fn handle_canon_request_sent_by
//@ props C03
//@ ret r
//@ spec
    // from the call site (handle_seen_canon, arm `CanonResult::RequestSentBy(..)`): the state re-emitted here is a mark, it carries no CID
    requires canon_result is RequestSentBy
    ensures rec_ok(*old(exec_ctx), *final(exec_ctx), old(trace_ctx).pushed_canon@, final(trace_ctx).pushed_canon@, r)
//@ end

//@ lift air/src/execution_step/instructions/canon_utils/mod.rs :: fn handle_canon_executed
//@ props C03
//@ ret r
//@ rewrite 1 "crate::execution_step::instructions::resolve_peer_id_to_string(" => "resolve_peer_id_to_string("
//@ rewrite 1 "value_cids\n        .iter()\n        .map(|canon_value_cid| exec_ctx.cid_state.get_canon_value_by_cid(canon_value_cid))\n        .collect::<Result<Vec<_>, _>>()?" => "collect_canon_values(&value_cids, exec_ctx)?"
//@ rewrite 1 "epilog(canon_stream, canon_result_cid, exec_ctx, trace_ctx)" => "epilog.call(canon_stream, canon_result_cid, exec_ctx, trace_ctx)"
//@ spec
    ensures rec_ok(*old(exec_ctx), *final(exec_ctx), old(trace_ctx).pushed_canon@, final(trace_ctx).pushed_canon@, r),
        // a replayed canon state is re-emitted as it is, the CID store is only read
        final(exec_ctx).cid() == old(exec_ctx).cid(),
        final(trace_ctx).pushed_canon@ == old(trace_ctx).pushed_canon@
            || final(trace_ctx).pushed_canon@ == old(trace_ctx).pushed_canon@.push(CanonResult::Executed(canon_result_cid)),
//@ end

//@ lift air/src/execution_step/instructions/canon_utils/mod.rs :: fn handle_seen_canon
//@ props C03
//@ ret r
//@ spec
    ensures rec_ok(*old(exec_ctx), *final(exec_ctx), old(trace_ctx).pushed_canon@, final(trace_ctx).pushed_canon@, r)
//@ end

// ================================================================ canon.rs
impl<'i> ast::Canon<'i> {
//@ lift air/src/execution_step/instructions/canon.rs :: impl<'i> super::ExecutableInstruction<'i> for ast::Canon<'i> :: fn execute
//@ name Canon::execute
//@ props C03
//@ ret r
//@ spec
        ensures rec_ok(*old(exec_ctx), *final(exec_ctx), old(trace_ctx).pushed_canon@, final(trace_ctx).pushed_canon@, r)
//@ end
}

} // verus!
fn main() {}
