//@ unit tetraplets
// C17, part 1 (part 2 = unit tetraplets_call): what tetraplet a *value* carries, what tetraplets an *argument* resolves to, and what
// the host receives in a call request.
//   crates/air-lib/polyplets/src/triplet.rs                          (From<ResolvedTriplet> for SecurityTetraplet)
//   air/src/execution_step/value_types/utils.rs                      (populate_tetraplet_with_lambda)
//   air/src/execution_step/value_types/scalar.rs, scalar/values.rs   (ValueAggregate, the three aggregates, ScalarRef::into_jvaluable)
//   air/src/execution_step/value_types/jvaluable/*.rs                (JValuable for ValueAggregate, IterableItem, &CanonStream, &CanonStreamMap)
//   air/src/execution_step/resolver/resolvable_impl.rs               (resolve_const, resolve_errors, every `impl Resolvable`)
//   air/src/execution_step/instructions/call/resolved_call.rs        (ResolvedCall::new, collect_args, resolve_args, prepare_request_params)
//   crates/air-lib/interpreter-interface/src/call_request_parameters.rs (CallRequestParams::new)
//   air/src/execution_step/value_types/iterable.rs, iterable/*.rs    (the five `peek`s, IterableItem::into_resolved_result)
//   air/src/execution_step/instructions/fold/utils.rs                (from_value, from_jvalue, create_scalar_iterable, create_scalar_wl_iterable, to_tetraplet)
//
// Vocabulary (from the property statement): a tetraplet is seen as `Tet = (peer, service, function, lens)`, four texts.
//   lit(init)            = (init, "", "", "")            literals and built-ins
//   with_lens(t, text)   = (t.peer, t.service, t.function, t.lens ++ text)
//   lens_text(lambda)    = the text of a lens (uninterpreted: `Display for LambdaAST`)
//   body_text(lambda)    = the text of the accessors after the first one ("" if none; uninterpreted `dot_joined` otherwise)
//   idx_text(i)          = `.$.[i]`, the position of a fold item (uninterpreted)
//   computed(t, text, me): a functor result (`.length`) is computed by the interpreter, no service produced it: empty
//                          service and function, lens = the functor's text, peer "" or the computing peer (OBSERVATION O1 below)
// `arg_ok(argument, ctx, tetraplets)` is THE contract of one argument; `args_ok` / `request_ok` lift it to the argument list and to
// CallRequestParams (the observation point).
//
// OBSERVATIONS (accepted by the contracts, not what a strict reading of the statement would give):
//  O1 `.length`: scalars / iterators give ("", "", "", ".length") (pinned by upstream functor_dont_influence_tetraplet), canon streams
//     and maps give (current peer, "", "", ".length"): neither names the producer of the measured value nor the init peer.
//  O2 ValueAggregate::new keeps of a tetraplet only what the provenance's representation holds (`fits`): a literal keeps the peer, a
//     canon result the peer and the lens. Reached through `ap` and nested folds only; e.g. `(ap #%m.$.key.[0] x)` stores the element
//     of a canon map (service m1, function f1) under canon provenance, so `[x]` arrives as (peer, "", "", lens).
//  KNOWN FINDING a1: obligation CanonStream::apply_lambda_with_tetraplets/value-path-lens (see there).
//
// Trusted part of this file:
//  * SecurityTetraplet shim: the four String fields of marine_call_parameters::SecurityTetraplet (0.14.0, outside /repo) and its
//    three methods `new` / `literal_tetraplet` / `add_lens` with the contract read off their bodies
//    (`Self { peer_pk: peer_pk.into(), .. }`, `Self { peer_pk: init_peer_id.into(), <three String::new()> }`, `self.lens.push_str(lens)`);
//    `impl Into<String>` is the local trait StrArg (implemented for &str and String: the conversions keep the text);
//    Clone keeps the four texts;
//  * LambdaAST::to_string == lens_text, lens_body_suffix == suffix_text, idx_suffix (`format!(".$.[{}]", i)`) == idx_text: uninterpreted
//    texts; JValue: six variants with opaque payloads (JArray: length, indexing, to_vec), `Into<JValue>` conversions opaque;
//    Number / CID / TracePos opaque; NonEmpty::split_first; `Rc<str>: From<&str>` keeps the text (rc_str_from);
//  * std: Rc::{as_ref, deref, from} are the identity on the pointee, `String::to_string` / `Rc<String>::to_string` keep the text;
//    the hand-written Clone impls of the aggregates / ValueAggregate mirror their `#[derive(Clone)]`;
//  * lambda_applier: select_by_lambda_from_scalar (no contract), select_by_lambda_from_stream (`Ok` => for a value path the returned
//    index is inside the stream: TETRAPLET_IDX_CORRECT; for a functor no index), select_by_lambda_from_canon_map: here `map_lens_tet`
//    only names the tetraplet it returns; that tetraplet is derived in unit tetraplets_map (`map_lensed`);
//  * the execution context: Scalars::{get_value, get_canon_stream, get_canon_map} are uninterpreted lookups (a fold variable is visible
//    only while its iterable is non-empty); ExecutionCtx::{error, last_error} return the stored descriptors; IterableValue
//    (`Box<dyn Iterable>`) is opaque with an uninterpreted `peeked()` -- the link "peek() of the boxed iterable = peek of the concrete
//    iterable it was built from" (`IterSource`) is assumed, each concrete `peek` is proved;
//  * `self.iter().map(|r| r.get_tetraplet()).collect()` (two places) is replaced by `collect_tetraplets(self.iter())`, whose contract is
//    the meaning of `map(..).collect()`: the i-th result is `get_tetraplet()` of the i-th element; `Box::new(foldable)` (two places)
//    by the IterableValue constructors that remember what was boxed;
//  * MsgPack serialisation of arguments / tetraplets is faithful (`content()`); resolve (triplet.rs) is an uninterpreted function of
//    the triplet and the context; check_output_name has no contract;
//  * the hand-written `trait JValuable` / reduced `trait Iterable` declarations carry the contracts every impl must meet (Verus checks
//    each lifted impl against them; calls through `Box<dyn JValuable>` / `&dyn JValuable` use them).
#![feature(allocator_api)]
use vstd::prelude::*;
verus! {

use std::rc::Rc;
use std::ops::Deref;
use core::marker::PhantomData;

pub mod ax {
    use vstd::prelude::*;
    use std::rc::Rc;
    use vstd::string::to_string_from_display_ensures;
    #[verifier::external_body]
    pub broadcast proof fn axiom_rc_string_to_string(v: Rc<String>, s: String)
        ensures #[trigger] to_string_from_display_ensures::<Rc<String>>(&v, s) ==> s@ == v@ {}
    #[verifier::external_body]
    pub broadcast proof fn axiom_string_to_string(v: String, s: String)
        ensures #[trigger] to_string_from_display_ensures::<String>(&v, s) ==> s@ == v@ {}
}
broadcast use {ax::axiom_rc_string_to_string, ax::axiom_string_to_string};
pub assume_specification<T: ?Sized, A: core::alloc::Allocator> [<Rc<T, A> as core::convert::AsRef<T>>::as_ref] (r: &Rc<T, A>) -> (o: &T) ensures o == &**r;
pub assume_specification<T: ?Sized, A: core::alloc::Allocator> [<Rc<T, A> as core::ops::Deref>::deref] (r: &Rc<T, A>) -> (o: &T) ensures o == &**r;
pub assume_specification<T> [<Rc<T> as core::convert::From<T>>::from] (t: T) -> (o: Rc<T>) ensures *o == t;

// ---------------------------------------------------------------- the abstract tetraplet
pub type Text = Seq<char>;
pub struct Tet { pub peer: Text, pub service: Text, pub function: Text, pub lens: Text }
pub open spec fn empty() -> Text { Seq::<char>::empty() }
pub proof fn empty_strlit() ensures ""@ == empty() { reveal_strlit(""); assert(""@ =~= empty()); }
pub open spec fn lit(init: Text) -> Tet { Tet { peer: init, service: empty(), function: empty(), lens: empty() } }
pub open spec fn with_lens(t: Tet, text: Text) -> Tet { Tet { lens: t.lens + text, ..t } }
pub open spec fn computed(t: Tet, text: Text, me: Text) -> bool {
    t.service =~= empty() && t.function =~= empty() && t.lens =~= text && (t.peer =~= empty() || t.peer =~= me)
}

// ---------------------------------------------------------------- shim: SecurityTetraplet (trusted, marine-call-parameters 0.14.0)
pub struct SecurityTetraplet { pub peer_pk: String, pub service_id: String, pub function_name: String, pub lens: String }
pub type RcSecurityTetraplet = Rc<SecurityTetraplet>;
pub type RcSecurityTetraplets = Vec<RcSecurityTetraplet>;
pub trait StrArg { spec fn text(&self) -> Text; }
impl StrArg for &str { open spec fn text(&self) -> Text { self@ } }
impl StrArg for String { open spec fn text(&self) -> Text { self@ } }
impl SecurityTetraplet {
    pub open spec fn tv(&self) -> Tet { Tet { peer: self.peer_pk@, service: self.service_id@, function: self.function_name@, lens: self.lens@ } }
    #[verifier::external_body]
    pub fn new<A: StrArg, B: StrArg, C: StrArg, D: StrArg>(peer_pk: A, service_id: B, function_name: C, lens: D) -> (r: Self)
        ensures r.tv() == (Tet { peer: peer_pk.text(), service: service_id.text(), function: function_name.text(), lens: lens.text() })
    { unimplemented!() }
    #[verifier::external_body]
    pub fn literal_tetraplet<A: StrArg>(init_peer_id: A) -> (r: Self)
        ensures r.tv() == lit(init_peer_id.text())
    { unimplemented!() }
    pub fn add_lens(&mut self, lens: &str)
        ensures final(self).tv() == with_lens(old(self).tv(), lens@)
    { self.lens.push_str(lens) }
}
impl Clone for SecurityTetraplet {
    fn clone(&self) -> (r: Self) ensures r.tv() == self.tv() {
        SecurityTetraplet { peer_pk: self.peer_pk.clone(), service_id: self.service_id.clone(), function_name: self.function_name.clone(), lens: self.lens.clone() }
    }
}
pub open spec fn tvs(v: RcSecurityTetraplets) -> Seq<Tet> { v@.map_values(|t: RcSecurityTetraplet| t.tv()) }

// ---------------------------------------------------------------- polyplets/src/triplet.rs
//@ lift crates/air-lib/polyplets/src/triplet.rs :: struct ResolvedTriplet
//@ derive
//@ end
impl From<ResolvedTriplet> for SecurityTetraplet {
//@ lift crates/air-lib/polyplets/src/triplet.rs :: impl From<ResolvedTriplet> for SecurityTetraplet :: fn from
//@ name SecurityTetraplet::from<ResolvedTriplet>
//@ props C17
//@ ret r
//@ no-canary
//@ spec
        // a call result's tetraplet names the call's peer, service and function; no lens
        ensures r.tv() =~~= (Tet { peer: triplet.peer_pk@, service: triplet.service_id@, function: triplet.function_name@, lens: empty() })
//@ end
}

// vstd's generic contract of `From::from` (`obeys_from_spec() ==> r == from_spec(t)`) is switched off: the contract is the `ensures` above
impl vstd::std_specs::convert::FromSpecImpl<ResolvedTriplet> for SecurityTetraplet {
    open spec fn obeys_from_spec() -> bool { false }
    open spec fn from_spec(t: ResolvedTriplet) -> SecurityTetraplet { arbitrary() }
}

// ---------------------------------------------------------------- shim: lambda (trusted)
//@ lift crates/air-lib/lambda/ast/src/ast.rs :: enum Functor
//@ derive Clone Copy
//@ end
//@ lift crates/air-lib/lambda/ast/src/ast.rs :: enum ValueAccessor
//@ derive Clone Copy
//@ end
// non_empty_vec::NonEmpty (0.2): `split_first` is `(&self[0], &self[1..])`
pub struct NonEmpty<T>(pub Vec<T>);
impl<T> NonEmpty<T> {
    pub open spec fn body(&self) -> Seq<T> { self.0@.subrange(1, self.0@.len() as int) }
    #[verifier::external_body]
    pub fn split_first(&self) -> (r: (&T, &[T])) ensures r.1@ == self.body() { unimplemented!() }
}
//@ lift crates/air-lib/lambda/ast/src/ast.rs :: enum LambdaAST
//@ derive
//@ end
pub uninterp spec fn lens_text(lambda: LambdaAST<'_>) -> Text;
// the text of accessors applied to an already selected element, the way applier.rs renders it for canon maps
// (select_by_path_from_canon_map_stream: `format!(".{}", body.iter().map(ToString::to_string).collect::<Vec<_>>().join("."))`,
// nothing for an empty body)
pub uninterp spec fn dot_joined(body: Seq<ValueAccessor<'_>>) -> Text;
pub open spec fn suffix_text(body: Seq<ValueAccessor<'_>>) -> Text { if body.len() == 0 { empty() } else { dot_joined(body) } }
// the part of a lens that is applied to the element of a stream / key group its first accessor selects
pub open spec fn body_text(lambda: LambdaAST<'_>) -> Text {
    match lambda { LambdaAST::ValuePath(p) => suffix_text(p.body()), LambdaAST::Functor(_) => empty() }
}
impl<'input> LambdaAST<'input> {
    // real: `Display for LambdaAST` (crates/air-lib/lambda/ast/src/ast/traits.rs) through the blanket ToString
    #[verifier::external_body]
    pub fn to_string(&self) -> (r: String) ensures r@ == lens_text(*self) { unimplemented!() }
}

// ---------------------------------------------------------------- value_types/utils.rs
//@ lift air/src/execution_step/value_types/utils.rs :: fn populate_tetraplet_with_lambda
//@ props C17
//@ ret r
//@ spec
    ensures
        // a value path: same peer, service and function, the lens is appended -- once
        lambda is ValuePath ==> r.tv() == with_lens(tetraplet.tv(), lens_text(*lambda)),
        // a functor: nobody produced the number
        lambda is Functor ==> computed(r.tv(), lens_text(*lambda), empty()),
//@ before "match lambda {"
        proof { empty_strlit(); }
//@ end

// ---------------------------------------------------------------- shim: opaque data (trusted)
// air_interpreter_value::JValue: the six variants; payloads opaque (`Array` is `Rc<[JValue]>`: only its length and indexing are used)
#[verifier::external_body]
pub struct JNumber { _opaque: () }
#[verifier::external_body]
pub struct JArray { _opaque: () }
#[verifier::external_body]
pub struct JObject { _opaque: () }
pub enum JValue { Null, Bool(bool), Number(JNumber), String(JsonString), Array(JArray), Object(JObject) }
impl Clone for JValue {
    #[verifier::external_body]
    fn clone(&self) -> (r: Self) ensures r == *self { unimplemented!() }
}
impl JArray {
    pub uninterp spec fn alen(&self) -> nat;
    #[verifier::external_body]
    pub fn len(&self) -> (r: usize) ensures r == self.alen() { unimplemented!() }
    #[verifier::external_body]
    pub fn is_empty(&self) -> (r: bool) ensures r == (self.alen() == 0) { unimplemented!() }
    // real: `array[i]` (Index on the slice: panics out of range)
    #[verifier::external_body]
    pub fn at(&self, i: usize) -> (r: &JValue) requires i < self.alen() { unimplemented!() }
    #[verifier::external_body]
    pub fn to_vec(&self) -> (r: Vec<JValue>) ensures r@.len() == self.alen() { unimplemented!() }
}
#[derive(Clone, Copy)]
pub struct TracePos(pub u32);
#[derive(Clone, Copy)]
pub struct AirPos(pub usize);
pub struct CID<T> { pub id: u64, pub ph: PhantomData<T> }
impl<T> Clone for CID<T> { fn clone(&self) -> (r: Self) ensures r == *self { CID { id: self.id, ph: PhantomData } } }
pub struct ServiceResultCidAggregate { pub x: u8 }
pub struct CanonResultCidAggregate { pub x: u8 }
pub type JsonString = Rc<str>;
// `lambda.into()` / `peer_pk.as_str().into()`: `Rc<str>: From<&str>` keeps the text (Verus rejects an assume_specification for it)
#[verifier::external_body]
pub fn rc_str_from(s: &str) -> (r: Rc<str>) ensures r@ == s@ { unimplemented!() }

//@ lift crates/air-lib/interpreter-data/src/executed_state.rs :: enum Provenance
//@ derive Clone
//@ end
impl Provenance {
//@ lift crates/air-lib/interpreter-data/src/executed_state/impls.rs :: impl Provenance :: fn literal
//@ props C17
//@ ret r
//@ spec
        ensures r is Literal
//@ end
//@ lift crates/air-lib/interpreter-data/src/executed_state/impls.rs :: impl Provenance :: fn canon
//@ props C17
//@ ret r
//@ spec
        ensures r is Canon
//@ end
}

// ---------------------------------------------------------------- value_types/scalar/values.rs: the three aggregates
//@ lift air/src/execution_step/value_types/scalar/values.rs :: struct LiteralAggregate
//@ derive
//@ end
//@ lift air/src/execution_step/value_types/scalar/values.rs :: struct ServiceResultAggregate
//@ derive
//@ end
//@ lift air/src/execution_step/value_types/scalar/values.rs :: struct CanonResultAggregate
//@ derive
//@ end

// `stored()`: the tetraplet a stored value carries, read off the data the way the property statement describes a tetraplet
// (peer, service, function, lens); the three `#[derive(Clone)]`s written out (Verus gives a derived clone no contract)
impl LiteralAggregate {
    pub open spec fn stored(&self) -> Tet { lit(self.init_peer_id@) }
//@ lift air/src/execution_step/value_types/scalar/values.rs :: impl LiteralAggregate :: fn new
//@ name LiteralAggregate::new
//@ props C17
//@ ret r
//@ spec
        ensures r.stored() == lit(init_peer_id@)
//@ end
//@ lift air/src/execution_step/value_types/scalar/values.rs :: impl LiteralAggregate :: fn get_tetraplet
//@ name LiteralAggregate::get_tetraplet
//@ props C17
//@ ret r
//@ spec
        ensures r.tv() =~~= self.stored()
//@ end
}
impl Clone for LiteralAggregate {
    fn clone(&self) -> (r: Self) ensures r.stored() == self.stored() {
        LiteralAggregate { result: self.result.clone(), init_peer_id: self.init_peer_id.clone(), trace_pos: self.trace_pos }
    }
}
impl ServiceResultAggregate {
    pub open spec fn stored(&self) -> Tet { self.tetraplet.tv() }
//@ lift air/src/execution_step/value_types/scalar/values.rs :: impl ServiceResultAggregate :: fn new
//@ name ServiceResultAggregate::new
//@ props C17
//@ ret r
//@ spec
        ensures r.stored() == tetraplet.tv()
//@ end
}
impl Clone for ServiceResultAggregate {
    fn clone(&self) -> (r: Self) ensures r.stored() == self.stored() {
        ServiceResultAggregate { result: self.result.clone(), tetraplet: self.tetraplet.clone(), trace_pos: self.trace_pos }
    }
}
impl CanonResultAggregate {
    pub open spec fn stored(&self) -> Tet { Tet { peer: self.peer_id@, service: empty(), function: empty(), lens: self.lambda@ } }
//@ lift air/src/execution_step/value_types/scalar/values.rs :: impl CanonResultAggregate :: fn new
//@ name CanonResultAggregate::new
//@ props C17
//@ ret r
//@ rewrite 1 "lambda: lambda.into()," => "lambda: rc_str_from(lambda),"
//@ spec
        ensures r.stored() == (Tet { peer: peer_id@, service: empty(), function: empty(), lens: lambda@ })
//@ end
//@ lift air/src/execution_step/value_types/scalar/values.rs :: impl CanonResultAggregate :: fn get_tetraplet
//@ name CanonResultAggregate::get_tetraplet
//@ props C17
//@ ret r
//@ spec
        ensures r.tv() =~~= self.stored()
//@ before "SecurityTetraplet::new("
        proof { empty_strlit(); }
//@ end
}
impl Clone for CanonResultAggregate {
    fn clone(&self) -> (r: Self) ensures r.stored() == self.stored() {
        CanonResultAggregate { result: self.result.clone(), peer_id: self.peer_id.clone(), lambda: self.lambda.clone(), trace_pos: self.trace_pos }
    }
}

// ---------------------------------------------------------------- value_types/scalar.rs: ValueAggregate
//@ lift air/src/execution_step/value_types/scalar.rs :: enum ValueAggregate
//@ derive
//@ end
impl Clone for ValueAggregate {
    fn clone(&self) -> (r: Self) ensures r.stored() == self.stored() {
        match self {
            ValueAggregate::Literal(literal) => ValueAggregate::Literal(literal.clone()),
            ValueAggregate::ServiceResult { result, provenance_cid } => ValueAggregate::ServiceResult { result: result.clone(), provenance_cid: provenance_cid.clone() },
            ValueAggregate::Canon { result, provenance_cid } => ValueAggregate::Canon { result: result.clone(), provenance_cid: provenance_cid.clone() },
        }
    }
}
// what `ValueAggregate::new` can keep of a tetraplet under each provenance (the representation has no room for more):
// a literal keeps the peer only, a canon result the peer and the lens
pub open spec fn fits(p: Provenance, t: Tet) -> bool {
    match p {
        Provenance::Literal => t.service =~= empty() && t.function =~= empty() && t.lens =~= empty(),
        Provenance::ServiceResult { .. } => true,
        Provenance::Canon { .. } => t.service =~= empty() && t.function =~= empty(),
    }
}
impl ValueAggregate {
    pub open spec fn get_result_spec(&self) -> JValue {
        match *self {
            ValueAggregate::Literal(l) => l.result,
            ValueAggregate::ServiceResult { result, .. } => result.result,
            ValueAggregate::Canon { result, .. } => result.result,
        }
    }
    pub open spec fn stored(&self) -> Tet {
        match *self {
            ValueAggregate::Literal(l) => l.stored(),
            ValueAggregate::ServiceResult { result, .. } => result.stored(),
            ValueAggregate::Canon { result, .. } => result.stored(),
        }
    }
//@ lift air/src/execution_step/value_types/scalar.rs :: impl ValueAggregate :: fn new
//@ name ValueAggregate::new
//@ props C17
//@ ret r
//@ rewrite 2 "tetraplet.peer_pk.as_str().into()," => "rc_str_from(tetraplet.peer_pk.as_str()),"
//@ spec
        ensures
            // the tetraplet handed in is the tetraplet stored -- whenever the representation can hold it
            fits(provenance, tetraplet.tv()) ==> r.stored() =~~= tetraplet.tv(),
            // in every case the peer (and, except for literals, the lens) survives; nothing is invented
            r.stored().peer == tetraplet.tv().peer,
            !(provenance is Literal) ==> r.stored().lens == tetraplet.tv().lens,
            provenance is ServiceResult ==> r.stored() == tetraplet.tv(),
//@ end
//@ lift air/src/execution_step/value_types/scalar.rs :: impl ValueAggregate :: fn from_service_result
//@ name ValueAggregate::from_service_result
//@ props C17
//@ ret r
//@ spec
        ensures r.stored() == service_result.stored()
//@ end
//@ lift air/src/execution_step/value_types/scalar.rs :: impl ValueAggregate :: fn from_literal_result
//@ name ValueAggregate::from_literal_result
//@ props C17
//@ ret r
//@ spec
        ensures r.stored() == literal.stored()
//@ end
//@ lift air/src/execution_step/value_types/scalar.rs :: impl ValueAggregate :: fn from_canon_result
//@ name ValueAggregate::from_canon_result
//@ props C17
//@ ret r
//@ spec
        ensures r.stored() == canon_result.stored()
//@ end
//@ lift air/src/execution_step/value_types/scalar.rs :: impl ValueAggregate :: fn get_tetraplet
//@ name ValueAggregate::get_tetraplet
//@ props C17
//@ ret r
//@ spec
        ensures r.tv() =~~= self.stored()
//@ end
//@ lift air/src/execution_step/value_types/scalar.rs :: impl ValueAggregate :: fn as_inner_parts
//@ name ValueAggregate::as_inner_parts
//@ props C17
//@ ret r
//@ spec
        ensures r.1.tv() =~~= self.stored(), *r.0 == self.get_result_spec()
//@ end
//@ lift air/src/execution_step/value_types/scalar.rs :: impl ValueAggregate :: fn get_result
//@ name ValueAggregate::get_result
//@ props C17
//@ ret r
//@ spec
        ensures *r == self.get_result_spec()
//@ end
//@ lift air/src/execution_step/value_types/scalar.rs :: impl ValueAggregate :: fn get_provenance
//@ name ValueAggregate::get_provenance
//@ props C17
//@ end
}

// ---------------------------------------------------------------- errors, context (trusted shims)
pub enum CatchableError { FoldIteratesOverNonArray(JValue, String), Other(u8) }
impl From<CatchableError> for ExecutionError { #[verifier::external_body] fn from(e: CatchableError) -> Self { unimplemented!() } }
pub struct UncatchableError { pub x: u8 }
pub enum ExecutionError { Catchable(Rc<CatchableError>), Uncatchable(UncatchableError) }
pub type ExecutionResult<T> = Result<T, ExecutionError>;

//@ lift air/src/execution_step/execution_context/context.rs :: struct RcRunParameters
//@ derive
//@ end
//@ lift air/src/execution_step/execution_context/instruction_error/instruction_error_definition.rs :: struct InstructionError
//@ derive
//@ end

// value_types/iterable.rs: the item a fold iterator stands for
//@ lift air/src/execution_step/value_types/iterable.rs :: enum IterableItem
//@ derive
//@ end
impl<'ctx> IterableItem<'ctx> {
    // the tetraplet the item carries (how it is derived from the iterated value: unit tetraplets_iter)
    pub open spec fn tet(&self) -> Tet {
        match *self { IterableItem::RefValue(p) => p.1.tv(), IterableItem::RcValue(p) => p.1.tv() }
    }
//@ lift air/src/execution_step/value_types/iterable.rs :: impl IterableItem<'_> :: fn provenance
//@ name IterableItem::provenance
//@ props C17
//@ end
}
// Box<dyn for<'ctx> Iterable<'ctx, Item = IterableItem<'ctx>>>
#[verifier::external_body]
pub struct IterableValue { _opaque: () }
// what was boxed (`Box::new(foldable)` erases the type; the two constructors below stand for that coercion)
pub enum IterSource { Resolved(IterableResolvedCall), Lambda(IterableLambdaResult), Other }
impl IterableValue {
    pub uninterp spec fn source(&self) -> IterSource;
    #[verifier::external_body]
    pub fn boxed_resolved_call(foldable: IterableResolvedCall) -> (r: IterableValue) ensures r.source() == IterSource::Resolved(foldable) { unimplemented!() }
    #[verifier::external_body]
    pub fn boxed_lambda_result(foldable: IterableLambdaResult) -> (r: IterableValue) ensures r.source() == IterSource::Lambda(foldable) { unimplemented!() }
    pub uninterp spec fn peeked(&self) -> Option<IterableItem<'_>>;
    #[verifier::external_body]
    pub fn peek(&self) -> (r: Option<IterableItem<'_>>) ensures r == self.peeked() { unimplemented!() }
}
pub struct FoldState<'i> { pub iterable: IterableValue, pub ph: PhantomData<&'i u8> }
pub const PEEK_ALLOWED_ON_NON_EMPTY: &'static str = "peek always return elements inside fold";

//@ lift air/src/execution_step/value_types/scalar.rs :: enum ScalarRef
//@ derive
//@ end
// a fold variable is visible only while its iterable is non-empty (PEEK_ALLOWED_ON_NON_EMPTY; proved in unit fold_exec)
pub open spec fn scalar_ref_wf(s: ScalarRef<'_>) -> bool { s matches ScalarRef::IterableValue(f) ==> f.iterable.peeked() is Some }
// the tetraplet stored with what a scalar name stands for
pub open spec fn scalar_ref_tet(s: ScalarRef<'_>) -> Tet {
    match s { ScalarRef::Value(v) => v.stored(), ScalarRef::IterableValue(f) => f.iterable.peeked()->0.tet() }
}

// value_types/canon_stream.rs, canon_stream_map.rs
//@ lift air/src/execution_step/value_types/canon_stream.rs :: struct CanonStream
//@ derive
//@ pub-fields
//@ end
//@ lift air/src/execution_step/value_types/canon_stream.rs :: struct CanonStreamWithProvenance
//@ derive
//@ end
// `impl ExactSizeIterator<Item = &ValueAggregate>` over the values (real: `self.values.iter()`)
pub struct ValuesIter<'a> { pub vals: Ghost<Seq<ValueAggregate>>, pub ph: PhantomData<&'a u8> }
pub struct ResultsIter<'a> { pub n: Ghost<nat>, pub ph: PhantomData<&'a u8> }
impl<'a> ValuesIter<'a> {
    // `.map(|v| v.get_result())`: the JSON values, handed to the lens selectors only
    #[verifier::external_body]
    pub fn map<F: Fn(&'a ValueAggregate) -> &'a JValue>(self, f: F) -> (r: ResultsIter<'a>) ensures r.n@ == self.vals@.len() { unimplemented!() }
}
// `iter.map(|r| r.get_tetraplet()).collect()`: the i-th result is get_tetraplet() of the i-th value
#[verifier::external_body]
pub fn collect_tetraplets(iter: ValuesIter<'_>) -> (r: RcSecurityTetraplets)
    ensures tvs(r) =~= iter.vals@.map_values(|v: ValueAggregate| v.stored())
{ unimplemented!() }
impl CanonStream {
    pub open spec fn roots(&self) -> Seq<Tet> { self.values@.map_values(|v: ValueAggregate| v.stored()) }
    #[verifier::external_body]
    pub fn iter(&self) -> (r: ValuesIter<'_>) ensures r.vals@ == self.values@ { unimplemented!() }
    #[verifier::external_body]
    pub fn as_jvalue(&self) -> JValue { unimplemented!() }
//@ lift air/src/execution_step/value_types/canon_stream.rs :: impl CanonStream :: fn nth
//@ name CanonStream::nth
//@ props C17
//@ ret r
//@ spec
        ensures r == (if idx < self.values@.len() { Some(&self.values@[idx as int]) } else { None::<&ValueAggregate> })
//@ end
//@ lift air/src/execution_step/value_types/canon_stream.rs :: impl CanonStream :: fn tetraplet
//@ name CanonStream::tetraplet
//@ props C17
//@ ret r
//@ spec
        ensures *r == self.tetraplet
//@ end
}
// the map: values (key-value pair objects) + an index from key to the canon stream of that key's values + the map's own tetraplet
#[verifier::external_body]
pub struct CanonStreamMap { _opaque: () }
impl CanonStreamMap {
    pub uninterp spec fn values(&self) -> Seq<ValueAggregate>;
    pub uninterp spec fn own(&self) -> Tet;
    pub open spec fn roots(&self) -> Seq<Tet> { self.values().map_values(|v: ValueAggregate| v.stored()) }
    #[verifier::external_body]
    pub fn iter(&self) -> (r: ValuesIter<'_>) ensures r.vals@ == self.values() { unimplemented!() }
    #[verifier::external_body]
    pub fn as_jvalue(&self) -> JValue { unimplemented!() }
}
//@ lift air/src/execution_step/value_types/canon_stream_map.rs :: struct CanonStreamMapWithProvenance
//@ derive
//@ end

#[verifier::external_body]
pub struct Scalars<'i> { _opaque: PhantomData<&'i u8> }
impl<'i> Scalars<'i> {
    pub uninterp spec fn value_spec(&self, name: Text) -> ExecutionResult<ScalarRef<'i>>;
    pub uninterp spec fn canon_spec(&self, name: Text) -> ExecutionResult<&'i CanonStreamWithProvenance>;
    pub uninterp spec fn canon_map_spec(&self, name: Text) -> ExecutionResult<&'i CanonStreamMapWithProvenance>;
    #[verifier::external_body]
    pub fn get_value(&'i self, name: &str) -> (r: ExecutionResult<ScalarRef<'i>>)
        ensures r == self.value_spec(name@), r matches Ok(s) ==> scalar_ref_wf(s)
    { unimplemented!() }
    #[verifier::external_body]
    pub fn get_canon_stream(&'i self, name: &str) -> (r: ExecutionResult<&'i CanonStreamWithProvenance>) ensures r == self.canon_spec(name@) { unimplemented!() }
    #[verifier::external_body]
    pub fn get_canon_map(&'i self, name: &str) -> (r: ExecutionResult<&'i CanonStreamMapWithProvenance>) ensures r == self.canon_map_spec(name@) { unimplemented!() }
}
// the fields of the real ExecutionCtx the lifted functions read
pub struct ExecutionCtx<'i> { pub run_parameters: RcRunParameters, pub scalars: Scalars<'i>, pub error_descriptor: InstructionError, pub last_error_descriptor: InstructionError }
impl<'i> ExecutionCtx<'i> {
    pub open spec fn init(&self) -> Text { self.run_parameters.init_peer_id@ }
    pub open spec fn me(&self) -> Text { self.run_parameters.current_peer_id@ }
    // real: `self.error_descriptor.error()` / `self.last_error_descriptor.error()`
    pub fn error(&self) -> (r: &InstructionError) ensures *r == self.error_descriptor { &self.error_descriptor }
    pub fn last_error(&self) -> (r: &InstructionError) ensures *r == self.last_error_descriptor { &self.last_error_descriptor }
}

// lambda_applier (the JSON side of a lens is property C24; here only what the tetraplet side relies on)
//@ lift air/src/execution_step/lambda_applier/applier.rs :: struct LambdaResult
//@ derive
//@ end
//@ lift air/src/execution_step/lambda_applier/applier.rs :: struct MapLensResult
//@ derive
//@ end
#[verifier::external_body]
pub fn select_by_lambda_from_scalar(value: &JValue, lambda: &LambdaAST<'_>, exec_ctx: &ExecutionCtx<'_>) -> ExecutionResult<JValue> { unimplemented!() }
// real: applier.rs; a value path selects the element its first accessor names (`LambdaResult::new(result, idx)` after
// `stream.nth(idx).ok_or(..)?`), a functor selects none (`LambdaResult::from_value`)
#[verifier::external_body]
pub fn select_by_lambda_from_stream<'value>(stream: ResultsIter<'value>, lambda: &LambdaAST<'_>, exec_ctx: &ExecutionCtx<'_>) -> (r: ExecutionResult<LambdaResult>)
    ensures r matches Ok(l) ==> (match *lambda {
        LambdaAST::ValuePath(_) => l.tetraplet_idx matches Some(i) && i < stream.n@,
        LambdaAST::Functor(_) => l.tetraplet_idx is None,
    })
{ unimplemented!() }
// applier.rs (after repair a1): the rendering of a lens body shared by the canon-stream and canon-map paths (iterator chain + format!)
#[verifier::external_body]
pub fn lens_body_suffix(body: &[ValueAccessor<'_>]) -> (r: String) ensures r@ == suffix_text(body@) { unimplemented!() }
// the tetraplet side of a lens on a canon map is derived in unit tetraplets_iter
// (a NAME for the tetraplet that function returns -- a function of the map, the lens, the scalars a `[scalar]` accessor reads and the
// current peer; what it is, is derived in unit tetraplets_map: `map_lensed`)
pub uninterp spec fn map_lens_tet(m: &CanonStreamMap, lambda: LambdaAST<'_>, scalars: &Scalars<'_>, me: Text) -> Tet;
#[verifier::external_body]
pub fn select_by_lambda_from_canon_map(canon_map: &CanonStreamMap, lambda: &LambdaAST<'_>, exec_ctx: &ExecutionCtx<'_>) -> (r: ExecutionResult<MapLensResult>)
    ensures r matches Ok(m) ==> m.tetraplet.tv() == map_lens_tet(canon_map, *lambda, &exec_ctx.scalars, exec_ctx.me())
{ unimplemented!() }
pub mod execution_step {
    pub mod value_types { pub use super::super::populate_tetraplet_with_lambda; }
    pub const TETRAPLET_IDX_CORRECT: &'static str = "selects always return a correct index inside stream";
    pub use super::InstructionError;
}

// ---------------------------------------------------------------- value_types/jvaluable.rs
// The contract of every JValuable, from the property statement:
//  * `as_tetraplets`: the tetraplets stored with the value(s), unchanged, in order;
//  * `apply_lambda_with_tetraplets`: exactly one tetraplet, `lensed`:
//      - of a single value with stored tetraplet s:  with_lens(s, lens_text(lambda)) for a value path, `computed` for a functor;
//      - of a canon stream (`stream_lensed` = `stream_lensed_origin` + the value-path-lens obligation): "it" is the selected ELEMENT (the value the tetraplet's peer/service/function produced): its stored
//        tetraplet with the text of the accessors applied to the element appended -- nothing for `#c.$.[i]` (upstream test
//        ap_canon_stream_with_lambda), ".field" for `#c.$.[i].field`, the rendering of the canon-map sibling (`stream_lensed`).
pub open spec fn scalar_lensed(s: Tet, lambda: LambdaAST<'_>, me: Text, t: Tet) -> bool {
    match lambda {
        LambdaAST::ValuePath(_) => t =~~= with_lens(s, lens_text(lambda)),
        LambdaAST::Functor(_) => computed(t, lens_text(lambda), me),
    }
}
// the element's producer is named and the element's own lens is kept (whatever is appended to it) ...
pub open spec fn same_origin(t: Tet, root: Tet) -> bool {
    &&& t.peer == root.peer && t.service == root.service && t.function == root.function
    &&& t.lens.len() >= root.lens.len() && t.lens.subrange(0, root.lens.len() as int) =~= root.lens
}
pub open spec fn stream_lensed_origin(roots: Seq<Tet>, lambda: LambdaAST<'_>, me: Text, t: Tet) -> bool {
    match lambda {
        LambdaAST::ValuePath(_) => exists|i: int| 0 <= i < roots.len() && same_origin(t, #[trigger] roots[i]),
        LambdaAST::Functor(_) => computed(t, lens_text(lambda), me),
    }
}
// ... and what is appended is exactly the text of the accessors applied to the element: the full statement. On the pinned tree the
// suffix is missing (KNOWN FINDING a1, pinned by upstream test instructions::fold::fold_stream_map); it is the separate obligation
// `CanonStream::apply_lambda_with_tetraplets/value-path-lens`, everything else about canon streams is proved from `stream_lensed_origin`.
pub open spec fn stream_lensed(roots: Seq<Tet>, lambda: LambdaAST<'_>, me: Text, t: Tet) -> bool {
    match lambda {
        LambdaAST::ValuePath(_) => exists|i: int| 0 <= i < roots.len() && t =~~= with_lens(#[trigger] roots[i], body_text(lambda)),
        LambdaAST::Functor(_) => computed(t, lens_text(lambda), me),
    }
}
pub trait JValuable {
    spec fn roots(&self) -> Seq<Tet>;
    spec fn lensed(&self, lambda: LambdaAST<'_>, ctx: &ExecutionCtx<'_>, t: Tet) -> bool;
    fn apply_lambda(&self, lambda: &LambdaAST<'_>, exec_ctx: &ExecutionCtx<'_>) -> ExecutionResult<JValue>;
    fn apply_lambda_with_tetraplets(&self, lambda: &LambdaAST<'_>, exec_ctx: &ExecutionCtx<'_>, root_provenance: &Provenance)
        -> (r: ExecutionResult<(JValue, SecurityTetraplet, Provenance)>)
        ensures r matches Ok(x) ==> self.lensed(*lambda, exec_ctx, x.1.tv());
    fn as_jvalue(&self) -> JValue;
    fn as_tetraplets(&self) -> (r: RcSecurityTetraplets)
        ensures tvs(r) =~= self.roots();
}

impl JValuable for ValueAggregate {
    open spec fn roots(&self) -> Seq<Tet> { seq![self.stored()] }
    open spec fn lensed(&self, lambda: LambdaAST<'_>, ctx: &ExecutionCtx<'_>, t: Tet) -> bool { scalar_lensed(self.stored(), lambda, ctx.me(), t) }
//@ lift air/src/execution_step/value_types/jvaluable/resolved_call_result.rs :: impl JValuable for ValueAggregate :: fn apply_lambda
//@ name ValueAggregate::apply_lambda
//@ props C17
//@ no-canary
//@ end
//@ lift air/src/execution_step/value_types/jvaluable/resolved_call_result.rs :: impl JValuable for ValueAggregate :: fn apply_lambda_with_tetraplets
//@ name ValueAggregate::apply_lambda_with_tetraplets
//@ props C17
//@ no-canary
//@ end
//@ lift air/src/execution_step/value_types/jvaluable/resolved_call_result.rs :: impl JValuable for ValueAggregate :: fn as_jvalue
//@ name ValueAggregate::as_jvalue
//@ props C17
//@ no-canary
//@ end
//@ lift air/src/execution_step/value_types/jvaluable/resolved_call_result.rs :: impl JValuable for ValueAggregate :: fn as_tetraplets
//@ name ValueAggregate::as_tetraplets
//@ props C17
//@ no-canary
//@ end
}

// (a module, so that the function-local `use super::IterableItem::*;` of the real file resolves)
pub mod jvaluable_iterable_item {
use super::*;
impl<'ctx> JValuable for IterableItem<'ctx> {
    open spec fn roots(&self) -> Seq<Tet> { seq![self.tet()] }
    open spec fn lensed(&self, lambda: LambdaAST<'_>, ctx: &ExecutionCtx<'_>, t: Tet) -> bool { scalar_lensed(self.tet(), lambda, ctx.me(), t) }
//@ lift air/src/execution_step/value_types/jvaluable/iterable_item.rs :: impl<'ctx> JValuable for IterableItem<'ctx> :: fn apply_lambda
//@ name IterableItem::apply_lambda
//@ props C17
//@ no-canary
//@ end
//@ lift air/src/execution_step/value_types/jvaluable/iterable_item.rs :: impl<'ctx> JValuable for IterableItem<'ctx> :: fn apply_lambda_with_tetraplets
//@ name IterableItem::apply_lambda_with_tetraplets
//@ props C17
//@ no-canary
//@ end
//@ lift air/src/execution_step/value_types/jvaluable/iterable_item.rs :: impl<'ctx> JValuable for IterableItem<'ctx> :: fn as_jvalue
//@ name IterableItem::as_jvalue
//@ props C17
//@ no-canary
//@ end
//@ lift air/src/execution_step/value_types/jvaluable/iterable_item.rs :: impl<'ctx> JValuable for IterableItem<'ctx> :: fn as_tetraplets
//@ name IterableItem::as_tetraplets
//@ props C17
//@ no-canary
//@ end
}
}

impl JValuable for &CanonStream {
    open spec fn roots(&self) -> Seq<Tet> { CanonStream::roots(*self) }
    open spec fn lensed(&self, lambda: LambdaAST<'_>, ctx: &ExecutionCtx<'_>, t: Tet) -> bool { stream_lensed_origin(CanonStream::roots(*self), lambda, ctx.me(), t) }
//@ lift air/src/execution_step/value_types/jvaluable/canon_stream.rs :: impl JValuable for &CanonStream :: fn apply_lambda
//@ name CanonStream::apply_lambda
//@ props C17
//@ no-canary
//@ end
//@ lift air/src/execution_step/value_types/jvaluable/canon_stream.rs :: impl JValuable for &CanonStream :: fn apply_lambda_with_tetraplets
//@ name CanonStream::apply_lambda_with_tetraplets
//@ props C17
//@ ret r
//@ no-canary
//@ spec
        ensures
            // (the trait's contract, clause by clause) a value path: the selected element's producer and its own lens
            *lambda is ValuePath ==> (r matches Ok(x) ==> stream_lensed_origin(CanonStream::roots(*self), *lambda, exec_ctx.me(), x.1.tv())),
            // a functor: empty service and function, the functor's text as the lens
            *lambda is Functor ==> (r matches Ok(x) ==> computed(x.1.tv(), lens_text(*lambda), exec_ctx.me())),
//@ before "let (tetraplet, provenance) = match select_result.tetraplet_idx {"
        proof { empty_strlit(); }
//@ after "let resolved_call = self.nth(idx)"
                proof { assert(CanonStream::roots(*self)[idx as int] == resolved_call.stored()); }
//@ end
//@ lift air/src/execution_step/value_types/jvaluable/canon_stream.rs :: impl JValuable for &CanonStream :: fn as_jvalue
//@ name CanonStream::as_jvalue
//@ props C17
//@ no-canary
//@ end
//@ lift air/src/execution_step/value_types/jvaluable/canon_stream.rs :: impl JValuable for &CanonStream :: fn as_tetraplets
//@ name CanonStream::as_tetraplets
//@ props C17
//@ no-canary
//@ rewrite 1 "self.iter().map(|r| r.get_tetraplet()).collect()" => "collect_tetraplets(self.iter())"
//@ end
}

// KNOWN FINDING a1 (kept failing on the pinned tree): `#c.$.[i].field` must record ".field" in the element's lens
pub trait ValuePathLens {
    fn apply_lambda_with_tetraplets__value_path_lens(&self, lambda: &LambdaAST<'_>, exec_ctx: &ExecutionCtx<'_>, root_provenance: &Provenance)
        -> ExecutionResult<(JValue, SecurityTetraplet, Provenance)>;
}
impl ValuePathLens for &CanonStream {
//@ lift air/src/execution_step/value_types/jvaluable/canon_stream.rs :: impl JValuable for &CanonStream :: fn apply_lambda_with_tetraplets
//@ name CanonStream::apply_lambda_with_tetraplets/value-path-lens
//@ props C17
//@ ret r
//@ sig 1 "fn apply_lambda_with_tetraplets" => "fn apply_lambda_with_tetraplets__value_path_lens"
//@ no-canary
//@ spec
        ensures
            // the stored tetraplet of the selected element with the text of the accessors applied to the element appended to its lens
            *lambda is ValuePath ==> (r matches Ok(x) ==> stream_lensed(CanonStream::roots(*self), *lambda, exec_ctx.me(), x.1.tv())),
//@ after "let resolved_call = self.nth(idx)"
                proof { assert(CanonStream::roots(*self)[idx as int] == resolved_call.stored()); }
//@ end
}

impl JValuable for &CanonStreamMap {
    open spec fn roots(&self) -> Seq<Tet> { CanonStreamMap::roots(*self) }
    open spec fn lensed(&self, lambda: LambdaAST<'_>, ctx: &ExecutionCtx<'_>, t: Tet) -> bool { t == map_lens_tet(*self, lambda, &ctx.scalars, ctx.me()) }
//@ lift air/src/execution_step/value_types/jvaluable/canon_stream_map.rs :: impl JValuable for &CanonStreamMap :: fn apply_lambda
//@ name CanonStreamMap::apply_lambda
//@ props C17
//@ no-canary
//@ end
//@ lift air/src/execution_step/value_types/jvaluable/canon_stream_map.rs :: impl JValuable for &CanonStreamMap :: fn apply_lambda_with_tetraplets
//@ name CanonStreamMap::apply_lambda_with_tetraplets
//@ props C17
//@ no-canary
//@ end
//@ lift air/src/execution_step/value_types/jvaluable/canon_stream_map.rs :: impl JValuable for &CanonStreamMap :: fn as_jvalue
//@ name CanonStreamMap::as_jvalue
//@ props C17
//@ no-canary
//@ end
//@ lift air/src/execution_step/value_types/jvaluable/canon_stream_map.rs :: impl JValuable for &CanonStreamMap :: fn as_tetraplets
//@ name CanonStreamMap::as_tetraplets
//@ props C17
//@ no-canary
//@ rewrite 1 "self.iter().map(|r| r.get_tetraplet()).collect()" => "collect_tetraplets(self.iter())"
//@ end
}

impl<'i> ScalarRef<'i> {
//@ lift air/src/execution_step/value_types/scalar.rs :: impl<'i> ScalarRef<'i> :: fn into_jvaluable
//@ name ScalarRef::into_jvaluable
//@ props C17
//@ ret r
//@ spec
        requires scalar_ref_wf(self)
        ensures
            // whatever stands behind the name, the boxed value carries exactly its stored tetraplet
            r.0.roots() =~= seq![scalar_ref_tet(self)],
            forall|lambda: LambdaAST<'_>, ctx: &ExecutionCtx<'_>, t: Tet| #[trigger] r.0.lensed(lambda, ctx, t) == scalar_lensed(scalar_ref_tet(self), lambda, ctx.me(), t),
//@ end
}

// ---------------------------------------------------------------- the AST of an argument (real types, air-parser)
pub mod ast {
    use vstd::prelude::*;
    pub use super::{LambdaAST, AirPos, JsonString};
    // ast::Number (Int(i64) | Float(f64)): only converted into a JValue
    pub struct Number { pub x: u8 }
    pub struct CallOutputValue<'i> { pub ph: core::marker::PhantomData<&'i u8> }
//@ lift crates/air-lib/air-parser/src/ast/values.rs :: struct Scalar
//@ derive
//@ end
//@ lift crates/air-lib/air-parser/src/ast/values.rs :: struct ScalarWithLambda
//@ derive
//@ end
//@ lift crates/air-lib/air-parser/src/ast/values.rs :: struct CanonStream
//@ derive
//@ end
//@ lift crates/air-lib/air-parser/src/ast/values.rs :: struct CanonStreamMap
//@ derive
//@ end
//@ lift crates/air-lib/air-parser/src/ast/values.rs :: struct CanonStreamWithLambda
//@ derive
//@ end
//@ lift crates/air-lib/air-parser/src/ast/values.rs :: struct CanonStreamMapWithLambda
//@ derive
//@ end
//@ lift crates/air-lib/air-parser/src/ast/values.rs :: enum ImmutableVariable
//@ derive
//@ end
//@ lift crates/air-lib/air-parser/src/ast/values.rs :: enum ImmutableVariableWithLambda
//@ derive
//@ end
//@ lift crates/air-lib/air-parser/src/ast/values.rs :: struct InstructionErrorAST
//@ derive
//@ end
//@ lift crates/air-lib/air-parser/src/ast/instruction_arguments.rs :: enum ImmutableValue
//@ derive
//@ end
}
pub use ast::InstructionErrorAST;
// `impl Into<JValue>` of resolve_const: the conversions used (JSON side only)
impl From<&str> for JValue { #[verifier::external_body] fn from(v: &str) -> JValue { unimplemented!() } }
impl From<String> for JValue { #[verifier::external_body] fn from(v: String) -> JValue { unimplemented!() } }
impl From<u64> for JValue { #[verifier::external_body] fn from(v: u64) -> JValue { unimplemented!() } }
impl From<u32> for JValue { #[verifier::external_body] fn from(v: u32) -> JValue { unimplemented!() } }
impl From<bool> for JValue { #[verifier::external_body] fn from(v: bool) -> JValue { unimplemented!() } }
impl From<&ast::Number> for JValue { #[verifier::external_body] fn from(v: &ast::Number) -> JValue { unimplemented!() } }
impl From<Vec<()>> for JValue { #[verifier::external_body] fn from(v: Vec<()>) -> JValue { unimplemented!() } }

// ---------------------------------------------------------------- what the property statement asks of every argument kind
// an error accessor (`:error:` / `%last_error%`, with or without a lens): the tetraplet stored with the error (the failed call's),
// the init peer's literal tetraplet if none is stored; an applied lens is recorded like on any other single value
pub open spec fn error_base(e: InstructionError, init: Text) -> Tet {
    match e.tetraplet { Some(t) => t.tv(), None => lit(init) }
}
pub open spec fn error_tets_ok(e: InstructionError, lens: Option<LambdaAST<'_>>, init: Text, me: Text, ts: Seq<Tet>) -> bool {
    match lens {
        None => ts =~= seq![error_base(e, init)],
        Some(l) => ts.len() == 1 && scalar_lensed(error_base(e, init), l, me, ts[0]),
    }
}
pub open spec fn scalar_ok(ctx: &ExecutionCtx<'_>, name: Text, ts: Seq<Tet>) -> bool {
    ctx.scalars.value_spec(name) matches Ok(s) && ts =~= seq![scalar_ref_tet(s)]
}
pub open spec fn scalar_wl_ok(ctx: &ExecutionCtx<'_>, name: Text, lambda: LambdaAST<'_>, ts: Seq<Tet>) -> bool {
    ctx.scalars.value_spec(name) matches Ok(s) && ts.len() == 1 && scalar_lensed(scalar_ref_tet(s), lambda, ctx.me(), ts[0])
}
pub open spec fn canon_ok(ctx: &ExecutionCtx<'_>, name: Text, ts: Seq<Tet>) -> bool {
    ctx.scalars.canon_spec(name) matches Ok(c) && ts =~= c.canon_stream.roots()
}
pub open spec fn canon_wl_ok(ctx: &ExecutionCtx<'_>, name: Text, lambda: LambdaAST<'_>, ts: Seq<Tet>) -> bool {
    ctx.scalars.canon_spec(name) matches Ok(c) && ts.len() == 1 && stream_lensed_origin(c.canon_stream.roots(), lambda, ctx.me(), ts[0])
}
pub open spec fn canon_map_ok(ctx: &ExecutionCtx<'_>, name: Text, ts: Seq<Tet>) -> bool {
    ctx.scalars.canon_map_spec(name) matches Ok(c) && ts =~= c.canon_stream_map.roots()
}
pub open spec fn canon_map_wl_ok(ctx: &ExecutionCtx<'_>, name: Text, lambda: LambdaAST<'_>, ts: Seq<Tet>) -> bool {
    ctx.scalars.canon_map_spec(name) matches Ok(c) && ts.len() == 1 && ts[0] == map_lens_tet(&c.canon_stream_map, lambda, &ctx.scalars, ctx.me())
}
pub open spec fn variable_ok(v: ast::ImmutableVariable<'_>, ctx: &ExecutionCtx<'_>, ts: Seq<Tet>) -> bool {
    match v {
        ast::ImmutableVariable::Scalar(s) => scalar_ok(ctx, s.name@, ts),
        ast::ImmutableVariable::CanonStream(c) => canon_ok(ctx, c.name@, ts),
        ast::ImmutableVariable::CanonStreamMap(c) => canon_map_ok(ctx, c.name@, ts),
    }
}
pub open spec fn variable_wl_ok(v: ast::ImmutableVariableWithLambda<'_>, ctx: &ExecutionCtx<'_>, ts: Seq<Tet>) -> bool {
    match v {
        ast::ImmutableVariableWithLambda::Scalar(s) => scalar_wl_ok(ctx, s.name@, s.lambda, ts),
        ast::ImmutableVariableWithLambda::CanonStream(c) => canon_wl_ok(ctx, c.name@, c.lambda, ts),
        ast::ImmutableVariableWithLambda::CanonStreamMap(c) => canon_map_wl_ok(ctx, c.name@, c.lambda, ts),
    }
}
// THE contract of C17 for one argument: `ts` are the tetraplets that go with it
pub open spec fn arg_ok(v: ast::ImmutableValue<'_>, ctx: &ExecutionCtx<'_>, ts: Seq<Tet>) -> bool {
    match v {
        // literals and built-ins: exactly one tetraplet, the init peer with empty service, function and lens
        ast::ImmutableValue::InitPeerId | ast::ImmutableValue::Timestamp | ast::ImmutableValue::TTL | ast::ImmutableValue::Literal(_)
        | ast::ImmutableValue::Number(_) | ast::ImmutableValue::Boolean(_) | ast::ImmutableValue::EmptyArray => ts =~= seq![lit(ctx.init())],
        ast::ImmutableValue::Error(e) => error_tets_ok(ctx.error_descriptor, e.lens, ctx.init(), ctx.me(), ts),
        ast::ImmutableValue::LastError(l) => error_tets_ok(ctx.last_error_descriptor, l, ctx.init(), ctx.me(), ts),
        ast::ImmutableValue::Variable(v) => variable_ok(v, ctx, ts),
        ast::ImmutableValue::VariableWithLambda(v) => variable_wl_ok(v, ctx, ts),
    }
}

// ---------------------------------------------------------------- resolver/resolvable_impl.rs
//@ lift air/src/execution_step/resolver/mod.rs :: trait Resolvable
//@ end

//@ lift air/src/execution_step/resolver/resolvable_impl.rs :: fn resolve_const
//@ props C17
//@ ret r
//@ spec
    ensures r matches Ok(x) && tvs(x.1) =~= seq![lit(ctx.init())]
//@ end

//@ lift air/src/execution_step/resolver/resolvable_impl.rs :: fn resolve_errors
//@ props C17
//@ ret r
//@ spec
    ensures
        // no lens: the stored tetraplet (or the literal one), unchanged
        lens is None ==> (r matches Ok(x) ==> error_tets_ok(*instruction_error, *lens, ctx.init(), ctx.me(), tvs(x.1))),
        // a lens: it is recorded
        lens is Some ==> (r matches Ok(x) ==> error_tets_ok(*instruction_error, *lens, ctx.init(), ctx.me(), tvs(x.1))),
//@ end

impl<'lens> Resolvable for InstructionErrorAST<'lens> {
//@ lift air/src/execution_step/resolver/resolvable_impl.rs :: impl<'lens> Resolvable for InstructionErrorAST<'lens> :: fn resolve
//@ name InstructionErrorAST::resolve
//@ props C17
//@ ret r
//@ no-canary
//@ spec
        ensures r matches Ok(x) ==> error_tets_ok(ctx.error_descriptor, self.lens, ctx.init(), ctx.me(), tvs(x.1))
//@ end
}
impl Resolvable for Option<LambdaAST<'_>> {
//@ lift air/src/execution_step/resolver/resolvable_impl.rs :: impl Resolvable for Option<LambdaAST<'_>> :: fn resolve
//@ name Option<LambdaAST>::resolve
//@ props C17
//@ ret r
//@ no-canary
//@ spec
        ensures r matches Ok(x) ==> error_tets_ok(ctx.last_error_descriptor, *self, ctx.init(), ctx.me(), tvs(x.1))
//@ end
}
impl Resolvable for ast::Scalar<'_> {
//@ lift air/src/execution_step/resolver/resolvable_impl.rs :: impl Resolvable for ast::Scalar<'_> :: fn resolve
//@ name Scalar::resolve
//@ props C17
//@ ret r
//@ no-canary
//@ spec
        ensures r matches Ok(x) ==> scalar_ok(ctx, self.name@, tvs(x.1))
//@ end
}
impl Resolvable for ast::CanonStream<'_> {
//@ lift air/src/execution_step/resolver/resolvable_impl.rs :: impl Resolvable for ast::CanonStream<'_> :: fn resolve
//@ name CanonStream::resolve
//@ props C17
//@ ret r
//@ no-canary
//@ spec
        ensures r matches Ok(x) ==> canon_ok(ctx, self.name@, tvs(x.1))
//@ end
}
impl Resolvable for ast::CanonStreamMap<'_> {
//@ lift air/src/execution_step/resolver/resolvable_impl.rs :: impl Resolvable for ast::CanonStreamMap<'_> :: fn resolve
//@ name CanonStreamMap::resolve
//@ props C17
//@ ret r
//@ no-canary
//@ spec
        ensures r matches Ok(x) ==> canon_map_ok(ctx, self.name@, tvs(x.1))
//@ end
}
impl Resolvable for ast::ImmutableVariable<'_> {
//@ lift air/src/execution_step/resolver/resolvable_impl.rs :: impl Resolvable for ast::ImmutableVariable<'_> :: fn resolve
//@ name ImmutableVariable::resolve
//@ props C17
//@ ret r
//@ no-canary
//@ spec
        ensures r matches Ok(x) ==> variable_ok(*self, ctx, tvs(x.1))
//@ end
}
impl Resolvable for ast::ScalarWithLambda<'_> {
//@ lift air/src/execution_step/resolver/resolvable_impl.rs :: impl Resolvable for ast::ScalarWithLambda<'_> :: fn resolve
//@ name ScalarWithLambda::resolve
//@ props C17
//@ ret r
//@ no-canary
//@ spec
        ensures r matches Ok(x) ==> scalar_wl_ok(ctx, self.name@, self.lambda, tvs(x.1))
//@ end
}
impl Resolvable for ast::CanonStreamWithLambda<'_> {
//@ lift air/src/execution_step/resolver/resolvable_impl.rs :: impl Resolvable for ast::CanonStreamWithLambda<'_> :: fn resolve
//@ name CanonStreamWithLambda::resolve
//@ props C17
//@ ret r
//@ no-canary
//@ spec
        ensures r matches Ok(x) ==> canon_wl_ok(ctx, self.name@, self.lambda, tvs(x.1))
//@ end
}
impl Resolvable for ast::CanonStreamMapWithLambda<'_> {
//@ lift air/src/execution_step/resolver/resolvable_impl.rs :: impl Resolvable for ast::CanonStreamMapWithLambda<'_> :: fn resolve
//@ name CanonStreamMapWithLambda::resolve
//@ props C17
//@ ret r
//@ no-canary
//@ spec
        ensures r matches Ok(x) ==> canon_map_wl_ok(ctx, self.name@, self.lambda, tvs(x.1))
//@ end
}
impl Resolvable for ast::ImmutableVariableWithLambda<'_> {
//@ lift air/src/execution_step/resolver/resolvable_impl.rs :: impl Resolvable for ast::ImmutableVariableWithLambda<'_> :: fn resolve
//@ name ImmutableVariableWithLambda::resolve
//@ props C17
//@ ret r
//@ no-canary
//@ spec
        ensures r matches Ok(x) ==> variable_wl_ok(*self, ctx, tvs(x.1))
//@ end
}
impl Resolvable for ast::ImmutableValue<'_> {
//@ lift air/src/execution_step/resolver/resolvable_impl.rs :: impl Resolvable for ast::ImmutableValue<'_> :: fn resolve
//@ name ImmutableValue::resolve
//@ props C17
//@ ret r
//@ no-canary
//@ spec
        ensures r matches Ok(x) ==> arg_ok(*self, ctx, tvs(x.1))
//@ end
}

// ---------------------------------------------------------------- instructions/call/resolved_call.rs: collect_args
//@ lift air/src/execution_step/instructions/call/resolved_call.rs :: struct ResolvedCall
//@ derive
//@ end
// the i-th entry of the tetraplets is what the statement asks for the i-th argument; same length and order as the values
pub open spec fn args_ok(paths: Seq<ast::ImmutableValue<'_>>, ctx: &ExecutionCtx<'_>, values: Seq<JValue>, tetraplets: Seq<RcSecurityTetraplets>) -> bool {
    &&& values.len() == paths.len()
    &&& tetraplets.len() == paths.len()
    &&& forall|i: int| 0 <= i < paths.len() ==> arg_ok(#[trigger] paths[i], ctx, tvs(tetraplets[i]))
}
// interpreter-interface: the serialised forms handed to the host. Trusted: MsgPack serialisation is faithful, i.e. the
// host decodes exactly the values / tetraplets that were serialised (`content()`); `map_err(Variant)` written as a closure.
#[verifier::external_body]
pub struct SerializedCallArguments { _opaque: () }
#[verifier::external_body]
pub struct SerializedTetraplets { _opaque: () }
impl SerializedCallArguments { pub uninterp spec fn content(&self) -> Seq<JValue>; }
impl SerializedTetraplets { pub uninterp spec fn content(&self) -> Seq<Seq<Tet>>; }
pub struct SerError { pub x: u8 }
pub struct CallArgumentsRepr;
pub struct TetrapletsRepr;
impl CallArgumentsRepr {
    #[verifier::external_body]
    pub fn serialize(&self, value: &Vec<JValue>) -> (r: Result<SerializedCallArguments, SerError>)
        ensures r matches Ok(s) ==> s.content() == value@
    { unimplemented!() }
}
impl TetrapletsRepr {
    #[verifier::external_body]
    pub fn serialize(&self, value: &Vec<RcSecurityTetraplets>) -> (r: Result<SerializedTetraplets, SerError>)
        ensures r matches Ok(s) ==> s.content() == value@.map_values(|v: RcSecurityTetraplets| tvs(v))
    { unimplemented!() }
}
pub mod air_interpreter_sede { pub trait ToSerialized {} }
impl From<UncatchableError> for ExecutionError { fn from(e: UncatchableError) -> Self { ExecutionError::Uncatchable(e) } }
impl vstd::std_specs::convert::FromSpecImpl<UncatchableError> for ExecutionError {
    open spec fn obeys_from_spec() -> bool { true }
    open spec fn from_spec(e: UncatchableError) -> ExecutionError { ExecutionError::Uncatchable(e) }
}
impl UncatchableError {
    pub fn ser_failed(e: SerError) -> UncatchableError { UncatchableError { x: 0 } }
}
//@ lift crates/air-lib/interpreter-interface/src/call_request_parameters.rs :: struct CallRequestParams
//@ derive
//@ end
impl CallRequestParams {
//@ lift crates/air-lib/interpreter-interface/src/call_request_parameters.rs :: impl CallRequestParams :: fn new
//@ name CallRequestParams::new
//@ props C17
//@ ret r
//@ spec
        ensures r.service_id == service_id, r.function_name == function_name, r.arguments == arguments, r.tetraplets == tetraplets
//@ end
}
//@ lift air/src/execution_step/instructions/call/resolved_call.rs :: struct ResolvedArguments
//@ derive
//@ end
// the raw instruction and the resolution of its triplet (triplet.rs): the peer / service / function the call names, resolved
// against the context -- an uninterpreted function of both
pub struct Triplet<'i> { pub ph: PhantomData<&'i u8> }
pub struct Call<'i> { pub triplet: Triplet<'i>, pub args: Rc<Vec<ast::ImmutableValue<'i>>>, pub output: ast::CallOutputValue<'i> }
pub uninterp spec fn resolved_triplet(triplet: Triplet<'_>, ctx: &ExecutionCtx<'_>) -> ExecutionResult<ResolvedTriplet>;
#[verifier::external_body]
pub fn resolve<'i>(triplet: &Triplet<'i>, ctx: &ExecutionCtx<'i>) -> (r: ExecutionResult<ResolvedTriplet>)
    ensures r == resolved_triplet(*triplet, ctx)
{ unimplemented!() }
#[verifier::external_body]
pub fn check_output_name(output: &ast::CallOutputValue<'_>, exec_ctx: &ExecutionCtx<'_>) -> ExecutionResult<()> { unimplemented!() }
impl<'i> Clone for ast::CallOutputValue<'i> { fn clone(&self) -> Self { ast::CallOutputValue { ph: PhantomData } } }

// what the host receives for a call (observed at CallRequestParams): the service and function of the call's own tetraplet,
// the argument values, and for the i-th argument the tetraplets the statement asks for
pub open spec fn request_ok(paths: Seq<ast::ImmutableValue<'_>>, ctx: &ExecutionCtx<'_>, own: Tet, p: CallRequestParams) -> bool {
    &&& p.service_id@ == own.service && p.function_name@ == own.function
    &&& p.arguments.content().len() == paths.len()
    &&& p.tetraplets.content().len() == paths.len()
    &&& forall|i: int| 0 <= i < paths.len() ==> arg_ok(#[trigger] paths[i], ctx, p.tetraplets.content()[i])
}

impl<'i> ResolvedCall<'i> {
    pub closed spec fn own(&self) -> Tet { self.tetraplet.tv() }
    pub closed spec fn paths(&self) -> Seq<ast::ImmutableValue<'i>> { self.function_arg_paths@ }
//@ lift air/src/execution_step/instructions/call/resolved_call.rs :: impl<'i> ResolvedCall<'i> :: fn new
//@ name ResolvedCall::new
//@ props C17
//@ ret r
//@ rewrite 1 "let tetraplet = triplet.into();" => "let tetraplet = SecurityTetraplet::from(triplet);"
//@ spec
        ensures
            // the call's own tetraplet -- the one its result will carry -- names the peer, service and function the triplet
            // resolves to, with an empty lens; the arguments are the instruction's
            r matches Ok(c) ==> (resolved_triplet(raw_call.triplet, exec_ctx) matches Ok(t)
                && c.own() =~~= (Tet { peer: t.peer_pk@, service: t.service_id@, function: t.function_name@, lens: empty() })
                && c.paths() == raw_call.args@),
//@ end
//@ lift air/src/execution_step/instructions/call/resolved_call.rs :: impl<'i> ResolvedCall<'i> :: fn as_tetraplet
//@ name ResolvedCall::as_tetraplet
//@ props C17
//@ ret r
//@ spec
        ensures r.tv() == self.own()
//@ end
//@ lift air/src/execution_step/instructions/call/resolved_call.rs :: impl<'i> ResolvedCall<'i> :: fn resolve_args
//@ name ResolvedCall::resolve_args
//@ props C17
//@ ret r
//@ rewrite 1 ".map_err(UncatchableError::CallArgumentsSerializationFailed)" => ".map_err(|e: SerError| -> (o: UncatchableError) { UncatchableError::ser_failed(e) })"
//@ spec
        ensures r matches Ok(a) ==> args_ok(self.paths(), exec_ctx, a.call_arguments.content(), a.tetraplets@)
//@ end
//@ lift air/src/execution_step/instructions/call/resolved_call.rs :: impl<'i> ResolvedCall<'i> :: fn prepare_request_params
//@ name ResolvedCall::prepare_request_params
//@ props C17
//@ ret r
//@ rewrite 1 ".map_err(UncatchableError::TetrapletSerializationFailed)" => ".map_err(|e: SerError| -> (o: UncatchableError) { UncatchableError::ser_failed(e) })"
//@ spec
        ensures r matches Ok(p) ==> request_ok(self.paths(), exec_ctx, tetraplet.tv(), p)
//@ end
//@ lift air/src/execution_step/instructions/call/resolved_call.rs :: impl<'i> ResolvedCall<'i> :: fn collect_args
//@ name ResolvedCall::collect_args
//@ props C17
//@ ret r
//@ rewrite 1 "for instruction_value in function_args" => "for instruction_value in it: function_args"
//@ spec
        ensures r matches Ok(x) ==> args_ok(self.paths(), exec_ctx, x.0@, x.1@)
//@ loop 0
            invariant
                it.seq() == self.function_arg_paths@.map_values(|v: ast::ImmutableValue<'i>| &v),
                call_arguments@.len() == it.index(), tetraplets@.len() == it.index(),
                forall|i: int| 0 <= i < it.index() ==> arg_ok(#[trigger] self.function_arg_paths@[i], exec_ctx, tvs(tetraplets@[i])),
//@ end
}

// ================================================================ fold iterators: the tetraplet of an iterator item
// value_types/iterable/*.rs: the five iterables behind `IterableValue`; only `peek` (what the iterator variable stands for) is
// lifted, through a reduced copy of `trait Iterable` (next / prev / len move the cursor only: units fold_exec, fold_state).
// From the property statement: an item of a stream / canon stream / canon map carries the tetraplet stored with that element;
// an item of an array-valued scalar carries the scalar's tetraplet with the element's position `.$.[i]` appended to the lens.
pub trait Iterable<'ctx> {
    type Item;
    // the cursor is inside the collection (the invariant foldable_next! / foldable_prev! keep; an array-valued scalar stays an array)
    spec fn peek_ok(&self) -> bool;
    fn peek(&'ctx self) -> Option<Self::Item>
        requires self.peek_ok();
}
// `format!(".$.[{}]", self.cursor)`
pub uninterp spec fn idx_text(i: usize) -> Text;
#[verifier::external_body]
pub fn idx_suffix(i: usize) -> (r: String) ensures r@ == idx_text(i) { unimplemented!() }
// `0.into()` (TracePos of a lens result)
impl From<i32> for TracePos { #[verifier::external_body] fn from(v: i32) -> TracePos { unimplemented!() } }
impl TracePosOperate for ValueAggregate {
    #[verifier::external_body]
    fn get_trace_pos(&self) -> TracePos { unimplemented!() }
}
pub trait TracePosOperate { fn get_trace_pos(&self) -> TracePos; }

//@ lift air/src/execution_step/value_types/iterable/resolved_call.rs :: struct IterableResolvedCall
//@ derive
//@ end
//@ lift air/src/execution_step/value_types/iterable/lambda_result.rs :: struct IterableLambdaResult
//@ derive
//@ end
//@ lift air/src/execution_step/value_types/iterable/vec_resolved_call.rs :: struct IterableVecResolvedCall
//@ derive
//@ end
//@ lift air/src/execution_step/value_types/iterable/canon_stream.rs :: struct CanonStreamIterableIngredients
//@ derive
//@ pub-fields
//@ end
pub const EXPECT_VALUE_IN_STREAM: &'static str = "value must exist";
//@ lift air/src/execution_step/value_types/iterable/canon_stream_map.rs :: struct CanonStreamMapIterableIngredients
//@ derive
//@ pub-fields
//@ end
pub const EXPECT_VALUE_IN_MAP: &'static str = "value must exist";
impl CanonStream {
//@ lift air/src/execution_step/value_types/canon_stream.rs :: impl CanonStream :: fn is_empty
//@ name CanonStream::is_empty
//@ props C17
//@ ret r
//@ spec
        ensures r == (self.values@.len() == 0)
//@ end
}

impl<'ctx> Iterable<'ctx> for IterableResolvedCall {
    type Item = IterableItem<'ctx>;
    open spec fn peek_ok(&self) -> bool { self.len > 0 ==> (self.call_result.get_result_spec() matches JValue::Array(a) && self.cursor < a.alen()) }
//@ lift air/src/execution_step/value_types/iterable/resolved_call.rs :: impl<'ctx> Iterable<'ctx> for IterableResolvedCall :: fn peek
//@ name IterableResolvedCall::peek
//@ props C17
//@ ret r
//@ no-canary
//@ rewrite 1 "&array[self.cursor]" => "array.at(self.cursor)"
//@ rewrite 1 "&format!(\".$.[{}]\", self.cursor)" => "idx_suffix(self.cursor).as_str()"
//@ spec
        ensures
            r is Some <==> self.len > 0,
            // the scalar's own tetraplet, the element's position appended to the lens
            r matches Some(item) ==> item.tet() =~~= with_lens(self.call_result.stored(), idx_text(self.cursor)),
//@ end
}
impl<'ctx> Iterable<'ctx> for IterableLambdaResult {
    type Item = IterableItem<'ctx>;
    open spec fn peek_ok(&self) -> bool { self.cursor < self.jvalues@.len() || self.jvalues@.len() == 0 }
//@ lift air/src/execution_step/value_types/iterable/lambda_result.rs :: impl<'ctx> Iterable<'ctx> for IterableLambdaResult :: fn peek
//@ name IterableLambdaResult::peek
//@ props C17
//@ ret r
//@ no-canary
//@ rewrite 1 "&format!(\".$.[{}]\", self.cursor)" => "idx_suffix(self.cursor).as_str()"
//@ spec
        ensures
            r is Some <==> self.jvalues@.len() > 0,
            // the tetraplet of the lens result the fold iterates over, the element's position appended
            r matches Some(item) ==> item.tet() =~~= with_lens(self.tetraplet.tv(), idx_text(self.cursor)),
//@ end
}
impl<'ctx> Iterable<'ctx> for IterableVecResolvedCall {
    type Item = IterableItem<'ctx>;
    open spec fn peek_ok(&self) -> bool { self.cursor < self.call_results@.len() || self.call_results@.len() == 0 }
//@ lift air/src/execution_step/value_types/iterable/vec_resolved_call.rs :: impl<'ctx> Iterable<'ctx> for IterableVecResolvedCall :: fn peek
//@ name IterableVecResolvedCall::peek
//@ props C17
//@ ret r
//@ no-canary
//@ spec
        ensures
            r is Some <==> self.call_results@.len() > 0,
            // a stream element: the tetraplet stored with that element
            r matches Some(item) ==> item.tet() =~~= self.call_results@[self.cursor as int].stored(),
//@ end
}
impl<'ctx> Iterable<'ctx> for CanonStreamIterableIngredients {
    type Item = IterableItem<'ctx>;
    open spec fn peek_ok(&self) -> bool { self.cursor < self.canon_stream.values@.len() || self.canon_stream.values@.len() == 0 }
//@ lift air/src/execution_step/value_types/iterable/canon_stream.rs :: impl<'ctx> Iterable<'ctx> for CanonStreamIterableIngredients :: fn peek
//@ name CanonStreamIterableIngredients::peek
//@ props C17
//@ ret r
//@ no-canary
//@ spec
        ensures
            r is Some <==> self.canon_stream.values@.len() > 0,
            r matches Some(item) ==> item.tet() =~~= self.canon_stream.values@[self.cursor as int].stored(),
//@ end
}
impl<'ctx> Iterable<'ctx> for CanonStreamMapIterableIngredients {
    type Item = IterableItem<'ctx>;
    open spec fn peek_ok(&self) -> bool { self.cursor < self.values@.len() || self.values@.len() == 0 }
//@ lift air/src/execution_step/value_types/iterable/canon_stream_map.rs :: impl<'ctx> Iterable<'ctx> for CanonStreamMapIterableIngredients :: fn peek
//@ name CanonStreamMapIterableIngredients::peek
//@ props C17
//@ ret r
//@ no-canary
//@ spec
        ensures
            r is Some <==> self.values@.len() > 0,
            r matches Some(item) ==> item.tet() =~~= self.values@[self.cursor as int].stored(),
//@ end
}

impl<'ctx> IterableItem<'ctx> {
    pub open spec fn prov(&self) -> Provenance { match *self { IterableItem::RefValue(p) => p.3, IterableItem::RcValue(p) => p.3 } }
}
pub mod iterable_item_impl {
use super::*;
impl IterableItem<'_> {
// an iterator used as a value again (nested fold, ap): the item's tetraplet is what is stored -- as far as the representation holds it
//@ lift air/src/execution_step/value_types/iterable.rs :: impl IterableItem<'_> :: fn into_resolved_result
//@ name IterableItem::into_resolved_result
//@ props C17
//@ ret r
//@ spec
        ensures
            fits(self.prov(), self.tet()) ==> r.stored() =~~= self.tet(),
            r.stored().peer == self.tet().peer,
            self.prov() is ServiceResult ==> r.stored() == self.tet(),
//@ end
}
}

// ---------------------------------------------------------------- instructions/fold/utils.rs: what a fold over a lens result iterates
pub struct FoldIterableLog { pub x: u8 }
// `Box::new(foldable)` as IterableValue erases the type; the constructor's result is kept as a ghost on the side
//@ lift air/src/execution_step/instructions/fold/utils.rs :: fn to_tetraplet
//@ props C17
//@ ret r
//@ spec
    ensures r.tv() == iterable.tet()
//@ end
impl IterableLambdaResult {
//@ lift air/src/execution_step/value_types/iterable/lambda_result.rs :: impl IterableLambdaResult :: fn init
//@ name IterableLambdaResult::init
//@ props C17
//@ ret r
//@ spec
        ensures r.jvalues == jvalues, r.tetraplet == tetraplet, r.cursor == 0
//@ end
}
impl IterableResolvedCall {
//@ lift air/src/execution_step/value_types/iterable/resolved_call.rs :: impl IterableResolvedCall :: fn init
//@ name IterableResolvedCall::init
//@ props C17
//@ ret r
//@ spec
        ensures r.call_result == call_result, r.cursor == 0, r.len == len
//@ end
}

//@ lift air/src/execution_step/instructions/fold/utils.rs :: enum FoldIterableScalar
//@ derive
//@ end
//@ lift air/src/execution_step/instructions/fold/utils.rs :: fn to_provenance
//@ props C17
//@ end

// fold over `x.$.path` / `x.length`-like lens results: the iterated collection carries the source's tetraplet with the lens recorded
// (each item then appends its position: IterableLambdaResult::peek)
//@ lift air/src/execution_step/instructions/fold/utils.rs :: fn from_jvalue
//@ props C17
//@ ret r
//@ rewrite 1 "FoldIterableScalar::ScalarBased(Box::new(foldable))" => "FoldIterableScalar::ScalarBased(IterableValue::boxed_lambda_result(foldable))"
//@ before "let tetraplet = populate_tetraplet_with_lambda(tetraplet, lambda);"
    let ghost tetraplet0 = tetraplet.tv();
//@ after "let iterable = iterable.to_vec();"
    proof { assert(scalar_lensed(tetraplet0, *lambda, empty(), tetraplet.tv())); }
//@ spec
    ensures r matches Ok(FoldIterableScalar::ScalarBased(it)) ==> (it.source() matches IterSource::Lambda(f)
        && (f.cursor == 0 && f.jvalues@.len() > 0
        && scalar_lensed(tetraplet.tv(), *lambda, empty(), f.tetraplet.tv())))
//@ end

// fold over an array-valued scalar: the iterable keeps the value (and so its stored tetraplet) as it is
//@ lift air/src/execution_step/instructions/fold/utils.rs :: fn from_value
//@ props C17
//@ ret r
//@ rewrite 1 "let foldable = Box::new(foldable);" => "let foldable = IterableValue::boxed_resolved_call(foldable);"
//@ spec
    ensures r matches Ok(FoldIterableScalar::ScalarBased(it)) ==> (it.source() matches IterSource::Resolved(f)
        && (f.call_result == call_result && f.cursor == 0 && f.len > 0
        && (call_result.get_result_spec() matches JValue::Array(a) && f.len == a.alen())))
//@ end

//@ lift air/src/execution_step/instructions/fold/utils.rs :: fn create_scalar_iterable
//@ props C17
//@ ret r
//@ spec
    ensures r matches Ok(FoldIterableScalar::ScalarBased(it)) ==> (it.source() matches IterSource::Resolved(f)
        && (exec_ctx.scalars.value_spec(variable_name@) matches Ok(s)
        // the iterated value carries the tetraplet of what the name stands for (a fold iterator used as the collection of a nested
        // fold goes through ValueAggregate::new: exact whenever the representation can hold it)
        && ((s matches ScalarRef::Value(v) ==> f.call_result.stored() == v.stored())
        && (s matches ScalarRef::IterableValue(fs) ==> {
            let item = fs.iterable.peeked()->0;
            &&& fits(item.prov(), item.tet()) ==> f.call_result.stored() =~~= item.tet()
            &&& f.call_result.stored().peer == item.tet().peer
        }))))
//@ end

//@ lift air/src/execution_step/instructions/fold/utils.rs :: fn create_scalar_wl_iterable
//@ props C17
//@ ret r
//@ rewrite 1 "use crate::execution_step::lambda_applier::select_by_lambda_from_scalar;" => ""
//@ after "let iterable_value = fold_state.iterable.peek().unwrap();"
            proof { empty_strlit(); }
//@ spec
    ensures r matches Ok(FoldIterableScalar::ScalarBased(it)) ==> (it.source() matches IterSource::Lambda(f)
        && (exec_ctx.scalars.value_spec(scalar_iterable.name@) matches Ok(s)
        && (f.cursor == 0 && f.jvalues@.len() > 0
        && scalar_lensed(scalar_ref_tet(s), scalar_iterable.lambda, empty(), f.tetraplet.tv()))))
//@ end

} // verus!
fn main() {}
