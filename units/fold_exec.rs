//@ unit fold_exec
// The fold executors of air/src/execution_step/instructions: fold_scalar.rs, fold_stream.rs, fold_stream/stream_execute_helpers.rs,
// fold_stream/completeness_updater.rs, fold_stream_map.rs, fold/fold_state.rs, next.rs, the scalar-iterable constructors of
// fold/utils.rs that raise errors of their own (create_scalar_iterable, from_value, from_jvalue), and the recursive stream cursor
// air/src/execution_step/value_types/stream/recursive_stream.rs (every function but the iterator adapter).
//
// PART A (C13): RecursiveStreamCursor over the abstract stream view of units/streams.rs (`gens`, `flat`, `non_empty`, imported
// mechanically; the NewValuesMatrix / ValuesMatrix callee contracts are imported with `//@ stub streams :: ..`).
//   met_fold_start / met_iteration_end: the generations handed out are exactly `slices(stream, cursor)` = for each of the three
//   matrices `non_empty(view.skip(cursor))` (skip `cursor` generations counted WITH the empty ones, as the cursor counts them, then
//   drop the empty ones; skip saturating, as Iterator::skip is), every one of them non-empty, and afterwards the cursor holds the
//   RAW generation counts; a new empty generation is opened iff the fold continues. Lemma `cursor_visits_each_value_once` (a replay
//   harness): over met_fold_start, (appends to New, met_iteration_end)* until Exhausted, the concatenation of everything handed out
//   equals the stream's view -- every value exactly once, in stream order -- with NO requirement on empty generations anywhere.
//   History: FINDING F14 (repaired by 4f12881): met_iteration_end left an empty generation behind also when it reported Exhausted;
//   FINDING F14b (repaired by 181c0bf): slice_iter dropped the empty generations BEFORE skipping, so any empty generation in front
//   of the cursor (the one F14 left, or the open generation of an enclosing fold over the same stream) made the cursor overshoot and
//   the fold missed the values appended during its first round. With the old model the lemma needed "no empty generation in
//   new_values when the fold starts"; obligation `../leaves-dense` failed before 4f12881 and is kept as a regression guard
//   (replay/instr_findings_end_to_end.rs has the three end-to-end tests).
//
// PART B: the executors. Ghost logs as in xor.rs / control_exec.rs: `ExecutionCtx.log` has one `Ran{id, pre, res, post}` per child
// execution, where the snapshots hold the completeness flag and the table of registered fold states; `TraceHandler` carries the
// abstract state of every FoldFSM (queue of ctor states, cursor, flag -- the three things units/fold_fsm.rs's call-order facts
// speak about; `can_start_iteration` / `can_end_iteration` / `can_go_back` are IMPORTED from that unit, the transitions are its
// ensures clauses retyped over the abstract state) and a ghost log of the fold calls interleaved with `Child{id}` entries.
//   fold_stream: meet_fold_start, then per handed-out generation meet_iteration_start(first value) / body / meet_generation_end, then
//   meet_fold_end (`round_explained`, `stream_fold_spec`).
//   next: exactly one `next()` on the enclosing fold's iterable before the body of the next iteration and one `prev()` after it;
//   a missing fold state is the uncatchable FoldStateNotFound, never a panic. FINDING F13 (repaired by dc04e6f): the trace
//   handler's meet_iteration_end / meet_back_iterator used to need the call-order facts `can_end_iteration` / `can_go_back`, which
//   the code of `next` cannot establish -- a script whose `next i` sits in the body of an inner fold runs it twice per iteration
//   and the second meet_back_iterator panicked in SubTraceLoreCtorQueue::current. Now those calls are total (an out-of-order call
//   is the error NoFoldIterationStarted) and obligation `Next::execute/any-script` verifies with NO call-order precondition;
//   `Next::execute/in-order` adds that in call order every fold call `next` makes before the body is in order.
//   fold_scalar: joinable / other errors of the iterable constructors, Empty => the body is not executed; from_value / from_jvalue:
//   non-array => the catchable FoldIteratesOverNonArray.
//
// Trusted part of this file: opaque data (JValue with an `arr` view, ValueAggregate, tetraplets, Provenance, LambdaAST), TiVec (only
// its type), IterableValue = Box<dyn Iterable> as a ghost (values, cursor) pair with the contracts of foldable_next!/foldable_prev!
// and the five `peek`s, the UncatchableError shim, Scalars (table of fold states + call log), Streams / StreamMaps lookups, the
// TraceHandler shim described above, the leaf `Instruction::execute`, and the harness-only stub `fold_body_appends_to_new`.
use vstd::prelude::*;

//@ lift air/src/execution_step/errors/execution_errors.rs :: macro_rules trace_to_exec_err
//@ rewrite 1 "$trace_expr.map_err(|trace_error| {" => "::vstd::prelude::verus_exec_expr!{ $trace_expr.map_err(|trace_error: $crate::TraceHandlerError| -> (o: $crate::ExecutionError) ensures $crate::is_trace_error(o) {"
//@ rewrite 1 "})\n    };" => "}) }\n    };"
//@ end

//@ lift air/src/execution_step/instructions/mod.rs :: macro_rules joinable
//@ end

verus! {

use std::rc::Rc;
use core::marker::PhantomData;

// (the AST's `Seq` would shadow vstd's in PART B; one alias for both parts)
pub type Chars = vstd::seq::Seq<char>;

// ---------------------------------------------------------------- shim: opaque data (trusted)
#[derive(Clone, Copy)]
pub struct TracePos(pub u32);
pub struct ValueAggregate { pub x: u64 }
impl Clone for ValueAggregate { fn clone(&self) -> (r: Self) ensures r == *self { ValueAggregate { x: self.x } } }
impl ValueAggregate {
    pub uninterp spec fn trace_pos(&self) -> TracePos;
}

// ================================================================ PART A: the recursive stream cursor (C13)
//@ lift crates/air-lib/interpreter-data/src/generation_idx.rs :: type GenerationIdxType
//@ end
//@ lift crates/air-lib/interpreter-data/src/generation_idx.rs :: struct GenerationIdx
//@ derive Copy Clone
//@ rewrite 1 "GenerationIdx(GenerationIdxType)" => "GenerationIdx(pub GenerationIdxType)"
//@ end
impl vstd::std_specs::convert::FromSpecImpl<usize> for GenerationIdx {
    open spec fn obeys_from_spec() -> bool { true }
    open spec fn from_spec(v: usize) -> GenerationIdx { GenerationIdx(v as u32) }
}
//@ lift crates/air-lib/interpreter-data/src/generation_idx.rs :: impl From<usize> for GenerationIdx
//@ props C01
//@ end

// the type only: nothing here looks inside (every matrix operation is a stub whose contract unit `streams` proves)
pub struct TiVec<K, V> { pub v: Vec<V>, pub k: core::marker::PhantomData<K> }
impl<K, V> TiVec<K, V> {
    pub open spec fn view(&self) -> vstd::seq::Seq<V> { self.v@ }
}
pub const STREAM_MAX_SIZE: usize = 1024;

//@ import-spec streams :: gens flat non_empty
//@ lift air/src/execution_step/value_types/stream/values_matrix.rs :: struct ValuesMatrix
//@ pub-fields
//@ derive
//@ end
//@ lift air/src/execution_step/value_types/stream/values_matrix.rs :: struct NewValuesMatrix
//@ derive
//@ rewrite 1 "(ValuesMatrix<T>)" => "(pub ValuesMatrix<T>)"
//@ end
impl<T> ValuesMatrix<T> {
//@ import-spec streams :: ValuesMatrix::view ValuesMatrix::wf
//@ stub streams :: ValuesMatrix::generations_count
}
impl<T> NewValuesMatrix<T> {
//@ import-spec streams :: NewValuesMatrix::view NewValuesMatrix::wf
//@ stub streams :: NewValuesMatrix::add_new_empty_generation
//@ stub streams :: NewValuesMatrix::last_generation_is_empty
//@ stub streams :: NewValuesMatrix::remove_last_generation
//@ stub streams :: NewValuesMatrix::remove_empty_generations
//@ stub streams :: NewValuesMatrix::generations_count
}
//@ lift air/src/execution_step/value_types/stream/stream_definition.rs :: struct Stream
//@ pub-fields
//@ derive
//@ end

// Iterator::skip: yields nothing when asked to skip more than there is
pub open spec fn skip_sat<A>(s: vstd::seq::Seq<A>, n: int) -> vstd::seq::Seq<A> { if n >= s.len() { vstd::seq::Seq::empty() } else { s.skip(n) } }

//@ lift air/src/execution_step/value_types/stream/recursive_stream.rs :: struct StreamCursor
//@ derive Clone Copy
//@ end
//@ lift air/src/execution_step/value_types/stream/recursive_stream.rs :: struct RecursiveStreamCursor
//@ pub-fields
//@ derive Clone Copy
//@ end

// `slice_iter` returns `impl Iterator<Item = &[T]>`: opaque, with the sequence of slices it will yield as ghost state (as in streams.rs)
pub struct SliceIter<T> { pub g: Ghost<vstd::seq::Seq<vstd::seq::Seq<T>>> }

impl<T> Stream<T> {
    pub open spec fn wf(&self) -> bool { self.previous_values.wf() && self.current_values.wf() && self.new_values.wf() }
    // the stream as a peer sees it (verbatim from streams.rs)
    pub open spec fn view(&self) -> vstd::seq::Seq<T> { flat(self.previous_values@) + flat(self.current_values@) + flat(self.new_values@) }
    // C01: a memory bound -- fewer than 2^32 generations per matrix (`generations_count` truncates to u32)
    pub open spec fn fits(&self) -> bool {
        self.previous_values@.len() <= u32::MAX && self.current_values@.len() <= u32::MAX && self.new_values@.len() <= u32::MAX
    }
    // what a cursor makes slice_iter yield (since the F14b fix 181c0bf): per matrix, skip `cursor` generations -- counted with the
    // empty ones, exactly as `cursor()` counts them --, then drop the empty ones
    pub open spec fn slices(&self, c: StreamCursor) -> vstd::seq::Seq<vstd::seq::Seq<T>> {
        non_empty(skip_sat(self.previous_values@, c.previous_start_idx.0 as int))
            + non_empty(skip_sat(self.current_values@, c.current_start_idx.0 as int))
            + non_empty(skip_sat(self.new_values@, c.new_start_idx.0 as int))
    }
    // what `cursor()` returns: the RAW generation counts
    pub open spec fn counts(&self) -> StreamCursor {
        StreamCursor {
            previous_start_idx: GenerationIdx(self.previous_values@.len() as u32),
            current_start_idx: GenerationIdx(self.current_values@.len() as u32),
            new_start_idx: GenerationIdx(self.new_values@.len() as u32),
        }
    }
    // real: stream_definition.rs:64 `previous.slice_iter(c.previous).chain(current.slice_iter(c.current)).chain(new.slice_iter(c.new))`
    // with ValuesMatrix::slice_iter = `.iter().skip(n).filter(non-empty).map(as_ref)` (unit streams states the same per matrix:
    // `non_empty(view.skip(n))`; bounded native job C12.compactify checks it from every cursor)
    #[verifier::external_body]
    pub fn slice_iter(&self, cursor: StreamCursor) -> (r: SliceIter<T>)
        ensures r.g@ == self.slices(cursor)
    { unimplemented!() }

//@ lift air/src/execution_step/value_types/stream/stream_definition.rs :: impl<'value, T: 'value> Stream<T> :: fn cursor
//@ name Stream::cursor
//@ props C01 C13
//@ ret r
//@ spec
        requires self.fits()
        ensures r == self.counts()
//@ end
//@ lift air/src/execution_step/value_types/stream/stream_definition.rs :: impl<'value, T: 'value> Stream<T> :: fn new_values
//@ name Stream::new_values
//@ props C01 C13
//@ ret r
//@ spec
        ensures *r == old(self).new_values, final(self).new_values == *final(r),
            final(self).previous_values == old(self).previous_values, final(self).current_values == old(self).current_values,
//@ end
}

// ---------------------------------------------------------------- shim: IterableValue = Box<dyn for<'ctx> Iterable<'ctx, Item = IterableItem<'ctx>>> (trusted)
// The five implementations (value_types/iterable/*.rs) are a vector of values and a cursor; `next` / `prev` are the macros
// foldable_next! / foldable_prev! (iterable.rs), `peek` is `if empty { None } else { Some(values[cursor]) }`.
pub struct IterableItem<'ctx> { pub v: Ghost<ValueAggregate>, pub ph: PhantomData<&'ctx u8> }
impl<'ctx> IterableItem<'ctx> {
    pub open spec fn value(&self) -> ValueAggregate { self.v@ }
    #[verifier::external_body]
    pub fn pos(&self) -> (r: TracePos) ensures r == self.value().trace_pos() { unimplemented!() }
    #[verifier::external_body]
    pub fn into_resolved_result(self) -> (r: ValueAggregate) ensures r == self.value() { unimplemented!() }
}
pub type IterableValue = Box<IterableDyn>;
pub struct IterableDyn {
    pub vals: Ghost<vstd::seq::Seq<ValueAggregate>>,
    pub cursor: Ghost<nat>,
    pub nexts: Ghost<nat>,          // how many times `next()` was called on this object
    pub prevs: Ghost<nat>,          // ... and `prev()`
    pub x: u8,
}
impl IterableDyn {
    // type invariant of every implementation: the cursor stays inside a non-empty vector
    pub open spec fn wf(&self) -> bool { self.vals@.len() == 0 || self.cursor@ < self.vals@.len() }
    pub open spec fn after_next(&self) -> IterableDyn {
        IterableDyn { cursor: Ghost(if self.cursor@ + 1 < self.vals@.len() { self.cursor@ + 1 } else { self.cursor@ }), nexts: Ghost(self.nexts@ + 1), ..*self }
    }
    pub open spec fn after_prev(&self) -> IterableDyn {
        IterableDyn { cursor: Ghost(if self.cursor@ >= 1 { (self.cursor@ - 1) as nat } else { self.cursor@ }), prevs: Ghost(self.prevs@ + 1), ..*self }
    }
    #[verifier::external_body]
    pub fn next(&mut self) -> (r: bool)
        ensures *final(self) == old(self).after_next(), r == (old(self).cursor@ + 1 < old(self).vals@.len())
    { unimplemented!() }
    #[verifier::external_body]
    pub fn prev(&mut self) -> (r: bool)
        ensures *final(self) == old(self).after_prev(), r == (old(self).cursor@ >= 1)
    { unimplemented!() }
    // (`values[cursor]` in the real ones: the index is in range by `wf`)
    #[verifier::external_body]
    pub fn peek(&self) -> (r: Option<IterableItem<'_>>)
        requires self.wf()
        ensures r is Some <==> self.vals@.len() > 0, r matches Some(it) ==> it.value() == self.vals@[self.cursor@ as int]
    { unimplemented!() }
}

// the non-empty generations are non-empty, whatever is skipped (so the `None => continue` of execute_iterations never fires)
pub proof fn lemma_non_empty_dense<T>(m: vstd::seq::Seq<vstd::seq::Seq<T>>)
    ensures dense(non_empty(m))
    decreases m.len()
{
    let p = |g: vstd::seq::Seq<T>| g.len() != 0;
    if m.len() == 0 {
        assert(m.filter(p).len() == 0) by { reveal(vstd::seq::Seq::filter); }
    } else {
        lemma_non_empty_dense(m.drop_last());
        assert(m == m.drop_last().push(m.last()));
        assert(m.filter(p) == (if p(m.last()) { m.drop_last().filter(p).push(m.last()) } else { m.drop_last().filter(p) })) by { reveal(vstd::seq::Seq::filter); }
    }
}
pub proof fn lemma_slices_dense<T>(s: Stream<T>, c: StreamCursor)
    ensures dense(s.slices(c))
{
    let a = non_empty(skip_sat(s.previous_values@, c.previous_start_idx.0 as int));
    let b = non_empty(skip_sat(s.current_values@, c.current_start_idx.0 as int));
    let d = non_empty(skip_sat(s.new_values@, c.new_start_idx.0 as int));
    lemma_non_empty_dense(skip_sat(s.previous_values@, c.previous_start_idx.0 as int));
    lemma_non_empty_dense(skip_sat(s.current_values@, c.current_start_idx.0 as int));
    lemma_non_empty_dense(skip_sat(s.new_values@, c.new_start_idx.0 as int));
    assert forall|i: int| 0 <= i < (a + b + d).len() implies (#[trigger] (a + b + d)[i]).len() != 0 by {
        if i < a.len() { assert((a + b + d)[i] == a[i]); }
        else if i < a.len() + b.len() { assert((a + b + d)[i] == b[i - a.len()]); }
        else { assert((a + b + d)[i] == d[i - a.len() - b.len()]); }
    }
}
//@ lift air/src/execution_step/value_types/stream/recursive_stream.rs :: enum RecursiveCursorState
//@ derive
//@ end
// the generations a cursor state hands to the fold
pub open spec fn handed(r: RecursiveCursorState) -> vstd::seq::Seq<vstd::seq::Seq<ValueAggregate>> {
    match r {
        RecursiveCursorState::Continue(v) => v@.map_values(|it: IterableValue| it.vals@),
        RecursiveCursorState::Exhausted => vstd::seq::Seq::empty(),
    }
}
// every iterable handed out is fresh: cursor at its first value, never moved
pub open spec fn fresh_iterables(r: RecursiveCursorState) -> bool {
    r matches RecursiveCursorState::Continue(v) ==> forall|i: int| 0 <= i < v@.len() ==>
        (#[trigger] v@[i]).cursor@ == 0 && v@[i].nexts@ == 0 && v@[i].prevs@ == 0
}

impl RecursiveCursorState {
//@ lift air/src/execution_step/value_types/stream/recursive_stream.rs :: impl RecursiveCursorState :: fn from_iterable_values
//@ props C01 C13
//@ ret r
//@ spec
        ensures r == (if values@.len() == 0 { RecursiveCursorState::Exhausted } else { RecursiveCursorState::Continue(values) })
//@ end
//@ lift air/src/execution_step/value_types/stream/recursive_stream.rs :: impl RecursiveCursorState :: fn should_continue
//@ props C01 C13
//@ ret r
//@ spec
        ensures r == (self is Continue)
//@ end
}

impl StreamCursor {
//@ lift air/src/execution_step/value_types/stream/recursive_stream.rs :: impl StreamCursor :: fn empty
//@ props C01 C13
//@ ret r
//@ spec
        ensures r.previous_start_idx.0 == 0, r.current_start_idx.0 == 0, r.new_start_idx.0 == 0
//@ end
//@ lift air/src/execution_step/value_types/stream/recursive_stream.rs :: impl StreamCursor :: fn new
//@ props C01 C13
//@ ret r
//@ spec
        ensures r == (StreamCursor { previous_start_idx, current_start_idx, new_start_idx })
//@ end
}

//@ lift air/src/execution_step/value_types/stream/recursive_stream.rs :: fn remove_last_generation_if_empty
//@ props C01 C13
//@ spec
    requires old(stream).fits(), old(stream).wf()
    ensures
        final(stream).previous_values == old(stream).previous_values, final(stream).current_values == old(stream).current_values,
        final(stream).new_values@ =~= without_empty_tail(old(stream).new_values@),
        final(stream).wf(),
//@ at-end
        proof {
            let m = old(stream).new_values@;
            if m.len() > 0 && m.last().len() == 0 {
                assert(flat(m) =~= flat(m.drop_last()) + m.last());
                assert(flat(m.drop_last()) + m.last() =~= flat(m.drop_last()));
            }
        }
//@ end
// a matrix without its last generation if that one is empty
pub open spec fn without_empty_tail<T>(m: vstd::seq::Seq<vstd::seq::Seq<T>>) -> vstd::seq::Seq<vstd::seq::Seq<T>> {
    if m.len() > 0 && m.last().len() == 0 { m.drop_last() } else { m }
}

impl RecursiveStreamCursor {
    // real: recursive_stream.rs:86 `iter.map(|slice| Box::new(IterableVecResolvedCall::init(slice.to_vec()))).collect()`: one fresh
    // iterable (cursor 0) per slice, holding that slice's values in order
    #[verifier::external_body]
    pub fn slice_iter_to_iterable(iter: SliceIter<ValueAggregate>) -> (r: Vec<IterableValue>)
        ensures r@.map_values(|it: IterableValue| it.vals@) == iter.g@,
            forall|i: int| 0 <= i < r@.len() ==> (#[trigger] r@[i]).cursor@ == 0 && r@[i].nexts@ == 0 && r@[i].prevs@ == 0,
    { unimplemented!() }

//@ lift air/src/execution_step/value_types/stream/recursive_stream.rs :: impl RecursiveStreamCursor :: fn new
//@ name RecursiveStreamCursor::new
//@ props C01 C13
//@ ret r
//@ spec
        ensures r.cursor.previous_start_idx.0 == 0, r.cursor.current_start_idx.0 == 0, r.cursor.new_start_idx.0 == 0
//@ end

//@ lift air/src/execution_step/value_types/stream/recursive_stream.rs :: impl RecursiveStreamCursor :: fn cursor_state
//@ props C01 C13
//@ ret r
//@ before "let slice_iter = stream.slice_iter(self.cursor);"
        proof { lemma_slices_dense(*stream, self.cursor); }
//@ spec
        ensures handed(r) == stream.slices(self.cursor), r is Continue <==> stream.slices(self.cursor).len() > 0, fresh_iterables(r),
            dense(handed(r)),          // every generation handed out is non-empty
//@ end

// C13: the fold starts: everything from the cursor on is handed out, the cursor moves to the (raw) generation counts, and -- iff
// there is something to iterate over -- a new empty generation is opened so that the appends of the fold body land in it
//@ lift air/src/execution_step/value_types/stream/recursive_stream.rs :: impl RecursiveStreamCursor :: fn met_fold_start
//@ props C01 C13
//@ ret r
//@ spec
        requires old(stream).fits(), old(stream).wf()
        ensures
            handed(r) == old(stream).slices(old(self).cursor), r is Continue <==> handed(r).len() > 0, fresh_iterables(r), dense(handed(r)),
            final(self).cursor == old(stream).counts(),
            final(stream).previous_values == old(stream).previous_values, final(stream).current_values == old(stream).current_values,
            final(stream).new_values@ == (if r is Continue { old(stream).new_values@.push(vstd::seq::Seq::empty()) } else { old(stream).new_values@ }),
            final(stream).wf(), final(stream)@ == old(stream)@,
//@ end

// C13: an iteration round ended: what was appended since the cursor was taken is handed out; the generation opened for the round is
// dropped if nothing went into it, the cursor moves to the (raw) generation counts, and a new empty generation is opened IFF the
// fold continues (since the F14 fix; before it, unconditionally)
//@ lift air/src/execution_step/value_types/stream/recursive_stream.rs :: impl RecursiveStreamCursor :: fn met_iteration_end
//@ props C01 C13
//@ ret r
//@ spec
        requires old(stream).fits(), old(stream).wf()
        ensures
            handed(r) == old(stream).slices(old(self).cursor), r is Continue <==> handed(r).len() > 0, fresh_iterables(r), dense(handed(r)),
            final(self).cursor == (StreamCursor { new_start_idx: GenerationIdx(without_empty_tail(old(stream).new_values@).len() as u32), ..old(stream).counts() }),
            final(stream).previous_values == old(stream).previous_values, final(stream).current_values == old(stream).current_values,
            final(stream).new_values@ =~= (if r is Continue { without_empty_tail(old(stream).new_values@).push(vstd::seq::Seq::empty()) }
                                            else { without_empty_tail(old(stream).new_values@) }),
            final(stream).wf(), final(stream)@ == old(stream)@,
//@ end

// Regression guard for FINDING F14 (repaired by 4f12881): a fold that ends (the cursor reports Exhausted) does not leave the empty
// generation it opened behind. Before that fix met_iteration_end ended with an unconditional `add_new_empty_generation()` and this
// obligation failed. Since the F14b fix (181c0bf: slice_iter skips before it filters) lemma cursor_visits_each_value_once no longer
// NEEDS `new_values` to be free of empty generations, so this is hygiene (no generation leaks per fold), not a correctness premise.
// (no canary of its own: same body and precondition as the obligation above, which has one)
//@ lift air/src/execution_step/value_types/stream/recursive_stream.rs :: impl RecursiveStreamCursor :: fn met_iteration_end
//@ name RecursiveStreamCursor::met_iteration_end/leaves-dense
//@ props C13
//@ ret r
//@ sig 1 "fn met_iteration_end" => "fn met_iteration_end__leaves_dense"
//@ no-canary
//@ spec
        requires old(stream).fits(), old(stream).wf()
        ensures (r is Exhausted && dense(without_empty_tail(old(stream).new_values@))) ==> dense(final(stream).new_values@)
//@ end
}
pub open spec fn dense<T>(m: vstd::seq::Seq<vstd::seq::Seq<T>>) -> bool { forall|i: int| 0 <= i < m.len() ==> (#[trigger] m[i]).len() != 0 }

// ---------------------------------------------------------------- C13: the cursor protocol replayed (no repository code below this line of PART A)
pub proof fn lemma_flat_push<T>(m: vstd::seq::Seq<vstd::seq::Seq<T>>, g: vstd::seq::Seq<T>)
    ensures flat(m.push(g)) == flat(m) + g
{
    assert(m.push(g).drop_last() == m);
}
pub proof fn lemma_flat_concat<T>(a: vstd::seq::Seq<vstd::seq::Seq<T>>, b: vstd::seq::Seq<vstd::seq::Seq<T>>)
    ensures flat(a + b) == flat(a) + flat(b)
    decreases b.len()
{
    if b.len() == 0 {
        assert(a + b =~= a);
        assert(flat(a) + flat(b) =~= flat(a));
    } else {
        lemma_flat_concat(a, b.drop_last());
        assert(a + b =~= (a + b.drop_last()).push(b.last()));
        lemma_flat_push(a + b.drop_last(), b.last());
        assert((flat(a) + flat(b.drop_last())) + b.last() =~= flat(a) + (flat(b.drop_last()) + b.last()));
    }
}
pub proof fn lemma_non_empty_push<T>(m: vstd::seq::Seq<vstd::seq::Seq<T>>, g: vstd::seq::Seq<T>)
    ensures non_empty(m.push(g)) == (if g.len() != 0 { non_empty(m).push(g) } else { non_empty(m) })
{
    let p = |g: vstd::seq::Seq<T>| g.len() != 0;
    assert(m.push(g).drop_last() == m);
    assert(m.push(g).filter(p) == (if p(g) { m.filter(p).push(g) } else { m.filter(p) })) by { reveal(vstd::seq::Seq::filter); }
}
pub proof fn lemma_non_empty_id<T>(m: vstd::seq::Seq<vstd::seq::Seq<T>>)
    requires dense(m)
    ensures non_empty(m) == m
    decreases m.len()
{
    let p = |g: vstd::seq::Seq<T>| g.len() != 0;
    if m.len() == 0 {
        assert(m.filter(p).len() == 0) by { reveal(vstd::seq::Seq::filter); }
        assert(m.filter(p) =~= m);
    } else {
        lemma_non_empty_id(m.drop_last());
        assert(m == m.drop_last().push(m.last()));
        lemma_non_empty_push(m.drop_last(), m.last());
    }
}

// harness only (as `executor_runs_body` in fold_fsm.rs): what the fold body does to the stream between two cursor calls when its
// appends go to New -- Stream::add_value(_, Generation::New) = NewValuesMatrix::add_to_last_generation = push onto the LAST
// generation (unit streams proves size / flattened view / generation count of that function): only the last generation of
// `new_values` grows. No obligation on repository code depends on this stub.
#[verifier::external_body]
pub fn fold_body_appends_to_new(stream: &mut Stream<ValueAggregate>)
    requires old(stream).wf(), old(stream).new_values@.len() > 0
    ensures final(stream).wf(),
        final(stream).previous_values == old(stream).previous_values, final(stream).current_values == old(stream).current_values,
        final(stream).new_values@.len() == old(stream).new_values@.len(),
        final(stream).new_values@.drop_last() =~= old(stream).new_values@.drop_last(),
        old(stream).new_values@.last().is_prefix_of(final(stream).new_values@.last()),
{ unimplemented!() }

pub proof fn lemma_non_empty_flat<T>(m: vstd::seq::Seq<vstd::seq::Seq<T>>)
    ensures flat(non_empty(m)) == flat(m), non_empty(m).len() <= m.len()
    decreases m.len()
{
    let p = |g: vstd::seq::Seq<T>| g.len() != 0;
    if m.len() == 0 {
        assert(m.filter(p).len() == 0) by { reveal(vstd::seq::Seq::filter); }
    } else {
        lemma_non_empty_flat(m.drop_last());
        assert(m == m.drop_last().push(m.last()));
        lemma_non_empty_push(m.drop_last(), m.last());
        if p(m.last()) {
            lemma_flat_push(non_empty(m.drop_last()), m.last());
        } else {
            assert(flat(m.drop_last()) + m.last() =~= flat(m.drop_last()));
        }
    }
}

pub proof fn lemma_non_empty_single<T>(g: vstd::seq::Seq<T>)
    ensures non_empty(vstd::seq::Seq::<vstd::seq::Seq<T>>::empty().push(g))
        == (if g.len() != 0 { vstd::seq::Seq::<vstd::seq::Seq<T>>::empty().push(g) } else { vstd::seq::Seq::<vstd::seq::Seq<T>>::empty() }),
        non_empty(vstd::seq::Seq::<vstd::seq::Seq<T>>::empty()) == vstd::seq::Seq::<vstd::seq::Seq<T>>::empty(),
{
    let e = vstd::seq::Seq::<vstd::seq::Seq<T>>::empty();
    let p = |g: vstd::seq::Seq<T>| g.len() != 0;
    assert(e.filter(p).len() == 0) by { reveal(vstd::seq::Seq::filter); }
    assert(e.filter(p) =~= e);
    lemma_non_empty_push(e, g);
}

// C13: a fold over a stream visits every value exactly once, including the values appended while it runs.
// Over  met_fold_start, (the body appends to New, met_iteration_end)*  until the cursor reports Exhausted, the generations handed
// out, concatenated in the order they were handed out, ARE the stream as the peer sees it at the end (`Stream::view`): nothing is
// handed out twice, nothing is left out, order kept; every handed-out generation is non-empty. Replaces the bounded native job
// C13.cursor.
// NO requirement on empty generations anywhere (since the F14b fix 181c0bf, slice_iter skips `cursor` generations BEFORE it drops
// the empty ones, so the raw counts the cursor holds and the positions slice_iter skips agree by construction): the stream may hold
// padding generations from data in previous / current values, the open generation of an enclosing fold over the same stream, or
// (before 4f12881) the generation a finished fold left behind. What is left in `requires` are the type invariants only: `wf` (the
// size counters, unit streams) and the memory bound "fewer than 2^32 generations per matrix, with room for the harness's rounds".
//@ lemma cursor_visits_each_value_once props C13
pub fn cursor_visits_each_value_once(stream: &mut Stream<ValueAggregate>, fuel: u32) -> (r: (bool, Ghost<vstd::seq::Seq<vstd::seq::Seq<ValueAggregate>>>))
    requires old(stream).wf(),
        old(stream).previous_values@.len() <= u32::MAX, old(stream).current_values@.len() <= u32::MAX,
        old(stream).new_values@.len() + fuel + 1 <= u32::MAX,
    ensures
        final(stream).previous_values == old(stream).previous_values, final(stream).current_values == old(stream).current_values,
        // r.0: the cursor reported Exhausted (the fold ended) before the harness ran out of rounds
        r.0 ==> flat(r.1@) == final(stream)@ && dense(r.1@),
{
    let ghost p = stream.previous_values@;
    let ghost c = stream.current_values@;
    let ghost n0 = stream.new_values@;
    let mut cursor = RecursiveStreamCursor::new();
    let mut state = cursor.met_fold_start(stream);
    let ghost mut all = handed(state);
    proof {
        lemma_non_empty_flat(p); lemma_non_empty_flat(c); lemma_non_empty_flat(n0);
        assert(skip_sat(p, 0) =~= p); assert(skip_sat(c, 0) =~= c); assert(skip_sat(n0, 0) =~= n0);
        assert(all == non_empty(p) + non_empty(c) + non_empty(n0));
        lemma_flat_concat(non_empty(p) + non_empty(c), non_empty(n0));
        lemma_flat_concat(non_empty(p), non_empty(c));
    }
    if !state.should_continue() {
        return (true, Ghost(all));
    }
    proof {
        assert(stream.new_values@.drop_last() =~= n0);
    }
    let mut fuel = fuel;
    while state.should_continue() && fuel > 0
        invariant
            stream.wf(), stream.previous_values@ == p, stream.current_values@ == c,
            stream.previous_values == old(stream).previous_values, stream.current_values == old(stream).current_values,
            p.len() <= u32::MAX, c.len() <= u32::MAX,
            stream.new_values@.len() + fuel <= u32::MAX,
            dense(all),
            // while the fold continues: one open (still empty) generation after the closed ones; the cursor stands at it
            state is Continue ==> stream.new_values@.len() > 0 && stream.new_values@.last().len() == 0
                && cursor.cursor == (StreamCursor { new_start_idx: GenerationIdx((stream.new_values@.len() - 1) as u32), ..stream.counts() })
                && flat(all) == flat(p) + flat(c) + flat(stream.new_values@.drop_last()),
            // when it is over: everything was handed out
            !(state is Continue) ==> flat(all) == stream@,
        decreases fuel
    {
        fold_body_appends_to_new(stream);
        let ghost nn = stream.new_values@.drop_last();       // the closed generations (empty ones among them are fine)
        let ghost last = stream.new_values@.last();          // what this round appended
        let ghost all0 = all;
        let ghost e = vstd::seq::Seq::<vstd::seq::Seq<ValueAggregate>>::empty();
        proof {
            assert(stream.new_values@ =~= nn.push(last));
            // the cursor sits at the raw length of prev / current: nothing left to skip to; in new it sits at the open generation
            assert(skip_sat(p, p.len() as int) =~= e); assert(skip_sat(c, c.len() as int) =~= e);
            assert(skip_sat(nn.push(last), nn.len() as int) =~= e.push(last));
            lemma_non_empty_single(last);
        }
        state = cursor.met_iteration_end(stream);
        proof {
            let h = handed(state);
            assert(h =~= (if last.len() != 0 { e.push(last) } else { e }));
            all = all0 + h;
            lemma_flat_concat(all0, h);
            let n1 = without_empty_tail(nn.push(last));
            if last.len() != 0 {
                assert(n1 == nn.push(last));
                lemma_flat_push(e, last);
                assert(flat(e) =~= vstd::seq::Seq::<ValueAggregate>::empty());
                assert(flat(h) =~= last);
                lemma_flat_push(nn, last);
                assert((flat(p) + flat(c) + flat(nn)) + last =~= flat(p) + flat(c) + (flat(nn) + last));
                // the fold continues: a new open generation behind n1
                assert(stream.new_values@.drop_last() =~= n1);
            } else {
                assert(nn.push(last).drop_last() =~= nn);
                assert(n1 == nn);
                assert(flat(h) =~= vstd::seq::Seq::<ValueAggregate>::empty());
                assert(flat(all0) + flat(h) =~= flat(all0));
                // the fold is over: exactly the closed generations are left
                assert(stream.new_values@ =~= nn);
            }
            assert forall|i: int| 0 <= i < all.len() implies (#[trigger] all[i]).len() != 0 by {
                if i < all0.len() { assert(all[i] == all0[i]); } else { assert(all[i] == h[i - all0.len()]); }
            }
        }
        fuel = fuel - 1;
    }
    (!state.should_continue(), Ghost(all))
}
//@ end

// ================================================================ PART B: the executors
// ---------------------------------------------------------------- shim: more opaque data (trusted)
pub struct JArray { pub n: Ghost<nat>, pub x: u64 }
impl JArray {
    // real: `Rc<[JValue]>` (slice methods)
    #[verifier::external_body] pub fn is_empty(&self) -> (r: bool) ensures r == (self.n@ == 0) { unimplemented!() }
    #[verifier::external_body] pub fn len(&self) -> (r: usize) ensures r == self.n@ { unimplemented!() }
    #[verifier::external_body] pub fn to_vec(&self) -> (r: Vec<JValue>) ensures r@.len() == self.n@ { unimplemented!() }
}
// the JSON value: an array, or anything else
pub enum JValue { Array(JArray), Other(u64) }
impl Clone for JValue {
    #[verifier::external_body]
    fn clone(&self) -> (r: Self) ensures r == *self { unimplemented!() }
}
pub struct SecurityTetraplet { pub x: u64 }
pub type RcSecurityTetraplet = Rc<SecurityTetraplet>;
pub struct Provenance { pub x: u64 }
pub struct LambdaError { pub x: u8 }
pub struct ErrorObjectError { pub x: u8 }
pub struct StreamMapError { pub x: u8 }
pub struct TraceHandlerError { pub x: u8 }
pub type TraceHandlerResult<T> = Result<T, TraceHandlerError>;
#[derive(Clone, Copy)]
pub struct AirPos(pub usize);
//@ lift crates/air-lib/air-parser/src/parser/span.rs :: struct Span
//@ derive Clone Copy
//@ end
impl ValueAggregate {
    pub uninterp spec fn result(&self) -> JValue;
    #[verifier::external_body]
    pub fn get_result(&self) -> (r: &JValue) ensures *r == self.result() { unimplemented!() }
}

// ---------------------------------------------------------------- errors: real enums
// the variants the code lifted here constructs or must be told apart; every other uncatchable error is `Other`
pub enum UncatchableError {
    TraceError { trace_error: TraceHandlerError, instruction: String },
    FoldStateNotFound(String),
    MultipleIterableValues(String),
    Other(u8),
}
//@ lift air/src/execution_step/errors/catchable_errors.rs :: enum CatchableError
//@ derive
//@ end
//@ lift air/src/execution_step/errors/execution_errors.rs :: enum ExecutionError
//@ derive
//@ end
pub type ExecutionResult<T> = Result<T, ExecutionError>;
// the paths the lifted macros and function-local `use` items name
pub mod execution_step { pub use super::{ExecutionError, UncatchableError, Joinable}; }
impl vstd::std_specs::convert::FromSpecImpl<CatchableError> for ExecutionError {
    open spec fn obeys_from_spec() -> bool { true }
    open spec fn from_spec(c: CatchableError) -> ExecutionError { ExecutionError::Catchable(Rc::new(c)) }
}
//@ lift air/src/execution_step/errors/execution_errors.rs :: impl From<CatchableError> for ExecutionError
//@ props C01 C18
//@ end
//@ lift air/src/execution_step/errors/joinable.rs :: trait Joinable
//@ end
pub open spec fn catchable(e: ExecutionError) -> bool { e is Catchable }
pub open spec fn waiting(e: CatchableError) -> bool { e is VariableNotFound }
pub open spec fn joinable_err(e: ExecutionError) -> bool {
    match e { ExecutionError::Catchable(c) => waiting(*c), ExecutionError::Uncatchable(_) => false }
}
pub open spec fn is_trace_error(e: ExecutionError) -> bool { e matches ExecutionError::Uncatchable(u) && u is TraceError }
pub open spec fn is_fold_state_not_found(e: ExecutionError, name: Chars) -> bool {
    e matches ExecutionError::Uncatchable(UncatchableError::FoldStateNotFound(s)) && s@ == name
}
pub open spec fn is_multiple_iterable_values(e: ExecutionError, name: Chars) -> bool {
    e matches ExecutionError::Uncatchable(UncatchableError::MultipleIterableValues(s)) && s@ == name
}
impl CatchableError {
//@ lift air/src/execution_step/errors/catchable_errors.rs :: impl Joinable for CatchableError :: fn is_joinable
//@ props C01
//@ ret r
//@ rewrite 1 "log_join!(\"  waiting for an argument with name '{}'\", var_name);" => ""
//@ spec
        ensures r == waiting(*self)
//@ end
}
impl ExecutionError {
//@ lift air/src/execution_step/errors/execution_errors.rs :: impl ExecutionError :: fn is_catchable
//@ props C01 C18
//@ ret r
//@ spec
        ensures r == catchable(*self)
//@ end
//@ lift air/src/execution_step/errors/execution_errors.rs :: impl Joinable for ExecutionError :: fn is_joinable
//@ props C01
//@ ret r
//@ spec
        ensures r == joinable_err(*self), r ==> catchable(*self)
//@ end
}

// ---------------------------------------------------------------- the AST: real enum Instruction, real fold / next structs; the other kinds opaque
pub mod ast {
    use super::*;
    macro_rules! opaque_kind {
        ($name:ident) => { verus! { pub struct $name<'i> { pub x: u64, pub ph: PhantomData<&'i u8> } } };
    }
    opaque_kind!(Call); opaque_kind!(Ap); opaque_kind!(ApMap); opaque_kind!(Canon); opaque_kind!(CanonMap); opaque_kind!(CanonStreamMapScalar);
    opaque_kind!(Seq); opaque_kind!(Par); opaque_kind!(Xor); opaque_kind!(Match); opaque_kind!(MisMatch); opaque_kind!(Fail); opaque_kind!(New);
    opaque_kind!(LambdaAST);
    verus! { pub struct Never; pub struct Null; }
//@ lift crates/air-lib/air-parser/src/ast/values.rs :: struct Scalar
//@ derive
//@ end
//@ lift crates/air-lib/air-parser/src/ast/values.rs :: struct ScalarWithLambda
//@ derive
//@ end
//@ lift crates/air-lib/air-parser/src/ast/values.rs :: struct Stream
//@ derive
//@ end
//@ lift crates/air-lib/air-parser/src/ast/values.rs :: struct StreamMap
//@ derive
//@ end
//@ lift crates/air-lib/air-parser/src/ast/values.rs :: struct CanonStream
//@ derive
//@ end
//@ lift crates/air-lib/air-parser/src/ast/values.rs :: struct CanonStreamMap
//@ derive
//@ end
//@ lift crates/air-lib/air-parser/src/ast/values.rs :: struct CanonStreamMapWithLambda
//@ derive
//@ end
//@ lift crates/air-lib/air-parser/src/ast/instruction_arguments.rs :: enum FoldScalarIterable
//@ derive
//@ end
//@ lift crates/air-lib/air-parser/src/ast/instructions.rs :: enum Instruction
//@ derive
//@ end
//@ lift crates/air-lib/air-parser/src/ast/instructions.rs :: struct FoldScalar
//@ derive
//@ end
//@ lift crates/air-lib/air-parser/src/ast/instructions.rs :: struct FoldStream
//@ derive
//@ end
//@ lift crates/air-lib/air-parser/src/ast/instructions.rs :: struct FoldStreamMap
//@ derive
//@ end
//@ lift crates/air-lib/air-parser/src/ast/instructions.rs :: struct Next
//@ derive
//@ end
    impl<'i> Instruction<'i> {
        // which instruction this is: all these contracts need to know about a child
        pub uninterp spec fn id(&self) -> int;
    }
    // Display of the raw instruction: only rendered into the TraceError message
    // (`&impl ToString` parameters of the stream-fold helpers: the two fold instructions, rendered only into the TraceError message)
    pub trait ToStr { fn to_string(&self) -> String; }
    impl<'i> ToStr for FoldStream<'i> { #[verifier::external_body] fn to_string(&self) -> String { unimplemented!() } }
    impl<'i> ToStr for FoldStreamMap<'i> { #[verifier::external_body] fn to_string(&self) -> String { unimplemented!() } }
    impl<'i> Next<'i> { #[verifier::external_body] pub fn to_string(&self) -> String { unimplemented!() } }
    impl<'i> LambdaAST<'i> { #[verifier::external_body] pub fn to_string(&self) -> (r: String) ensures r@ == lambda_text(*self) { unimplemented!() } }
}
use ast::Instruction;
use ast::LambdaAST;
use ast::FoldScalarIterable;
use ast::Next;
use ast::ToStr;

// ---------------------------------------------------------------- fold/fold_state.rs (real)
//@ lift air/src/execution_step/instructions/fold/fold_state.rs :: enum IterableType
//@ derive Clone PartialEq Eq
//@ end
//@ lift air/src/execution_step/instructions/fold/fold_state.rs :: struct FoldState
//@ derive
//@ end
// a fold state without its lifetime: what the ghost snapshots keep of it
pub struct FoldAbs {
    pub iterable: IterableDyn,
    pub ty: IterableType,
    pub back_started: bool,
    pub head: int,                  // id of the body
    pub last: Option<int>,          // id of the last instruction, if any
}
pub open spec fn opt_id(o: Option<Rc<Instruction>>) -> Option<int> { match o { Some(i) => Some(i.id()), None => None } }
impl<'i> FoldState<'i> {
    pub open spec fn abs(&self) -> FoldAbs {
        FoldAbs { iterable: *self.iterable, ty: self.iterable_type, back_started: self.back_iteration_started,
                  head: self.instr_head.id(), last: opt_id(self.last_instr_head) }
    }
//@ lift air/src/execution_step/instructions/fold/fold_state.rs :: impl<'i> FoldState<'i> :: fn from_iterable
//@ props C01 C13
//@ ret r
//@ spec
        ensures r == (FoldState { iterable, iterable_type, back_iteration_started: false, instr_head, last_instr_head })
//@ end
}
// `Option::<Rc<T>>::clone`, spelled out (verified, not trusted)
pub fn clone_opt_rc<T>(o: &Option<Rc<T>>) -> (r: Option<Rc<T>>)
    ensures r == *o
{ match o { Some(t) => Some(t.clone()), None => None } }
pub type Iters = Map<Chars, FoldAbs>;
pub open spec fn abs_map<'i>(m: Map<Chars, FoldState<'i>>) -> Iters { m.map_values(|f: FoldState<'i>| f.abs()) }

// ---------------------------------------------------------------- shim: Scalars (trusted): the table of fold states + a log of the scope calls
pub enum SEv { FoldStart, FoldEnd, NextBefore, NextAfter }
pub type SLog = vstd::seq::Seq<SEv>;
pub enum ScalarRef<'i> {
    Value(&'i ValueAggregate),
    IterableValue(&'i FoldState<'i>),
}
pub struct Scalars<'i> {
    pub iterables: Ghost<Map<Chars, FoldState<'i>>>,     // real: `iterable_variables: HashMap<String, FoldState<'i>>`
    pub evs: Ghost<SLog>,                                 // meet_fold_start / meet_fold_end / meet_next_before / meet_next_after calls
    pub x: u8,
}
// what a scalar name resolves to: a function of the (read-only) table
pub uninterp spec fn scalar_value<'i>(s: Scalars<'i>, name: Chars) -> ExecutionResult<ScalarRef<'i>>;
impl<'i> Scalars<'i> {
    // real: scalar_variables.rs:203..227 -> three ValuesSparseMatrix depth counters (`current_depth += 1` / `-= 1` on usize:
    // the balance of these calls is what `fold_spec` / `next_spec` state through `evs`)
    #[verifier::external_body]
    pub fn meet_fold_start(&mut self)
        ensures final(self).iterables@ == old(self).iterables@, final(self).evs@ == old(self).evs@.push(SEv::FoldStart)
    { unimplemented!() }
    #[verifier::external_body]
    pub fn meet_fold_end(&mut self)
        ensures final(self).iterables@ == old(self).iterables@, final(self).evs@ == old(self).evs@.push(SEv::FoldEnd)
    { unimplemented!() }
    #[verifier::external_body]
    pub fn meet_next_before(&mut self)
        ensures final(self).iterables@ == old(self).iterables@, final(self).evs@ == old(self).evs@.push(SEv::NextBefore)
    { unimplemented!() }
    #[verifier::external_body]
    pub fn meet_next_after(&mut self)
        ensures final(self).iterables@ == old(self).iterables@, final(self).evs@ == old(self).evs@.push(SEv::NextAfter)
    { unimplemented!() }
    // real: scalar_variables.rs:136 `iterable_variables.entry(name)`: Vacant => insert, Occupied => MultipleIterableValues(name)
    #[verifier::external_body]
    pub fn set_iterable_value(&mut self, name: &str, fold_state: FoldState<'i>) -> (r: ExecutionResult<()>)
        ensures final(self).evs@ == old(self).evs@,
            !old(self).iterables@.contains_key(name@) ==> r is Ok && final(self).iterables@ == old(self).iterables@.insert(name@, fold_state),
            old(self).iterables@.contains_key(name@) ==> (r matches Err(e) && is_multiple_iterable_values(e, name@))
                && final(self).iterables@ == old(self).iterables@,
    { unimplemented!() }
    // real: scalar_variables.rs:152 `iterable_variables.remove(name)`
    #[verifier::external_body]
    pub fn remove_iterable_value(&mut self, name: &str)
        ensures final(self).evs@ == old(self).evs@, final(self).iterables@ == old(self).iterables@.remove(name@)
    { unimplemented!() }
    // real: scalar_variables.rs:160 `.get(name).ok_or_else(|| FoldStateNotFound(name))` (takes `&mut self`, changes nothing)
    #[verifier::external_body]
    pub fn get_iterable(&mut self, name: &str) -> (r: ExecutionResult<&FoldState<'i>>)
        ensures *final(self) == *old(self),
            old(self).iterables@.contains_key(name@) ==> (r matches Ok(fs) && *fs == old(self).iterables@[name@]),
            !old(self).iterables@.contains_key(name@) ==> (r matches Err(e) && is_fold_state_not_found(e, name@)),
    { unimplemented!() }
    // real: scalar_variables.rs:166 `.get_mut(name).ok_or_else(|| FoldStateNotFound(name))`: a mutable borrow of exactly that entry
    #[verifier::external_body]
    pub fn get_iterable_mut(&mut self, name: &str) -> (r: ExecutionResult<&mut FoldState<'i>>)
        ensures final(self).evs@ == old(self).evs@, final(self).x == old(self).x,
            old(self).iterables@.contains_key(name@) ==> (r matches Ok(fs) && *fs == old(self).iterables@[name@]
                && final(self).iterables@ == old(self).iterables@.insert(name@, *final(fs))),
            !old(self).iterables@.contains_key(name@) ==> (r matches Err(e) && is_fold_state_not_found(e, name@))
                && final(self).iterables@ == old(self).iterables@,
    { unimplemented!() }
    // real: scalar_variables.rs:184 (unit misc_c01 proves it total: F7); read-only
    #[verifier::external_body]
    pub fn get_value(&'i self, name: &str) -> (r: ExecutionResult<ScalarRef<'i>>)
        ensures r == scalar_value(*self, name@),
            // an iterator name resolves to its registered fold state
            r matches Ok(ScalarRef::IterableValue(fs)) ==> self.iterables@.contains_key(name@) && *fs == self.iterables@[name@],
    { unimplemented!() }
}

// ---------------------------------------------------------------- shim: trace handler (trusted): abstract FoldFSM states + ghost call log
//@ lift crates/air-lib/trace-handler/src/state_automata/fold_fsm/lore_ctor.rs :: enum CtorState
//@ derive PartialEq Eq Clone Copy
//@ end
// The three things of a FoldFSM the call-order facts of units/fold_fsm.rs speak about, under the names that unit uses, so that its
// spec functions can be imported verbatim: the ctor queue (only each ctor's typestate), the back-traversal cursor, the flag.
pub struct SubTraceLoreCtor { pub state: CtorState }
impl SubTraceLoreCtor { pub open spec fn st(&self) -> CtorState { self.state } }
pub struct LoreCtorDesc { pub ctor: SubTraceLoreCtor }
pub struct FoldFSM { pub queue: vstd::seq::Seq<LoreCtorDesc>, pub back_traversal_pos: nat, pub back_traversal_started: bool }
impl FoldFSM {
    pub open spec fn q(&self) -> vstd::seq::Seq<LoreCtorDesc> { self.queue }
    pub open spec fn pos(&self) -> nat { self.back_traversal_pos }
    pub open spec fn started(&self) -> bool { self.back_traversal_started }
}
//@ import-spec fold_fsm :: can_start_iteration can_end_iteration can_go_back
//@ import-spec lore_ctor :: next_state
// the transitions: the ensures clauses unit fold_fsm proves for the real FoldFSM methods, restricted to (q, pos, started). Since the
// F13 fix all of them are TOTAL (no call-order precondition); what fold_fsm proves only in call order (under `can_end_iteration` /
// `can_go_back` and its struct invariant, which follows in call order) is stated here under the same call-order antecedent.
pub open spec fn fsm_fresh(f: FoldFSM) -> bool { f.q().len() == 0 && f.pos() == 0 && !f.started() }
// there is an iteration under the cursor (`SubTraceLoreCtorQueue::current()` is Some)
pub open spec fn has_current(f: FoldFSM) -> bool { 1 <= f.pos() <= f.q().len() }
pub open spec fn fsm_iteration_started(f0: FoldFSM, f1: FoldFSM, ok: bool) -> bool {
    &&& f1.started() == f0.started()
    &&& !ok ==> f1.q() == f0.q() && f1.pos() == f0.pos()
    &&& ok ==> f1.q().len() == f0.q().len() + 1 && f1.pos() == f0.pos() + 1
            && (forall|i: int| 0 <= i < f0.q().len() ==> f1.q()[i] == f0.q()[i]) && f1.q().last().ctor.st() is BeforeStarted
}
pub open spec fn fsm_iteration_ended(f0: FoldFSM, f1: FoldFSM, ok: bool) -> bool {
    &&& f1.started() == f0.started() && f1.pos() == f0.pos() && f1.q().len() == f0.q().len()
    &&& forall|i: int| 0 <= i < f0.q().len() && i != f0.pos() - 1 ==> f1.q()[i] == f0.q()[i]
    // no iteration under the cursor: NoFoldIterationStarted, nothing changed
    &&& ok == has_current(f0)
    &&& !ok ==> f1.q() == f0.q()
    // otherwise that iteration's ctor steps on, whatever state it was in; in call order that is BeforeStarted -> BeforeCompleted
    &&& ok ==> f1.q()[f0.pos() - 1].ctor.st() == next_state(f0.q()[f0.pos() - 1].ctor.st())
}
// no iteration to turn round at / to come back to: NoFoldIterationStarted
pub open spec fn no_iteration_to_go_back(f: FoldFSM) -> bool { !has_current(f) || (f.started() && f.pos() == 1) }
pub open spec fn fsm_went_back(f0: FoldFSM, f1: FoldFSM, ok: bool) -> bool {
    &&& f1.q().len() == f0.q().len()
    &&& no_iteration_to_go_back(f0) ==> !ok
    &&& !has_current(f0) ==> f1.q() == f0.q() && f1.pos() == f0.pos() && f1.started() == f0.started()
    &&& !f0.started() ==> f1.pos() == f0.pos() && (ok ==> f1.started())
    &&& (f0.started() && has_current(f0)) ==> f1.pos() == f0.pos() - 1 && f1.started()
    // in call order (fold_fsm: under its struct invariant, which follows in call order)
    &&& can_go_back(f0) ==> {
            &&& f1.q()[f1.pos() - 1].ctor.st() is AfterStarted
            &&& f0.started() ==> f1.q()[f0.pos() - 1].ctor.st() is AfterCompleted
            &&& forall|i: int| 0 <= i < f0.q().len() && i != f1.pos() - 1 && i != f0.pos() - 1 ==> f1.q()[i] == f0.q()[i]
        }
}
pub enum TEv {
    FoldStart { id: int, ok: bool },
    IterationStart { id: int, pos: TracePos, ok: bool },
    IterationEnd { id: int, ok: bool },
    BackIterator { id: int, ok: bool },
    GenerationEnd { id: int, ok: bool },
    FoldEnd { id: int, ok: bool },
    Child { id: int },
}
pub type TLog = vstd::seq::Seq<TEv>;
pub type Folds = Map<int, FoldFSM>;
pub struct TraceHandler { pub folds: Ghost<Folds>, pub log: Ghost<TLog>, pub x: u8 }
// every fold but `id` is untouched
pub open spec fn others_same(a: Folds, b: Folds, id: int) -> bool {
    forall|k: int| #![trigger a.contains_key(k)] #![trigger b.contains_key(k)] k != id ==> (a.contains_key(k) == b.contains_key(k)) && (a.contains_key(k) ==> b[k] == a[k])
}
impl TraceHandler {
    // real (handler.rs:143): try_merge_next_state_as_fold (unit mergers), FoldFSM::from_fold_start (unit fold_fsm: empty queue,
    // cursor 0, flag false), fsm_keeper.add_fold(fold_id, fsm). Errors depend on hostile data.
    #[verifier::external_body]
    pub fn meet_fold_start(&mut self, fold_id: u32) -> (r: TraceHandlerResult<()>)
        ensures final(self).log@ == old(self).log@.push(TEv::FoldStart { id: fold_id as int, ok: r is Ok }),
            r is Err ==> final(self).folds@ == old(self).folds@,
            r is Ok ==> final(self).folds@.contains_key(fold_id as int) && fsm_fresh(final(self).folds@[fold_id as int])
                && others_same(old(self).folds@, final(self).folds@, fold_id as int),
    { unimplemented!() }
    // real (handler.rs:151): fsm_keeper.fold_mut(fold_id)? -- FoldFSMNotFound, no panic -- then FoldFSM::meet_iteration_start, whose
    // only precondition about the FSM in unit fold_fsm is the queue's own invariant pos <= len (no call-order fact any more)
    #[verifier::external_body]
    pub fn meet_iteration_start(&mut self, fold_id: u32, value_pos: TracePos) -> (r: TraceHandlerResult<()>)
        requires old(self).folds@.contains_key(fold_id as int) ==> old(self).folds@[fold_id as int].pos() <= old(self).folds@[fold_id as int].q().len()
        ensures final(self).log@ == old(self).log@.push(TEv::IterationStart { id: fold_id as int, pos: value_pos, ok: r is Ok }),
            others_same(old(self).folds@, final(self).folds@, fold_id as int),
            final(self).folds@.contains_key(fold_id as int) == old(self).folds@.contains_key(fold_id as int),
            !old(self).folds@.contains_key(fold_id as int) ==> r is Err,
            old(self).folds@.contains_key(fold_id as int) ==>
                fsm_iteration_started(old(self).folds@[fold_id as int], final(self).folds@[fold_id as int], r is Ok),
    { unimplemented!() }
    // real (handler.rs:158): FoldFSM::meet_iteration_end, TOTAL since the F13 fix (`current()` is an Option): no precondition;
    // NoFoldIterationStarted (propagated as an error) exactly when no iteration is under the cursor
    #[verifier::external_body]
    pub fn meet_iteration_end(&mut self, fold_id: u32) -> (r: TraceHandlerResult<()>)
        ensures final(self).log@ == old(self).log@.push(TEv::IterationEnd { id: fold_id as int, ok: r is Ok }),
            others_same(old(self).folds@, final(self).folds@, fold_id as int),
            final(self).folds@.contains_key(fold_id as int) == old(self).folds@.contains_key(fold_id as int),
            !old(self).folds@.contains_key(fold_id as int) ==> r is Err,
            old(self).folds@.contains_key(fold_id as int) ==>
                fsm_iteration_ended(old(self).folds@[fold_id as int], final(self).folds@[fold_id as int], r is Ok),
    { unimplemented!() }
    // real (handler.rs:165): FoldFSM::meet_back_iterator, TOTAL since the F13 fix (`current()` an Option at both sites,
    // `traverse_back()` saturating): no precondition; NoFoldIterationStarted exactly when `no_iteration_to_go_back`
    #[verifier::external_body]
    pub fn meet_back_iterator(&mut self, fold_id: u32) -> (r: TraceHandlerResult<()>)
        ensures final(self).log@ == old(self).log@.push(TEv::BackIterator { id: fold_id as int, ok: r is Ok }),
            others_same(old(self).folds@, final(self).folds@, fold_id as int),
            final(self).folds@.contains_key(fold_id as int) == old(self).folds@.contains_key(fold_id as int),
            !old(self).folds@.contains_key(fold_id as int) ==> r is Err,
            old(self).folds@.contains_key(fold_id as int) ==>
                fsm_went_back(old(self).folds@[fold_id as int], final(self).folds@[fold_id as int], r is Ok),
    { unimplemented!() }
    // real (handler.rs:172): FoldFSM::meet_generation_end -- NO call-order precondition in unit fold_fsm: it finishes whatever an
    // early exit left in the queue and resets the cursor and the flag
    #[verifier::external_body]
    pub fn meet_generation_end(&mut self, fold_id: u32) -> (r: TraceHandlerResult<()>)
        ensures final(self).log@ == old(self).log@.push(TEv::GenerationEnd { id: fold_id as int, ok: r is Ok }),
            others_same(old(self).folds@, final(self).folds@, fold_id as int),
            final(self).folds@.contains_key(fold_id as int) == old(self).folds@.contains_key(fold_id as int),
            r is Ok <==> old(self).folds@.contains_key(fold_id as int),
            old(self).folds@.contains_key(fold_id as int) ==> fsm_fresh(final(self).folds@[fold_id as int]),
    { unimplemented!() }
    // real (handler.rs:179): fsm_keeper.extract_fold(fold_id)? then FoldFSM::meet_fold_end (no call-order precondition)
    #[verifier::external_body]
    pub fn meet_fold_end(&mut self, fold_id: u32) -> (r: TraceHandlerResult<()>)
        ensures final(self).log@ == old(self).log@.push(TEv::FoldEnd { id: fold_id as int, ok: r is Ok }),
            r is Ok <==> old(self).folds@.contains_key(fold_id as int),
            final(self).folds@ == old(self).folds@.remove(fold_id as int),
    { unimplemented!() }
}

// ---------------------------------------------------------------- shim: the context (trusted layout; real accessors lifted)
pub struct InstructionTracker { pub x: u8 }
impl InstructionTracker {
    // real: execution-info-collector instructions_tracker.rs:96 `seen_stream_count += 1; seen_stream_count` (u32; 2^32 stream
    // folds in one run are out of reach of the run's time budget: not claimed)
    #[verifier::external_body]
    pub fn meet_fold_stream(&mut self) -> u32 { unimplemented!() }
}
// which stream a (name, position) pair denotes, if any (streams_variables.rs / stream_maps_variables.rs: `find_closest`)
pub type StreamKey = (Chars, usize);
pub struct Streams { pub tbl: Ghost<Map<StreamKey, Stream<ValueAggregate>>>, pub x: u8 }
pub struct StreamMaps { pub tbl: Ghost<Map<StreamKey, Stream<ValueAggregate>>>, pub x: u8 }    // each map's underlying stream
pub struct StreamRef { pub x: u8 }
impl StreamRef { #[verifier::external_body] pub fn is_none(&self) -> bool { unimplemented!() } }
impl Streams {
    // real: streams_variables.rs:52 `Option<&Stream>`; only `.is_none()` is asked of the result
    #[verifier::external_body]
    pub fn get(&self, name: &str, position: AirPos) -> (r: Option<&Stream<ValueAggregate>>)
        ensures r is Some <==> self.tbl@.contains_key((name@, position.0)), r matches Some(s) ==> *s == self.tbl@[(name@, position.0)]
    { unimplemented!() }
}
impl StreamMaps {
    // real: stream_maps_variables.rs:110 `Option<&StreamMap>`
    #[verifier::external_body]
    pub fn get(&self, name: &str, position: AirPos) -> (r: Option<&Stream<ValueAggregate>>)
        ensures r is Some <==> self.tbl@.contains_key((name@, position.0)), r matches Some(s) ==> *s == self.tbl@[(name@, position.0)]
    { unimplemented!() }
}

pub struct Snap {
    pub complete: bool,        // ExecutionCtx::subgraph_completeness
    pub iters: Iters,          // the registered fold states (Scalars.iterables), without lifetimes
    pub sevs: SLog,            // Scalars.evs
}
// one child execution, as recorded in the ghost log
pub struct Ran {
    pub id: int,
    pub pre: Snap,
    pub res: ExecutionResult<()>,
    pub post: Snap,
}
pub type Log = vstd::seq::Seq<Ran>;
pub struct ExecutionCtx<'i> {
    pub scalars: Scalars<'i>,
    pub streams: Streams,
    pub stream_maps: StreamMaps,
    pub subgraph_completeness: bool,
    pub tracker: InstructionTracker,
    pub log: Ghost<Log>,
}
impl<'i> ExecutionCtx<'i> {
    pub open spec fn iters(&self) -> Iters { abs_map(self.scalars.iterables@) }
    pub open spec fn snap(&self) -> Snap { Snap { complete: self.subgraph_completeness, iters: self.iters(), sevs: self.scalars.evs@ } }
    pub open spec fn same_but_complete(&self, o: &Self) -> bool {
        self.scalars == o.scalars && self.streams == o.streams && self.stream_maps == o.stream_maps && self.tracker == o.tracker && self.log@ == o.log@
    }
}
impl ExecutionCtx<'_> {
//@ lift air/src/execution_step/execution_context/context.rs :: impl ExecutionCtx<'_> :: fn make_subgraph_incomplete
//@ props C01
//@ spec
        ensures !final(self).subgraph_completeness, final(self).same_but_complete(old(self))
//@ end
//@ lift air/src/execution_step/execution_context/context.rs :: impl ExecutionCtx<'_> :: fn is_subgraph_complete
//@ props C01
//@ ret r
//@ spec
        ensures r == self.subgraph_completeness
//@ end
//@ lift air/src/execution_step/execution_context/context.rs :: impl ExecutionCtx<'_> :: fn set_subgraph_completeness
//@ props C01
//@ spec
        ensures final(self).subgraph_completeness == subgraph_complete, final(self).same_but_complete(old(self))
//@ end
//@ lift air/src/execution_step/execution_context/context.rs :: impl ExecutionCtx<'_> :: fn flush_subgraph_completeness
//@ props C01
//@ spec
        ensures final(self).subgraph_completeness, final(self).same_but_complete(old(self))
//@ end
}

// what a child execution may do (ASSUMED of the opaque child, PROVED for `next`):
// ... to the registered fold states: a state is registered once, by `fold`, with its type; afterwards only its iterable's cursor
// and its back flag change (next.rs) -- a name that stays registered keeps its type (the nested fold that would re-register it
// is the uncatchable MultipleIterableValues)
pub open spec fn iters_types_kept(a: Iters, b: Iters) -> bool {
    forall|k: Chars| #![trigger a.contains_key(k)] #![trigger b.contains_key(k)] a.contains_key(k) && b.contains_key(k) ==> b[k].ty == a[k].ty
}
// ... and to the streams: a stream that a (name, position) pair denotes keeps being denoted by it (scopes opened by the child are
// closed by it: unit control_exec, `balanced`)
pub open spec fn streams_kept(a: ExecutionCtx, b: ExecutionCtx) -> bool {
    a.streams.tbl@.dom().subset_of(b.streams.tbl@.dom()) && a.stream_maps.tbl@.dom().subset_of(b.stream_maps.tbl@.dom())
}
// type invariant of the context: every registered fold state iterates over a NON-EMPTY collection with its cursor inside it
// (`peek().expect(PEEK_ALLOWED_ON_NON_EMPTY)` / `.unwrap()` in fold/utils.rs, next.rs, scalar.rs rely on it). Required and
// re-established by every instruction: assumed of the opaque child, PROVED at every site that registers or moves a fold state.
pub open spec fn iters_wf(m: Iters) -> bool {
    forall|k: Chars| m.contains_key(k) ==> (#[trigger] m[k]).iterable.vals@.len() > 0 && m[k].iterable.wf()
}
// standing assumption about every context state (memory bound + the representation invariant unit `streams` proves of every
// stream operation): each stream is well formed and has fewer than 2^32 - 1 generations per matrix
pub open spec fn stream_ok(s: Stream<ValueAggregate>) -> bool { s.wf() && s.fits() && s.new_values@.len() < u32::MAX }
pub open spec fn streams_ok(c: ExecutionCtx) -> bool {
    &&& forall|k: StreamKey| c.streams.tbl@.contains_key(k) ==> stream_ok(#[trigger] c.streams.tbl@[k])
    &&& forall|k: StreamKey| c.stream_maps.tbl@.contains_key(k) ==> stream_ok(#[trigger] c.stream_maps.tbl@[k])
}
impl<'i> Instruction<'i> {
    // the child of a compound instruction: an arbitrary instruction, known by its id
    #[verifier::external_body]
    pub fn execute(&self, exec_ctx: &mut ExecutionCtx<'i>, trace_ctx: &mut TraceHandler) -> (r: ExecutionResult<()>)
        requires iters_wf(old(exec_ctx).iters())
        ensures
            iters_wf(final(exec_ctx).iters()), streams_ok(*final(exec_ctx)),
            final(exec_ctx).log@ == old(exec_ctx).log@.push(
                Ran { id: self.id(), pre: old(exec_ctx).snap(), res: r, post: final(exec_ctx).snap() }),
            final(trace_ctx).log@ == old(trace_ctx).log@.push(TEv::Child { id: self.id() }),
            streams_kept(*old(exec_ctx), *final(exec_ctx)),
            iters_types_kept(old(exec_ctx).iters(), final(exec_ctx).iters()),
    { unimplemented!() }
}

// ================================================================ fold_scalar.rs :: fn fold  (the one place a fold state is registered; used by every fold)
// the fold state is registered under the iterator's name, the body runs exactly once with it, the state is removed again --
// whatever the body returned; a name that is already taken is the uncatchable MultipleIterableValues and the body does not run
pub open spec fn fold_spec(state: FoldAbs, name: Chars, body: int, c0: ExecutionCtx, c1: ExecutionCtx, t0: TraceHandler, t1: TraceHandler, r: ExecutionResult<()>) -> bool {
    if c0.iters().contains_key(name) {
        &&& r matches Err(e) && is_multiple_iterable_values(e, name)
        &&& c1.log@ == c0.log@ && t1 == t0 && c1.iters() == c0.iters() && c1.subgraph_completeness == c0.subgraph_completeness
        &&& c1.streams == c0.streams && c1.stream_maps == c0.stream_maps
    } else {
        let ran = c1.log@[c0.log@.len() as int];
        &&& c1.log@ =~= c0.log@.push(ran) && ran.id == body
        &&& t1.log@ =~= t0.log@.push(TEv::Child { id: body })
        // entered with the state registered (and the scalars told that a fold starts) ...
        &&& ran.pre == (Snap { complete: c0.subgraph_completeness, iters: c0.iters().insert(name, state), sevs: c0.scalars.evs@.push(SEv::FoldStart) })
        // ... left with it removed (and the scalars told that the fold ends): on every path
        &&& c1.snap() == (Snap { complete: ran.post.complete, iters: ran.post.iters.remove(name), sevs: ran.post.sevs.push(SEv::FoldEnd) })
        &&& r == ran.res
        &&& streams_kept(c0, c1) && streams_ok(c1)
    }
}
pub proof fn lemma_abs_insert<'i>(m: Map<Chars, FoldState<'i>>, k: Chars, f: FoldState<'i>)
    ensures abs_map(m.insert(k, f)) =~= abs_map(m).insert(k, f.abs())
{ }
pub proof fn lemma_abs_remove<'i>(m: Map<Chars, FoldState<'i>>, k: Chars)
    ensures abs_map(m.remove(k)) =~= abs_map(m).remove(k)
{ }

//@ lift air/src/execution_step/instructions/fold_scalar.rs :: fn fold
//@ props C01 C13
//@ ret r
//@ after "exec_ctx.scalars.set_iterable_value(iterator, fold_state)?;"
    proof { lemma_abs_insert(old(exec_ctx).scalars.iterables@, iterator@, fold_state); }
//@ before "exec_ctx.scalars.remove_iterable_value(iterator);"
    proof { lemma_abs_remove(exec_ctx.scalars.iterables@, iterator@); }
//@ spec
    requires iters_wf(old(exec_ctx).iters()),
        // the iterable being registered is non-empty (PROVED by the callers: fold_scalar from the constructors' contracts, fold_stream from `peek()`)
        iterable.vals@.len() > 0, iterable.wf(),
    ensures fold_spec(
        FoldAbs { iterable: *iterable, ty: iterable_type, back_started: false, head: instruction.id(), last: opt_id(last_instruction) },
        iterator@, instruction.id(), *old(exec_ctx), *final(exec_ctx), *old(trace_ctx), *final(trace_ctx), r),
        iters_wf(final(exec_ctx).iters()),
//@ end

// ================================================================ fold/utils.rs: the scalar-iterable constructors that raise errors of their own
pub const PEEK_ALLOWED_ON_NON_EMPTY: &'static str = "peek always return elements inside fold";
//@ lift air/src/execution_step/instructions/fold/utils.rs :: enum FoldIterableScalar
//@ derive
//@ end
pub struct IterableResolvedCall { pub x: u8 }
impl IterableResolvedCall {
    // real: value_types/iterable/resolved_call.rs: {call_result, cursor: 0, len}; its `peek` indexes `array[cursor]` and is
    // `unimplemented!` for a non-array result: the caller must pass an array result and its length
    #[verifier::external_body]
    pub fn init(call_result: ValueAggregate, len: usize) -> (r: IterableDyn)
        requires call_result.result() matches JValue::Array(a) && a.n@ == len
        ensures r.vals@.len() == len, r.cursor@ == 0, r.nexts@ == 0, r.prevs@ == 0
    { unimplemented!() }
}
pub struct IterableLambdaResult { pub x: u8 }
impl IterableLambdaResult {
    // real: value_types/iterable/lambda_result.rs: {jvalues, tetraplet, provenance, cursor: 0}
    #[verifier::external_body]
    pub fn init(jvalues: Vec<JValue>, tetraplet: RcSecurityTetraplet, provenance: Provenance) -> (r: IterableDyn)
        ensures r.vals@.len() == jvalues@.len(), r.cursor@ == 0, r.nexts@ == 0, r.prevs@ == 0
    { unimplemented!() }
}
// real: value_types/utils.rs:23 (adds the lens text to the tetraplet)
#[verifier::external_body]
pub fn populate_tetraplet_with_lambda(tetraplet: SecurityTetraplet, lambda: &LambdaAST<'_>) -> SecurityTetraplet { unimplemented!() }

pub open spec fn fresh_nonempty(it: IterableDyn, len: nat) -> bool {
    it.vals@.len() == len && len > 0 && it.cursor@ == 0 && it.nexts@ == 0 && it.prevs@ == 0
}
// C18: folding over a non-array is the CATCHABLE error FoldIteratesOverNonArray carrying the value and the expression's text
pub open spec fn is_non_array_error(e: ExecutionError, v: JValue, text: Chars) -> bool {
    e matches ExecutionError::Catchable(c) && (*c matches CatchableError::FoldIteratesOverNonArray(j, s) && j == v && s@ == text)
}
// what a JSON value gives as a fold iterable: non-array => the catchable error; empty array => Empty (the fold is skipped);
// otherwise a fresh iterable over exactly the array's elements
pub open spec fn iterable_from(v: JValue, text: Chars, r: ExecutionResult<FoldIterableScalar>) -> bool {
    match v {
        JValue::Array(a) => if a.n@ == 0 { r matches Ok(FoldIterableScalar::Empty) }
            else { r matches Ok(FoldIterableScalar::ScalarBased(it)) && fresh_nonempty(*it, a.n@) },
        other => r matches Err(e) && is_non_array_error(e, other, text),
    }
}
//@ lift air/src/execution_step/instructions/fold/utils.rs :: fn from_value
//@ props C01 C18
//@ ret r
//@ spec
    ensures iterable_from(call_result.result(), variable_name@, r)
//@ end

pub uninterp spec fn lambda_text(l: LambdaAST) -> Chars;
//@ lift air/src/execution_step/instructions/fold/utils.rs :: fn from_jvalue
//@ props C01 C18
//@ ret r
//@ spec
    ensures iterable_from(*jvalue, lambda_text(*lambda), r)
//@ end

// the value a scalar name stands for when it is used as a fold iterable: a scalar's value, or the CURRENT element of an enclosing fold
pub open spec fn scalar_jvalue<'i>(sr: ScalarRef<'i>) -> JValue {
    match sr {
        ScalarRef::Value(v) => v.result(),
        ScalarRef::IterableValue(fs) => fs.iterable.vals@[fs.iterable.cursor@ as int].result(),
    }
}
// (fold scalar i ..): resolution errors are handed on unchanged; otherwise `iterable_from` of the value
pub open spec fn scalar_iterable_spec<'i>(res: ExecutionResult<ScalarRef<'i>>, name: Chars, r: ExecutionResult<FoldIterableScalar>) -> bool {
    match res {
        Err(e) => r matches Err(e2) && e2 == e,
        Ok(sr) => iterable_from(scalar_jvalue(sr), name, r),
    }
}
//@ lift air/src/execution_step/instructions/fold/utils.rs :: fn create_scalar_iterable
//@ props C01 C18
//@ ret r
//@ before "let iterable_value = fold_state.iterable.peek().expect(PEEK_ALLOWED_ON_NON_EMPTY);"
            proof {
                assert(exec_ctx.iters().contains_key(variable_name@));
                assert(exec_ctx.iters()[variable_name@] == fold_state.abs());
            }
//@ spec
    requires iters_wf(exec_ctx.iters())
    ensures scalar_iterable_spec(scalar_value(exec_ctx.scalars, variable_name@), variable_name@, r)
//@ end

// the other four constructors are not lifted (lens application, canon stream clones, HashSet de-duplication): their result is a
// function of the clause and the (read-only) context; read from the source: every ScalarBased iterable they return is fresh and
// NON-EMPTY (utils.rs:90 `canon_stream.is_empty()`, :107 `canon_stream_map.is_empty()` -- every element of a CanonStreamMap is a
// valid key/value pair by construction (canon_stream_map.rs from_canon_stream) so the de-duplicated vector is non-empty --, and
// from_jvalue above for the two lens forms)
pub uninterp spec fn other_iterable(it: ast::FoldScalarIterable, c: ExecutionCtx) -> ExecutionResult<FoldIterableScalar>;
pub open spec fn made_ok(r: ExecutionResult<FoldIterableScalar>) -> bool {
    r matches Ok(FoldIterableScalar::ScalarBased(it)) ==> fresh_nonempty(*it, it.vals@.len())
}
#[verifier::external_body]
pub fn create_scalar_wl_iterable<'ctx>(scalar_iterable: &ast::ScalarWithLambda<'ctx>, exec_ctx: &ExecutionCtx<'ctx>) -> (r: ExecutionResult<FoldIterableScalar>)
    ensures r == other_iterable(ast::FoldScalarIterable::ScalarWithLambda(*scalar_iterable), *exec_ctx), made_ok(r)
{ unimplemented!() }
#[verifier::external_body]
pub fn create_canon_stream_iterable_value<'ctx>(ast_canon_stream: &ast::CanonStream<'ctx>, exec_ctx: &ExecutionCtx<'ctx>) -> (r: ExecutionResult<FoldIterableScalar>)
    ensures r == other_iterable(ast::FoldScalarIterable::CanonStream(*ast_canon_stream), *exec_ctx), made_ok(r)
{ unimplemented!() }
#[verifier::external_body]
pub fn create_canon_stream_map_iterable_value(ast_canon_stream_map: &ast::CanonStreamMap<'_>, exec_ctx: &ExecutionCtx<'_>) -> (r: ExecutionResult<FoldIterableScalar>)
    ensures r == other_iterable(ast::FoldScalarIterable::CanonStreamMap(*ast_canon_stream_map), *exec_ctx), made_ok(r)
{ unimplemented!() }
#[verifier::external_body]
pub fn create_canon_stream_map_wl_iterable_value(ast_canon_stream_map: &ast::CanonStreamMapWithLambda<'_>, exec_ctx: &ExecutionCtx<'_>) -> (r: ExecutionResult<FoldIterableScalar>)
    ensures r == other_iterable(ast::FoldScalarIterable::CanonStreamMapWithLambda(*ast_canon_stream_map), *exec_ctx), made_ok(r)
{ unimplemented!() }

// ================================================================ fold_scalar.rs :: FoldScalar::execute
// nothing ran, nothing changed
pub open spec fn untouched(c0: ExecutionCtx, c1: ExecutionCtx, t0: TraceHandler, t1: TraceHandler) -> bool { c1 == c0 && t1 == t0 }
// the iterable could not be made: wait if the variable may still arrive (Ok, subgraph incomplete), fail otherwise; the body does not run
pub open spec fn not_made(e: ExecutionError, c0: ExecutionCtx, c1: ExecutionCtx, t0: TraceHandler, t1: TraceHandler, r: ExecutionResult<()>) -> bool {
    t1 == t0 && c1.log@ == c0.log@
        && (if joinable_err(e) { r is Ok && !c1.subgraph_completeness && c1.same_but_complete(&c0) } else { (r matches Err(e2) && e2 == e) && c1 == c0 })
}
// the body ran exactly once, as `fold` runs it, over a fresh non-empty iterable of `len` elements, as a SCALAR fold
pub open spec fn scalar_fold_ran(f: ast::FoldScalar, len: nat, c0: ExecutionCtx, c1: ExecutionCtx, t0: TraceHandler, t1: TraceHandler, r: ExecutionResult<()>) -> bool {
    let name = f.iterator.name@;
    let st = c1.log@[c0.log@.len() as int].pre.iters[name];
    &&& fold_spec(st, name, f.instruction.id(), c0, c1, t0, t1, r)
    &&& !c0.iters().contains_key(name) ==> fresh_nonempty(st.iterable, len) && st.ty is Scalar && !st.back_started
            && st.head == f.instruction.id() && st.last == opt_id(f.last_instruction)
}
pub open spec fn made_outcome(f: ast::FoldScalar, res: ExecutionResult<FoldIterableScalar>, c0: ExecutionCtx, c1: ExecutionCtx, t0: TraceHandler, t1: TraceHandler, r: ExecutionResult<()>) -> bool {
    match res {
        Err(e) => not_made(e, c0, c1, t0, t1, r),
        // an empty iterable: the body is NOT executed
        Ok(FoldIterableScalar::Empty) => r is Ok && untouched(c0, c1, t0, t1),
        Ok(FoldIterableScalar::ScalarBased(it)) => scalar_fold_ran(f, it.vals@.len(), c0, c1, t0, t1, r),
    }
}
// what a JSON value gives: see `iterable_from`
pub open spec fn value_outcome(f: ast::FoldScalar, v: JValue, text: Chars, c0: ExecutionCtx, c1: ExecutionCtx, t0: TraceHandler, t1: TraceHandler, r: ExecutionResult<()>) -> bool {
    match v {
        JValue::Array(a) => if a.n@ == 0 { r is Ok && untouched(c0, c1, t0, t1) } else { scalar_fold_ran(f, a.n@, c0, c1, t0, t1, r) },
        // C18: the fold's own error is catchable (it is not joinable, so it is handed on), and the body does not run
        other => (r matches Err(e) && is_non_array_error(e, other, text)) && untouched(c0, c1, t0, t1),
    }
}
pub open spec fn fold_scalar_spec(f: ast::FoldScalar, c0: ExecutionCtx, c1: ExecutionCtx, t0: TraceHandler, t1: TraceHandler, r: ExecutionResult<()>) -> bool {
    match f.iterable {
        // "just do nothing on an empty array"
        ast::FoldScalarIterable::EmptyArray => r is Ok && untouched(c0, c1, t0, t1),
        ast::FoldScalarIterable::Scalar(s) => match scalar_value(c0.scalars, s.name@) {
            Err(e) => not_made(e, c0, c1, t0, t1, r),
            Ok(sr) => value_outcome(f, scalar_jvalue(sr), s.name@, c0, c1, t0, t1, r),
        },
        other => made_outcome(f, other_iterable(other, c0), c0, c1, t0, t1, r),
    }
}

// (`Option<Rc<_>>::clone` has no usable specification in vstd; `clone_opt_rc` is its definition, verified -- as in control_exec.rs)
impl<'i> ast::FoldScalar<'i> {
//@ lift air/src/execution_step/instructions/fold_scalar.rs :: impl<'i> ExecutableInstruction<'i> for FoldScalar<'i> :: fn execute
//@ name FoldScalar::execute
//@ props C01 C13 C18
//@ ret r
//@ rewrite 1 "self.last_instruction.clone()" => "clone_opt_rc(&self.last_instruction)"
//@ spec
        requires iters_wf(old(exec_ctx).iters())
        ensures fold_scalar_spec(*self, *old(exec_ctx), *final(exec_ctx), *old(trace_ctx), *final(trace_ctx), r),
            iters_wf(final(exec_ctx).iters()),
//@ end
}

// ================================================================ fold_stream/completeness_updater.rs
//@ lift air/src/execution_step/instructions/fold_stream/completeness_updater.rs :: struct FoldGenerationObserver
//@ pub-fields
//@ derive
//@ end
impl FoldGenerationObserver {
//@ lift air/src/execution_step/instructions/fold_stream/completeness_updater.rs :: impl FoldGenerationObserver :: fn new
//@ name FoldGenerationObserver::new
//@ props C01
//@ ret r
//@ spec
        ensures !r.subgraph_complete
//@ end
// (Verus rejects the non-short-circuit `|=` on bools; both operands are plain values, so `a = a || b` is the same)
//@ lift air/src/execution_step/instructions/fold_stream/completeness_updater.rs :: impl FoldGenerationObserver :: fn observe_completeness
//@ props C01
//@ rewrite 1 "self.subgraph_complete |= completeness;" => "self.subgraph_complete = self.subgraph_complete || completeness;"
//@ spec
        ensures final(self).subgraph_complete == (old(self).subgraph_complete || completeness)
//@ end
//@ lift air/src/execution_step/instructions/fold_stream/completeness_updater.rs :: impl FoldGenerationObserver :: fn update_completeness
//@ props C01
//@ spec
        ensures final(exec_ctx).subgraph_completeness == self.subgraph_complete, final(exec_ctx).same_but_complete(old(exec_ctx))
//@ end
}

// ================================================================ fold_stream/stream_execute_helpers.rs
// shim (trusted) of the closure `get_mut_stream` that fold_stream.rs / fold_stream_map.rs hand to execute_with_stream:
//   `|exec_ctx| exec_ctx.streams.get_mut(name, position).unwrap()`   /   `.. stream_maps.get_mut(name, position).unwrap().get_mut_stream_ref()`
// (a `&dyn for<'ctx> Fn(&'ctx mut ExecutionCtx<'_>) -> &'ctx mut Stream`: closures returning `&mut` are outside Verus). The
// `.unwrap()` is the precondition `present`; calling it is a mutable borrow of exactly that stream.
pub struct StreamAccessor { pub key: Ghost<StreamKey>, pub is_map: Ghost<bool>, pub x: u8 }
impl StreamAccessor {
    pub open spec fn present(&self, c: &ExecutionCtx) -> bool {
        if self.is_map@ { c.stream_maps.tbl@.contains_key(self.key@) } else { c.streams.tbl@.contains_key(self.key@) }
    }
    pub open spec fn stream(&self, c: &ExecutionCtx) -> Stream<ValueAggregate> {
        if self.is_map@ { c.stream_maps.tbl@[self.key@] } else { c.streams.tbl@[self.key@] }
    }
    #[verifier::external_body]
    pub fn for_stream(name: &str, position: AirPos) -> (r: Self) ensures r.key@ == (name@, position.0), !r.is_map@ { unimplemented!() }
    #[verifier::external_body]
    pub fn for_stream_map(name: &str, position: AirPos) -> (r: Self) ensures r.key@ == (name@, position.0), r.is_map@ { unimplemented!() }
    #[verifier::external_body]
    pub fn call<'c, 'i>(&self, exec_ctx: &'c mut ExecutionCtx<'i>) -> (r: &'c mut Stream<ValueAggregate>)
        requires self.present(old(exec_ctx))
        ensures *r == self.stream(old(exec_ctx)),
            final(exec_ctx).scalars == old(exec_ctx).scalars, final(exec_ctx).log@ == old(exec_ctx).log@, final(exec_ctx).tracker == old(exec_ctx).tracker,
            final(exec_ctx).subgraph_completeness == old(exec_ctx).subgraph_completeness,
            final(exec_ctx).streams.x == old(exec_ctx).streams.x, final(exec_ctx).stream_maps.x == old(exec_ctx).stream_maps.x,
            self.is_map@ ==> final(exec_ctx).streams == old(exec_ctx).streams
                && final(exec_ctx).stream_maps.tbl@ == old(exec_ctx).stream_maps.tbl@.insert(self.key@, *final(r)),
            !self.is_map@ ==> final(exec_ctx).stream_maps == old(exec_ctx).stream_maps
                && final(exec_ctx).streams.tbl@ == old(exec_ctx).streams.tbl@.insert(self.key@, *final(r)),
    { unimplemented!() }
}

//@ lift air/src/execution_step/instructions/fold_stream/stream_execute_helpers.rs :: struct FoldStreamIngredients
//@ pub-fields
//@ derive
//@ rewrite 1 "struct FoldStreamIngredients" => "pub struct FoldStreamIngredients"
//@ end
impl<'i> FoldStreamIngredients<'i> {
//@ lift air/src/execution_step/instructions/fold_stream/stream_execute_helpers.rs :: impl<'i> FoldStreamIngredients<'i> :: fn new
//@ name FoldStreamIngredients::new
//@ props C01
//@ ret r
//@ spec
        ensures r == (FoldStreamIngredients { iterable_name, instruction, last_instruction, fold_id })
//@ end
}

//@ lift air/src/execution_step/instructions/fold_stream/stream_execute_helpers.rs :: fn throw_error_if_not_catchable
//@ props C01 C18
//@ ret r
//@ spec
    ensures
        // "Fold over streams doesn't throw an error if it's a catchable one"
        r == (match result { Err(e) => if catchable(e) { Ok::<(), ExecutionError>(()) } else { Err::<(), ExecutionError>(e) }, Ok(_) => Ok::<(), ExecutionError>(()) })
//@ end

// the fold state `execute_iterations` registers for one handed-out generation
pub open spec fn generation_state(it: IterableDyn, fid: u32, head: int, last: Option<int>) -> FoldAbs {
    FoldAbs { iterable: it, ty: IterableType::Stream(fid), back_started: false, head, last }
}
// did any of these body executions leave the subgraph complete ("if fold finishes a run for at least one generation the fold is
// marked as complete", docs/fold.md)
pub open spec fn or_complete(c: Log) -> bool
    decreases c.len()
{
    if c.len() == 0 { false } else { or_complete(c.drop_last()) || c.last().post.complete }
}
// ONE ROUND of a stream fold, as a relation between the handed-out generations and the two ghost logs it leaves (`t`: the trace
// handler's calls, `c`: the body executions, both counted from the start of the round): for every NON-EMPTY generation, in order,
//   meet_iteration_start(fold, position of the generation's first value)  --  the body, once, with that generation registered
//   as the iterator's fold state  --  meet_generation_end(fold)
// and nothing else. (`k` generations processed so far, none of them ending the round early.)
pub open spec fn round_explained(t: TLog, c: Log, its: vstd::seq::Seq<IterableDyn>, k: int, fid: u32, name: Chars, head: int, last: Option<int>) -> bool
    decreases k
{
    if k <= 0 { t.len() == 0 && c.len() == 0 }
    else {
        let it = its[k - 1];
        if it.vals@.len() == 0 { round_explained(t, c, its, k - 1, fid, name, head, last) }
        else {
            &&& t.len() >= 3 && c.len() >= 1
            &&& t[t.len() - 3] == (TEv::IterationStart { id: fid as int, pos: it.vals@[0].trace_pos(), ok: true })
            &&& t[t.len() - 2] == (TEv::Child { id: head })
            &&& t[t.len() - 1] == (TEv::GenerationEnd { id: fid as int, ok: true })
            &&& c.last().id == head
            &&& c.last().pre.iters.contains_key(name) && c.last().pre.iters[name] == generation_state(it, fid, head, last)
            // a catchable failure of the body does not end the round
            &&& !(c.last().res matches Err(e) && !catchable(e))
            &&& round_explained(t.take(t.len() - 3), c.drop_last(), its, k - 1, fid, name, head, last)
        }
    }
}
pub open spec fn derefs(v: vstd::seq::Seq<IterableValue>) -> vstd::seq::Seq<IterableDyn> { v.map_values(|b: IterableValue| *b) }
pub open spec fn fsm_ready(folds: Folds, fid: u32) -> bool { folds.contains_key(fid as int) ==> fsm_fresh(folds[fid as int]) }

// (Verus: "for-loops do not yet support continue". The two rewrites of the loop header spell `for iterable in iterables {` as the
//  `while` over the same vector that takes its first element each time round -- `let iterable = iterables.remove(0)` -- with a ghost
//  counter `k`; the body, including the `continue`, is untouched.)
//@ lift air/src/execution_step/instructions/fold_stream/stream_execute_helpers.rs :: fn execute_iterations
//@ props C01 C13
//@ ret r
//@ sig 1 "&impl ToString" => "&impl ToStr"
//@ rewrite 1 "for iterable in iterables" => "let mut iterables = iterables; let ghost mut k: int = 0; while iterables.len() > 0"
//@ rewrite 1 "ingredients.last_instruction.clone()" => "clone_opt_rc(&ingredients.last_instruction)"
//@ rewrite 1 "let value = match iterable.peek() {" => "let iterable = iterables.remove(0); proof { k = k + 1; assert(*iterable == its[k - 1]); assert(iterables@ =~= old_iterables.skip(k)); } let value = match iterable.peek() {"
//@ before "let value = match iterable.peek() {"
        let ghost t_in = trace_ctx.log@;
        let ghost c_in = exec_ctx.log@;
        proof {
            assert(iterables@[0] == old_iterables[k]);
            assert(its[k] == *old_iterables[k]);
        }
//@ before "let value_pos = value.pos();"
        let ghost first_pos = its[k - 1].vals@[0].trace_pos();
//@ after "generation_observer.observe_completeness(exec_ctx.is_subgraph_complete());"
        proof {
            let fid = ingredients.fold_id as int;
            let ran = exec_ctx.log@.last();
            let e1 = TEv::IterationStart { id: fid, pos: first_pos, ok: true };
            let e2 = TEv::Child { id: ingredients.instruction.id() };
            let e3 = TEv::GenerationEnd { id: fid, ok: true };
            assert(trace_ctx.log@ =~= t_in.push(e1).push(e2).push(e3));
            assert(exec_ctx.log@ =~= c_in.push(ran));
            let t = trace_ctx.log@.skip(n0);
            let c = exec_ctx.log@.skip(m0);
            assert(t =~= t_in.skip(n0).push(e1).push(e2).push(e3));
            assert(c =~= c_in.skip(m0).push(ran));
            assert(t.take(t.len() - 3) =~= t_in.skip(n0));
            assert(c.drop_last() =~= c_in.skip(m0));
            assert(trace_ctx.log@.take(n0) =~= t_in.take(n0));
            assert(exec_ctx.log@.take(m0) =~= c_in.take(m0));
        }
//@ before "for iterable in iterables"
    let ghost old_iterables = iterables@;
    let ghost its = derefs(iterables@);
    let ghost n0 = trace_ctx.log@.len() as int;
    let ghost m0 = exec_ctx.log@.len() as int;
    proof {
        assert(trace_ctx.log@.skip(n0).len() == 0);
        assert(exec_ctx.log@.skip(m0).len() == 0);
    }
//@ loop 0
        invariant
            its == derefs(old_iterables), 0 <= k <= old_iterables.len(), iterables@ =~= old_iterables.skip(k),
            forall|i: int| 0 <= i < its.len() ==> (#[trigger] its[i]).cursor@ == 0 && its[i].wf() && its[i].vals@.len() > 0,
            old_iterables.len() > 0, k > 0 ==> streams_ok(*exec_ctx),
            n0 == old(trace_ctx).log@.len(), m0 == old(exec_ctx).log@.len(),
            n0 <= trace_ctx.log@.len(), m0 <= exec_ctx.log@.len(),
            trace_ctx.log@.take(n0) =~= old(trace_ctx).log@, exec_ctx.log@.take(m0) =~= old(exec_ctx).log@,
            iters_wf(exec_ctx.iters()), streams_kept(*old(exec_ctx), *exec_ctx),
            fsm_ready(trace_ctx.folds@, ingredients.fold_id),
            round_explained(trace_ctx.log@.skip(n0), exec_ctx.log@.skip(m0), its, k, ingredients.fold_id,
                ingredients.iterable_name@, ingredients.instruction.id(), opt_id(ingredients.last_instruction)),
            generation_observer.subgraph_complete == (old(generation_observer).subgraph_complete || or_complete(exec_ctx.log@.skip(m0))),
        decreases iterables@.len()
//@ spec
    requires iters_wf(old(exec_ctx).iters()),
        // the generations come straight from the cursor: fresh iterables (`fresh_iterables` of met_fold_start / met_iteration_end)
        forall|i: int| 0 <= i < iterables@.len() ==> (#[trigger] iterables@[i]).cursor@ == 0 && iterables@[i].wf(),
        // ... at least one, none of them empty (`dense(handed(..))`, `Continue <==> len > 0`)
        iterables@.len() > 0, forall|i: int| 0 <= i < iterables@.len() ==> (#[trigger] iterables@[i]).vals@.len() > 0,
        // the fold's FSM is where meet_fold_start / the last meet_generation_end left it
        fsm_ready(old(trace_ctx).folds@, ingredients.fold_id),
    ensures
        // both logs only grow
        old(trace_ctx).log@.is_prefix_of(final(trace_ctx).log@), old(exec_ctx).log@.is_prefix_of(final(exec_ctx).log@),
        // C13: a round that ends normally is exactly: per non-empty generation, iteration start / body once / generation end
        r is Ok ==> round_explained(final(trace_ctx).log@.skip(old(trace_ctx).log@.len() as int), final(exec_ctx).log@.skip(old(exec_ctx).log@.len() as int),
                derefs(iterables@), iterables@.len() as int, ingredients.fold_id, ingredients.iterable_name@, ingredients.instruction.id(),
                opt_id(ingredients.last_instruction))
            && fsm_ready(final(trace_ctx).folds@, ingredients.fold_id)
            && final(generation_observer).subgraph_complete == (old(generation_observer).subgraph_complete
                    || or_complete(final(exec_ctx).log@.skip(old(exec_ctx).log@.len() as int)))
            // at least one body ran (standing assumption about the context after any instruction)
            && streams_ok(*final(exec_ctx)),
        // "It must return only uncatchable errors"
        r matches Err(e) ==> !catchable(e),
        iters_wf(final(exec_ctx).iters()), streams_kept(*old(exec_ctx), *final(exec_ctx)),
//@ end

// an event of one round of fold `fid` with body `head`
pub open spec fn round_ev(e: TEv, fid: int, head: int) -> bool {
    match e {
        TEv::IterationStart { id, .. } => id == fid,
        TEv::GenerationEnd { id, .. } => id == fid,
        TEv::Child { id } => id == head,
        _ => false,
    }
}
pub open spec fn only_round_events(t: TLog, fid: int, head: int) -> bool { forall|j: int| 0 <= j < t.len() ==> round_ev(#[trigger] t[j], fid, head) }
pub proof fn lemma_round_events(t: TLog, c: Log, its: vstd::seq::Seq<IterableDyn>, k: int, fid: u32, name: Chars, head: int, last: Option<int>)
    requires round_explained(t, c, its, k, fid, name, head, last)
    ensures only_round_events(t, fid as int, head)
    decreases k
{
    if k > 0 {
        if its[k - 1].vals@.len() == 0 {
            lemma_round_events(t, c, its, k - 1, fid, name, head, last);
        } else {
            let t0 = t.take(t.len() - 3);
            lemma_round_events(t0, c.drop_last(), its, k - 1, fid, name, head, last);
            assert forall|j: int| 0 <= j < t.len() implies round_ev(#[trigger] t[j], fid as int, head) by {
                if j < t.len() - 3 { assert(t[j] == t0[j]); }
            }
        }
    }
}
pub proof fn lemma_or_complete_concat(a: Log, b: Log)
    ensures or_complete(a + b) == (or_complete(a) || or_complete(b))
    decreases b.len()
{
    if b.len() == 0 {
        assert(a + b =~= a);
    } else {
        lemma_or_complete_concat(a, b.drop_last());
        assert((a + b).drop_last() =~= a + b.drop_last());
        assert((a + b).last() == b.last());
    }
}

// C13 / call order: a fold over a stream. The trace handler is told the fold starts (a merge error ends it there, nothing runs);
// then rounds: what the cursor hands out is run through `execute_iterations` (iteration start / body / generation end per
// generation) until the cursor is exhausted; then the subgraph is complete iff some generation's body left it complete, and the
// trace handler is told the fold ends. A stream fold never fails with a catchable error.
pub open spec fn stream_fold_spec(head: int, c0: ExecutionCtx, c1: ExecutionCtx, t0: TraceHandler, t1: TraceHandler, r: ExecutionResult<()>) -> bool {
    let n0 = t0.log@.len() as int;
    let m0 = c0.log@.len() as int;
    &&& t0.log@.is_prefix_of(t1.log@) && c0.log@.is_prefix_of(c1.log@)
    &&& t1.log@.len() > n0 && t1.log@[n0] is FoldStart
    &&& !t1.log@[n0]->FoldStart_ok ==> t1.log@.len() == n0 + 1 && c1.log@ == c0.log@ && (r matches Err(e) && is_trace_error(e))
    &&& r matches Err(e) ==> !catchable(e)
    &&& r is Ok ==> {
            let fid = t1.log@[n0]->FoldStart_id;
            &&& t1.log@[n0]->FoldStart_ok
            // ... FoldEnd is the last call, for the same fold id, and everything in between is rounds of this fold
            &&& t1.log@.len() >= n0 + 2 && t1.log@.last() == (TEv::FoldEnd { id: fid, ok: true })
            &&& only_round_events(t1.log@.subrange(n0 + 1, t1.log@.len() - 1), fid, head)
            // "if fold finishes a run for at least one generation the fold is marked as complete"
            &&& c1.subgraph_completeness == or_complete(c1.log@.skip(m0))
        }
}

// (rewrites: the closure parameter and its two calls become the StreamAccessor shim and `.call(..)`; `&impl ToString` the local
//  trait; `Option<Rc<_>>::clone` the verified `clone_opt_rc`; the attribute waives the termination proof of the `while let`: the
//  real loop ends only because Stream::add_value refuses the 1024th value -- unit streams -- which is outside this function)
//@ lift air/src/execution_step/instructions/fold_stream/stream_execute_helpers.rs :: fn execute_with_stream
//@ props C01 C13
//@ ret r
//@ sig 1 "pub(crate) fn execute_with_stream" => "#[verifier::exec_allows_no_decreases_clause] pub fn execute_with_stream"
//@ sig 1 "get_mut_stream: impl for<'ctx> Fn(&'ctx mut ExecutionCtx<'_>) -> &'ctx mut Stream" => "get_mut_stream: StreamAccessor"
//@ sig 1 "&impl ToString" => "&impl ToStr"
//@ rewrite 2 "get_mut_stream(exec_ctx)" => "get_mut_stream.call(exec_ctx)"
//@ rewrite 1 "last_instruction.clone()" => "clone_opt_rc(&last_instruction)"
//@ before "let mut recursive_stream = RecursiveStreamCursor::new();"
    let ghost n0 = old(trace_ctx).log@.len() as int;
    let ghost m0 = old(exec_ctx).log@.len() as int;
    let ghost head = instruction.id();
    proof {
        assert(trace_ctx.log@.subrange(n0 + 1, trace_ctx.log@.len() as int).len() == 0);
        assert(exec_ctx.log@.skip(m0).len() == 0);
    }
//@ loop 0
        invariant
            n0 == old(trace_ctx).log@.len(), m0 == old(exec_ctx).log@.len(), head == instruction.id(),
            n0 + 1 <= trace_ctx.log@.len(), m0 <= exec_ctx.log@.len(),
            trace_ctx.log@.take(n0) =~= old(trace_ctx).log@, exec_ctx.log@.take(m0) =~= old(exec_ctx).log@,
            trace_ctx.log@[n0] == (TEv::FoldStart { id: fold_id as int, ok: true }),
            only_round_events(trace_ctx.log@.subrange(n0 + 1, trace_ctx.log@.len() as int), fold_id as int, head),
            iters_wf(exec_ctx.iters()), get_mut_stream.present(exec_ctx),
            fsm_ready(trace_ctx.folds@, fold_id),
            fresh_iterables(cursor_state), dense(handed(cursor_state)), cursor_state is Continue ==> handed(cursor_state).len() > 0,
            observer.subgraph_complete == or_complete(exec_ctx.log@.skip(m0)),
//@ before "let ingredients ="
        let ghost t_in = trace_ctx.log@;
        let ghost c_in = exec_ctx.log@;
        proof {
            assert forall|i: int| 0 <= i < iterables@.len() implies (#[trigger] iterables@[i]).cursor@ == 0 && iterables@[i].wf() && iterables@[i].vals@.len() > 0 by {
                assert(handed(cursor_state)[i] == iterables@[i].vals@);
            }
        }
//@ before "cursor_state = recursive_stream.met_iteration_end(get_mut_stream(exec_ctx));"
        proof {
            let t_new = trace_ctx.log@.skip(t_in.len() as int);
            let c_new = exec_ctx.log@.skip(c_in.len() as int);
            lemma_round_events(t_new, c_new, derefs(iterables@), iterables@.len() as int, fold_id, iterable_name@, head, opt_id(last_instruction));
            assert(trace_ctx.log@ =~= t_in + t_new);
            assert(exec_ctx.log@ =~= c_in + c_new);
            assert forall|j: int| 0 <= j < trace_ctx.log@.len() - (n0 + 1) implies
                round_ev(#[trigger] trace_ctx.log@.subrange(n0 + 1, trace_ctx.log@.len() as int)[j], fold_id as int, head) by {
                if j < t_in.len() - (n0 + 1) {
                    assert(trace_ctx.log@.subrange(n0 + 1, trace_ctx.log@.len() as int)[j] == t_in.subrange(n0 + 1, t_in.len() as int)[j]);
                } else {
                    assert(trace_ctx.log@.subrange(n0 + 1, trace_ctx.log@.len() as int)[j] == t_new[j - (t_in.len() - (n0 + 1))]);
                }
            }
            assert(exec_ctx.log@.skip(m0) =~= c_in.skip(m0) + c_new);
            lemma_or_complete_concat(c_in.skip(m0), c_new);
            assert(trace_ctx.log@.take(n0) =~= t_in.take(n0));
            assert(exec_ctx.log@.take(m0) =~= c_in.take(m0));
        }
//@ before "observer.update_completeness(exec_ctx);"
    let ghost t_end = trace_ctx.log@;
//@ before "Ok(())"
    proof {
        assert(trace_ctx.log@ =~= t_end.push(TEv::FoldEnd { id: fold_id as int, ok: true }));
        assert(trace_ctx.log@.subrange(n0 + 1, trace_ctx.log@.len() - 1) =~= t_end.subrange(n0 + 1, t_end.len() as int));
        assert(trace_ctx.log@.take(n0) =~= t_end.take(n0));
    }
//@ spec
    requires iters_wf(old(exec_ctx).iters()), streams_ok(*old(exec_ctx)),
        // the `.unwrap()` inside the closure: the stream was found by the caller just before
        get_mut_stream.present(old(exec_ctx)),
    ensures stream_fold_spec(instruction.id(), *old(exec_ctx), *final(exec_ctx), *old(trace_ctx), *final(trace_ctx), r),
        iters_wf(final(exec_ctx).iters()),
//@ end

// ================================================================ fold_stream.rs, fold_stream_map.rs
// (rewrite: the definition of the closure `get_mut_stream` -- `&|exec_ctx| exec_ctx.streams.get_mut(name, position).unwrap()` as a
//  `&dyn for<'ctx> Fn(..) -> &'ctx mut Stream` -- becomes the construction of the StreamAccessor shim that stands for it)
impl<'i> ast::FoldStream<'i> {
//@ lift air/src/execution_step/instructions/fold_stream.rs :: impl<'i> ExecutableInstruction<'i> for FoldStream<'i> :: fn execute
//@ name FoldStream::execute
//@ props C01 C13
//@ ret r
//@ rewrite 1 "let get_mut_stream: &dyn for<'ctx> Fn(&'ctx mut ExecutionCtx<'_>) -> &'ctx mut Stream =\n            &|exec_ctx: &mut ExecutionCtx<'_>| -> &mut Stream {\n                exec_ctx.streams.get_mut(iterable.name, iterable.position).unwrap()\n            };" => "let get_mut_stream = StreamAccessor::for_stream(iterable.name, iterable.position);"
//@ rewrite 1 "self.last_instruction.clone()" => "clone_opt_rc(&self.last_instruction)"
//@ spec
        requires iters_wf(old(exec_ctx).iters()), streams_ok(*old(exec_ctx))
        ensures
            // "having empty streams means that it haven't been met yet, and it's needed to wait": Ok, incomplete, nothing runs
            !old(exec_ctx).streams.tbl@.contains_key((self.iterable.name@, self.iterable.position.0)) ==>
                r is Ok && !final(exec_ctx).subgraph_completeness && final(exec_ctx).same_but_complete(old(exec_ctx)) && *final(trace_ctx) == *old(trace_ctx),
            old(exec_ctx).streams.tbl@.contains_key((self.iterable.name@, self.iterable.position.0)) ==>
                stream_fold_spec(self.instruction.id(), *old(exec_ctx), *final(exec_ctx), *old(trace_ctx), *final(trace_ctx), r),
            iters_wf(final(exec_ctx).iters()),
//@ end
}
impl<'i> ast::FoldStreamMap<'i> {
//@ lift air/src/execution_step/instructions/fold_stream_map.rs :: impl<'i> ExecutableInstruction<'i> for FoldStreamMap<'i> :: fn execute
//@ name FoldStreamMap::execute
//@ props C01 C13
//@ ret r
//@ rewrite 1 "let get_mut_stream: &dyn for<'ctx> Fn(&'ctx mut ExecutionCtx<'_>) -> &'ctx mut Stream =\n            &|exec_ctx: &mut ExecutionCtx<'_>| -> &mut Stream {\n                exec_ctx\n                    .stream_maps\n                    .get_mut(iterable.name, iterable.position)\n                    .unwrap()\n                    .get_mut_stream_ref()\n            };" => "let get_mut_stream = StreamAccessor::for_stream_map(iterable.name, iterable.position);"
//@ rewrite 1 "self.last_instruction.clone()" => "clone_opt_rc(&self.last_instruction)"
//@ spec
        requires iters_wf(old(exec_ctx).iters()), streams_ok(*old(exec_ctx))
        ensures
            !old(exec_ctx).stream_maps.tbl@.contains_key((self.iterable.name@, self.iterable.position.0)) ==>
                r is Ok && !final(exec_ctx).subgraph_completeness && final(exec_ctx).same_but_complete(old(exec_ctx)) && *final(trace_ctx) == *old(trace_ctx),
            old(exec_ctx).stream_maps.tbl@.contains_key((self.iterable.name@, self.iterable.position.0)) ==>
                stream_fold_spec(self.instruction.id(), *old(exec_ctx), *final(exec_ctx), *old(trace_ctx), *final(trace_ctx), r),
            iters_wf(final(exec_ctx).iters()),
//@ end
}

// ================================================================ next.rs
pub open spec fn trace_same(t0: TraceHandler, t1: TraceHandler) -> bool { t1 == t0 }
pub open spec fn fold_fsm_of(t: TraceHandler, ty: IterableType) -> Option<FoldFSM> {
    match ty { IterableType::Stream(fid) => if t.folds@.contains_key(fid as int) { Some(t.folds@[fid as int]) } else { None }, IterableType::Scalar => None }
}
// the three helpers: nothing for a scalar fold; for a stream fold exactly the one trace-handler call, whose error is a TraceError.
// No call-order precondition (the F13 fix made the trace handler's fold calls total).
//@ lift air/src/execution_step/instructions/next.rs :: fn maybe_meet_iteration_start
//@ props C01 C13
//@ ret r
//@ spec
    requires fold_state.iterable.vals@.len() > 0, fold_state.iterable.wf(),       // `peek().expect(PEEK_ALLOWED_ON_NON_EMPTY)`
        fold_fsm_of(*old(trace_ctx), fold_state.iterable_type) matches Some(f) ==> f.pos() <= f.q().len(),     // the queue's own invariant
    ensures match fold_state.iterable_type {
        IterableType::Scalar => r is Ok && *final(trace_ctx) == *old(trace_ctx),
        IterableType::Stream(fid) => {
            &&& final(trace_ctx).log@ == old(trace_ctx).log@.push(TEv::IterationStart { id: fid as int,
                    pos: fold_state.iterable.vals@[fold_state.iterable.cursor@ as int].trace_pos(), ok: r is Ok })
            &&& others_same(old(trace_ctx).folds@, final(trace_ctx).folds@, fid as int)
            &&& final(trace_ctx).folds@.contains_key(fid as int) == old(trace_ctx).folds@.contains_key(fid as int)
            &&& old(trace_ctx).folds@.contains_key(fid as int) ==> fsm_iteration_started(old(trace_ctx).folds@[fid as int], final(trace_ctx).folds@[fid as int], r is Ok)
            &&& r matches Err(e) ==> is_trace_error(e)
        }
    }
//@ end
//@ lift air/src/execution_step/instructions/next.rs :: fn maybe_meet_iteration_end
//@ props C01 C13
//@ ret r
//@ spec
    ensures match fold_state.iterable_type {
        IterableType::Scalar => r is Ok && *final(trace_ctx) == *old(trace_ctx),
        IterableType::Stream(fid) => {
            &&& final(trace_ctx).log@ == old(trace_ctx).log@.push(TEv::IterationEnd { id: fid as int, ok: r is Ok })
            &&& others_same(old(trace_ctx).folds@, final(trace_ctx).folds@, fid as int)
            &&& final(trace_ctx).folds@.contains_key(fid as int) == old(trace_ctx).folds@.contains_key(fid as int)
            &&& !old(trace_ctx).folds@.contains_key(fid as int) ==> r is Err
            &&& old(trace_ctx).folds@.contains_key(fid as int) ==> fsm_iteration_ended(old(trace_ctx).folds@[fid as int], final(trace_ctx).folds@[fid as int], r is Ok)
            &&& r matches Err(e) ==> is_trace_error(e)
        }
    }
//@ end
//@ lift air/src/execution_step/instructions/next.rs :: fn maybe_meet_back_iterator
//@ props C01 C13
//@ ret r
//@ spec
    ensures match fold_state.iterable_type {
        IterableType::Scalar => r is Ok && *final(trace_ctx) == *old(trace_ctx),
        IterableType::Stream(fid) => {
            &&& final(trace_ctx).log@ == old(trace_ctx).log@.push(TEv::BackIterator { id: fid as int, ok: r is Ok })
            &&& others_same(old(trace_ctx).folds@, final(trace_ctx).folds@, fid as int)
            &&& final(trace_ctx).folds@.contains_key(fid as int) == old(trace_ctx).folds@.contains_key(fid as int)
            &&& old(trace_ctx).folds@.contains_key(fid as int) ==> fsm_went_back(old(trace_ctx).folds@[fid as int], final(trace_ctx).folds@[fid as int], r is Ok)
            &&& !old(trace_ctx).folds@.contains_key(fid as int) ==> r is Err
            &&& r matches Err(e) ==> is_trace_error(e)
        }
    }
//@ end

// THE CALL ORDER in which a `next` is normally executed (what units/fold_fsm.rs calls `can_end_iteration`): if its fold is a stream
// fold whose FSM the trace handler knows, an iteration of that fold is open and the back traversal has not started -- i.e. this is
// the first `next` reached in the body of the iteration that was started last. The parser enforces "one textual `next` per fold";
// it does NOT enforce this (F13: `(fold $s i (fold #t j (par (next j) (next i))))`). Since the F13 fix it is no precondition of
// anything: `Next::execute/any-script` verifies without it; `Next::execute/in-order` shows what it buys.
pub open spec fn next_in_order(c: ExecutionCtx, t: TraceHandler, name: Chars) -> bool {
    c.iters().contains_key(name) ==> (fold_fsm_of(t, c.iters()[name].ty) matches Some(f) ==> can_end_iteration(f))
}
pub open spec fn with_iterable(f: FoldAbs, it: IterableDyn) -> FoldAbs { FoldAbs { iterable: it, ..f } }
pub open spec fn next_spec(next: Next, c0: ExecutionCtx, c1: ExecutionCtx, t0: TraceHandler, t1: TraceHandler, r: ExecutionResult<()>) -> bool {
    let name = next.iterator.name@;
    let n = c0.log@.len() as int;
    if !c0.iters().contains_key(name) {
        // (b) no fold state under that name: the uncatchable FoldStateNotFound, never a panic; nothing is touched
        (r matches Err(e) && is_fold_state_not_found(e, name)) && c1 == c0 && t1 == t0
    } else {
        let fs = c0.iters()[name];
        let moved = with_iterable(fs, fs.iterable.after_next());           // the fold state after exactly ONE `next()`
        let advanced = fs.iterable.cursor@ + 1 < fs.iterable.vals@.len();    // what that `next()` returned
        let ran = c1.log@[n];
        &&& t0.log@.is_prefix_of(t1.log@) && c0.log@.is_prefix_of(c1.log@) && c1.log@.len() <= n + 1
        // whenever a child ran it was entered with the iterable moved by exactly one `next()`
        &&& c1.log@.len() == n + 1 ==> ran.pre.iters =~= c0.iters().insert(name, moved)
        &&& (r is Ok && advanced) ==> {
                // there is a next value: the body of the fold runs once more, between meet_next_before and meet_next_after ...
                &&& c1.log@.len() == n + 1 && ran.id == fs.head && ran.res is Ok
                &&& ran.pre.sevs == c0.scalars.evs@.push(SEv::NextBefore) && ran.pre.complete == c0.subgraph_completeness
                // ... and afterwards the iterable is moved back by exactly one `prev()`
                &&& ran.post.iters.contains_key(name)
                &&& c1.iters() =~= ran.post.iters.insert(name, with_iterable(ran.post.iters[name], ran.post.iters[name].iterable.after_prev()))
                &&& c1.scalars.evs@ == ran.post.sevs.push(SEv::NextAfter) && c1.subgraph_completeness == ran.post.complete
            }
        &&& (r is Ok && !advanced) ==> match fs.last {
                // no next value: the last instruction, if any, runs with the subgraph marked complete
                Some(l) => c1.log@.len() == n + 1 && ran.id == l && ran.res is Ok && ran.pre.complete && ran.pre.sevs == c0.scalars.evs@
                    && c1.snap() == ran.post,
                // none: nothing runs; a stream fold is left incomplete the first time this happens (aquavm issue 333)
                None => c1.log@.len() == n && c1.scalars.evs@ == c0.scalars.evs@
                    && c1.iters() =~= c0.iters().insert(name, FoldAbs { back_started: fs.back_started || fs.ty is Stream, ..moved })
                    && c1.subgraph_completeness == (c0.subgraph_completeness && !(fs.ty is Stream && !fs.back_started)),
            }
        // errors: a trace-handler (merge) error, a fold state that vanished during the body, or the child's own error unchanged
        &&& r matches Err(e) ==> is_trace_error(e) || is_fold_state_not_found(e, name) || (c1.log@.len() == n + 1 && r == ran.res)
        // a scalar fold does not talk to the trace handler at all
        &&& fs.ty is Scalar ==> t1.log@ =~= (if c1.log@.len() == n + 1 { t0.log@.push(TEv::Child { id: ran.id }) } else { t0.log@ })
    }
}

pub proof fn lemma_abs_insert_same<'i>(m: Map<Chars, FoldState<'i>>, k: Chars)
    requires m.contains_key(k)
    ensures m.insert(k, m[k]) =~= m
{ }
pub proof fn lemma_iters_wf_insert(m: Iters, k: Chars, f: FoldAbs)
    requires iters_wf(m), f.iterable.vals@.len() > 0, f.iterable.wf()
    ensures iters_wf(m.insert(k, f))
{
    assert forall|j: Chars| m.insert(k, f).contains_key(j) implies (#[trigger] m.insert(k, f)[j]).iterable.vals@.len() > 0 && m.insert(k, f)[j].iterable.wf() by {
        if j != k { assert(m.contains_key(j)); assert(m[j].iterable.vals@.len() > 0); }
    }
}

// what updating the one entry `k` of the table of fold states does to its abstraction, for every new value at once
pub proof fn lemma_update_entry<'i>(m: Map<Chars, FoldState<'i>>, k: Chars)
    requires m.contains_key(k), iters_wf(abs_map(m))
    ensures
        forall|f: FoldState<'i>| abs_map(#[trigger] m.insert(k, f)) =~= abs_map(m).insert(k, f.abs()),
        forall|f: FoldAbs| f.iterable.vals@.len() > 0 && f.iterable.wf() ==> iters_wf(#[trigger] abs_map(m).insert(k, f)),
        forall|f: FoldAbs| f.ty == abs_map(m)[k].ty ==> iters_types_kept(abs_map(m), #[trigger] abs_map(m).insert(k, f)),
{
    assert forall|f: FoldAbs| f.iterable.vals@.len() > 0 && f.iterable.wf() implies iters_wf(#[trigger] abs_map(m).insert(k, f)) by {
        lemma_iters_wf_insert(abs_map(m), k, f);
    }
}
pub proof fn lemma_types_kept_trans(a: Iters, b: Iters, c: Iters, k: Chars)
    requires iters_types_kept(a, b), iters_types_kept(b, c), b.contains_key(k) || !a.contains_key(k) || !c.contains_key(k),
        forall|j: Chars| j != k && a.contains_key(j) && c.contains_key(j) ==> b.contains_key(j)
    ensures iters_types_kept(a, c)
{
    assert forall|j: Chars| #![trigger a.contains_key(j)] #![trigger c.contains_key(j)] a.contains_key(j) && c.contains_key(j) implies c[j].ty == a[j].ty by {
        assert(b.contains_key(j));
    }
}

impl<'i> Next<'i> {
// C01 + C13 for ANY script: no call-order precondition (was FINDING F13: before dc04e6f this obligation failed at next.rs:37/41/65/75,
// the second `next i` of an iteration panicked in SubTraceLoreCtorQueue::current; now that call returns NoFoldIterationStarted, which
// reaches the script as the uncatchable TraceError -- `is_trace_error` in `next_spec`)
//@ lift air/src/execution_step/instructions/next.rs :: impl<'i> super::ExecutableInstruction<'i> for Next<'i> :: fn execute
//@ name Next::execute/any-script
//@ props C01 C13
//@ ret r
//@ after #0 "let fold_state = exec_ctx.scalars.get_iterable_mut(iterator_name)?;"
        proof { lemma_update_entry(old(exec_ctx).scalars.iterables@, self.iterator.name@); }
//@ spec
        requires iters_wf(old(exec_ctx).iters())
        ensures next_spec(*self, *old(exec_ctx), *final(exec_ctx), *old(trace_ctx), *final(trace_ctx), r),
            // what every instruction must leave intact (assumed of the body, proved here)
            iters_wf(final(exec_ctx).iters()), iters_types_kept(old(exec_ctx).iters(), final(exec_ctx).iters()),
            streams_kept(*old(exec_ctx), *final(exec_ctx)),
//@ end

// ... and in call order (`next_in_order`): every fold call this `next` makes on the trace handler BEFORE the body of the next
// iteration runs is made in the order units/fold_fsm.rs's C10 results need -- meet_iteration_end on an open iteration, then either
// the turn-round (`can_go_back`) or meet_iteration_start (`can_start_iteration`) -- the three assertions below. (The
// meet_back_iterator AFTER the body is in order iff the body's own `next` was: lemma iteration_start_opens_iteration is the step.)
// (no canary of its own: same body as the obligation above, stronger precondition)
//@ lift air/src/execution_step/instructions/next.rs :: impl<'i> super::ExecutableInstruction<'i> for Next<'i> :: fn execute
//@ name Next::execute/in-order
//@ props C13
//@ ret r
//@ sig 1 "fn execute" => "fn execute__in_order"
//@ no-canary
//@ after #0 "let fold_state = exec_ctx.scalars.get_iterable_mut(iterator_name)?;"
        proof { lemma_update_entry(old(exec_ctx).scalars.iterables@, self.iterator.name@); }
        let ghost ty = fold_state.iterable_type;
        proof {
            assert(old(exec_ctx).iters()[self.iterator.name@] == fold_state.abs());
            assert(fold_fsm_of(*trace_ctx, ty) matches Some(f) ==> can_end_iteration(f));
        }
//@ before #0 "maybe_meet_back_iterator(self, fold_state, trace_ctx)?;"
            proof { assert(fold_fsm_of(*trace_ctx, ty) matches Some(f) ==> can_go_back(f)); }
//@ before "maybe_meet_iteration_start(self, fold_state, trace_ctx)?;"
        proof { assert(fold_fsm_of(*trace_ctx, ty) matches Some(f) ==> can_start_iteration(f)); }
//@ spec
        requires iters_wf(old(exec_ctx).iters()), next_in_order(*old(exec_ctx), *old(trace_ctx), self.iterator.name@)
        ensures next_spec(*self, *old(exec_ctx), *final(exec_ctx), *old(trace_ctx), *final(trace_ctx), r),
//@ end
}

// the link that makes `next_in_order` hold in the honest order: right after a successful meet_iteration_start -- the one
// execute_iterations makes before the body of a generation's first value, and the one `next` makes before the body of the next
// value -- the fold's FSM is exactly where the body's `next` needs it; after that `next`'s meet_iteration_end a further iteration
// can start, and the turn-round can be made
//@ lemma iteration_start_opens_iteration props C13 C01
proof fn iteration_start_opens_iteration(f0: FoldFSM, f1: FoldFSM, f2: FoldFSM)
    requires can_start_iteration(f0), fsm_iteration_started(f0, f1, true), fsm_iteration_ended(f1, f2, true),
        f0.pos() == f0.q().len(),          // forward phase: the cursor is at the end of the queue (fsm_fresh; kept by both transitions)
    ensures can_end_iteration(f1), can_start_iteration(f2), can_go_back(f2), f1.pos() == f1.q().len(), f2.pos() == f2.q().len()
{
    assert(f1.q().last() == f1.q()[f1.pos() - 1]);
}
//@ end

} // verus!
fn main() {}
