//@ unit fold_exec
// The fold executors of air/src/execution_step/instructions: fold_scalar.rs, fold_stream.rs, fold_stream/stream_execute_helpers.rs,
// fold_stream/completeness_updater.rs, fold_stream_map.rs, fold/fold_state.rs, next.rs, the scalar-iterable constructors of
// fold/utils.rs that raise errors of their own (create_scalar_iterable, from_value, from_jvalue), and the recursive stream cursor
// air/src/execution_step/value_types/stream/recursive_stream.rs (every function but the iterator adapter).
//
// PART A (C13): RecursiveStreamCursor over the abstract stream view of units/streams.rs (`gens`, `flat`, `non_empty`, imported
// mechanically; the NewValuesMatrix / ValuesMatrix callee contracts are imported with `//@ stub streams :: ..`).
//   met_fold_start / met_iteration_end: the generations handed out are exactly `slices(stream, cursor)` = for each of the three
//   matrices `non_empty(view).skip(cursor)` (skip saturating, as Iterator::skip is), and afterwards the cursor holds the RAW
//   generation counts. Lemma `cursor_visits_each_value_once` (a replay harness): over met_fold_start, (appends to New,
//   met_iteration_end)* until Exhausted, the concatenation of everything handed out equals the stream's view -- every value exactly
//   once, in stream order -- PROVIDED the stream is `dense` (no empty generation) when the fold starts. That proviso is not
//   decoration: FINDING F14 -- met_iteration_end leaves an empty generation behind also when it reports Exhausted, so a stream that
//   was folded over once is not dense, the next fold's cursor (raw counts) runs ahead of slice_iter (non-empty generations) and the
//   values appended during that fold's first round are never handed out (obligation `../leaves-dense` FAILS on the real code;
//   replay/pending_instr_findings_end_to_end.rs shows the wrong canon end to end).
//
// PART B: the executors. Ghost logs as in xor.rs / control_exec.rs: `ExecutionCtx.log` has one `Ran{id, pre, res, post}` per child
// execution, where the snapshots hold the completeness flag and the table of registered fold states; `TraceHandler` carries the
// abstract state of every FoldFSM (queue of ctor states, cursor, flag -- the three things units/fold_fsm.rs's call-order facts
// speak about; `can_start_iteration` / `can_end_iteration` / `can_go_back` are IMPORTED from that unit, the transitions are its
// ensures clauses retyped over the abstract state) and a ghost log of the fold calls interleaved with `Child{id}` entries.
//   fold_stream: meet_fold_start, then per handed-out generation meet_iteration_start(first value) / body / meet_generation_end, then
//   meet_fold_end -- `can_start_iteration` is PROVED at its call site (the generation end resets the FSM whatever the body did).
//   next: exactly one `next()` on the enclosing fold's iterable before the body of the next iteration and one `prev()` after it;
//   a missing fold state is the uncatchable FoldStateNotFound, never a panic. Its three trace-handler calls need
//   `can_end_iteration` / `can_go_back`, which the code of `next` cannot establish: obligation `Next::execute` assumes them (and what
//   the body may do to the FSM: `fsm_monotone`, proved for `next` itself), obligation `Next::execute/any-script` does not and FAILS:
//   FINDING F13 -- a script whose `next i` sits in the body of an inner fold runs it twice per iteration and the second
//   meet_back_iterator panics in SubTraceLoreCtorQueue::current (`back_traversal_pos - 1`), reproduced end to end.
//   fold_scalar: joinable / other errors of the iterable constructors, Empty => the body is not executed; from_value / from_jvalue:
//   non-array => the catchable FoldIteratesOverNonArray.
//
// Trusted part of this file: opaque data (JValue with an `arr` view, ValueAggregate, tetraplets, Provenance, LambdaAST), TiVec (only
// its type), IterableValue = Box<dyn Iterable> as a ghost (values, cursor) pair with the contracts of foldable_next!/foldable_prev!
// and the five `peek`s, the UncatchableError shim, Scalars (table of fold states + call log), Streams / StreamMaps lookups, the
// TraceHandler shim described above, the leaf `Instruction::execute`, and the two harness-only stubs `fold_body_appends_to_new`,
// `nondet`.
use vstd::prelude::*;

//@ lift air/src/execution_step/errors/execution_errors.rs :: macro_rules trace_to_exec_err
//@ rewrite 1 "$trace_expr.map_err(|trace_error| {" => "::vstd::prelude::verus_exec_expr!{ $trace_expr.map_err(|trace_error: $crate::TraceHandlerError| -> (o: $crate::ExecutionError) ensures $crate::is_trace_error(o) {"
//@ rewrite 1 "})\n    };" => "}) }\n    };"
//@ end

//@ lift air/src/execution_step/instructions/mod.rs :: macro_rules joinable
//@ end

verus! {

use std::rc::Rc;
use core::marker::PhantomData;

// (the AST's `Seq` would shadow vstd's in PART B; one alias for both parts)
pub type Chars = vstd::seq::Seq<char>;

// ---------------------------------------------------------------- shim: opaque data (trusted)
#[derive(Clone, Copy)]
pub struct TracePos(pub u32);
pub struct ValueAggregate { pub x: u64 }
impl Clone for ValueAggregate { fn clone(&self) -> (r: Self) ensures r == *self { ValueAggregate { x: self.x } } }
impl ValueAggregate {
    pub uninterp spec fn trace_pos(&self) -> TracePos;
}

// ================================================================ PART A: the recursive stream cursor (C13)
//@ lift crates/air-lib/interpreter-data/src/generation_idx.rs :: type GenerationIdxType
//@ end
//@ lift crates/air-lib/interpreter-data/src/generation_idx.rs :: struct GenerationIdx
//@ derive Copy Clone
//@ rewrite 1 "GenerationIdx(GenerationIdxType)" => "GenerationIdx(pub GenerationIdxType)"
//@ end
impl vstd::std_specs::convert::FromSpecImpl<usize> for GenerationIdx {
    open spec fn obeys_from_spec() -> bool { true }
    open spec fn from_spec(v: usize) -> GenerationIdx { GenerationIdx(v as u32) }
}
//@ lift crates/air-lib/interpreter-data/src/generation_idx.rs :: impl From<usize> for GenerationIdx
//@ props C01
//@ end

// the type only: nothing here looks inside (every matrix operation is a stub whose contract unit `streams` proves)
pub struct TiVec<K, V> { pub v: Vec<V>, pub k: core::marker::PhantomData<K> }
impl<K, V> TiVec<K, V> {
    pub open spec fn view(&self) -> vstd::seq::Seq<V> { self.v@ }
}
pub const STREAM_MAX_SIZE: usize = 1024;

//@ import-spec streams :: gens flat non_empty
//@ lift air/src/execution_step/value_types/stream/values_matrix.rs :: struct ValuesMatrix
//@ pub-fields
//@ derive
//@ end
//@ lift air/src/execution_step/value_types/stream/values_matrix.rs :: struct NewValuesMatrix
//@ derive
//@ rewrite 1 "(ValuesMatrix<T>)" => "(pub ValuesMatrix<T>)"
//@ end
impl<T> ValuesMatrix<T> {
//@ import-spec streams :: ValuesMatrix::view ValuesMatrix::wf
//@ stub streams :: ValuesMatrix::generations_count
}
impl<T> NewValuesMatrix<T> {
//@ import-spec streams :: NewValuesMatrix::view NewValuesMatrix::wf
//@ stub streams :: NewValuesMatrix::add_new_empty_generation
//@ stub streams :: NewValuesMatrix::last_generation_is_empty
//@ stub streams :: NewValuesMatrix::remove_last_generation
//@ stub streams :: NewValuesMatrix::generations_count
}
//@ lift air/src/execution_step/value_types/stream/stream_definition.rs :: struct Stream
//@ pub-fields
//@ derive
//@ end

// Iterator::skip: yields nothing when asked to skip more than there is
pub open spec fn skip_sat<A>(s: vstd::seq::Seq<A>, n: int) -> vstd::seq::Seq<A> { if n >= s.len() { vstd::seq::Seq::empty() } else { s.skip(n) } }

//@ lift air/src/execution_step/value_types/stream/recursive_stream.rs :: struct StreamCursor
//@ derive Clone Copy
//@ end
//@ lift air/src/execution_step/value_types/stream/recursive_stream.rs :: struct RecursiveStreamCursor
//@ pub-fields
//@ derive Clone Copy
//@ end

// `slice_iter` returns `impl Iterator<Item = &[T]>`: opaque, with the sequence of slices it will yield as ghost state (as in streams.rs)
pub struct SliceIter<T> { pub g: Ghost<vstd::seq::Seq<vstd::seq::Seq<T>>> }

impl<T> Stream<T> {
    pub open spec fn wf(&self) -> bool { self.previous_values.wf() && self.current_values.wf() && self.new_values.wf() }
    // the stream as a peer sees it (verbatim from streams.rs)
    pub open spec fn view(&self) -> vstd::seq::Seq<T> { flat(self.previous_values@) + flat(self.current_values@) + flat(self.new_values@) }
    // C01: a memory bound -- fewer than 2^32 generations per matrix (`generations_count` truncates to u32)
    pub open spec fn fits(&self) -> bool {
        self.previous_values@.len() <= u32::MAX && self.current_values@.len() <= u32::MAX && self.new_values@.len() <= u32::MAX
    }
    // what a cursor makes slice_iter yield: per matrix the NON-EMPTY generations, skipping `cursor` of them
    pub open spec fn slices(&self, c: StreamCursor) -> vstd::seq::Seq<vstd::seq::Seq<T>> {
        skip_sat(non_empty(self.previous_values@), c.previous_start_idx.0 as int)
            + skip_sat(non_empty(self.current_values@), c.current_start_idx.0 as int)
            + skip_sat(non_empty(self.new_values@), c.new_start_idx.0 as int)
    }
    // what `cursor()` returns: the RAW generation counts
    pub open spec fn counts(&self) -> StreamCursor {
        StreamCursor {
            previous_start_idx: GenerationIdx(self.previous_values@.len() as u32),
            current_start_idx: GenerationIdx(self.current_values@.len() as u32),
            new_start_idx: GenerationIdx(self.new_values@.len() as u32),
        }
    }
    // real: stream_definition.rs:64 `previous.slice_iter(c.previous).chain(current.slice_iter(c.current)).chain(new.slice_iter(c.new))`
    // with ValuesMatrix::slice_iter = `.iter().filter(non-empty).skip(n).map(as_ref)` (bounded native job C12.slice_iter / C12.compactify)
    #[verifier::external_body]
    pub fn slice_iter(&self, cursor: StreamCursor) -> (r: SliceIter<T>)
        ensures r.g@ == self.slices(cursor)
    { unimplemented!() }

//@ lift air/src/execution_step/value_types/stream/stream_definition.rs :: impl<'value, T: 'value> Stream<T> :: fn cursor
//@ name Stream::cursor
//@ props C01 C13
//@ ret r
//@ spec
        requires self.fits()
        ensures r == self.counts()
//@ end
//@ lift air/src/execution_step/value_types/stream/stream_definition.rs :: impl<'value, T: 'value> Stream<T> :: fn new_values
//@ name Stream::new_values
//@ props C01 C13
//@ ret r
//@ spec
        ensures *r == old(self).new_values, final(self).new_values == *final(r),
            final(self).previous_values == old(self).previous_values, final(self).current_values == old(self).current_values,
//@ end
}

// ---------------------------------------------------------------- shim: IterableValue = Box<dyn for<'ctx> Iterable<'ctx, Item = IterableItem<'ctx>>> (trusted)
// The five implementations (value_types/iterable/*.rs) are a vector of values and a cursor; `next` / `prev` are the macros
// foldable_next! / foldable_prev! (iterable.rs), `peek` is `if empty { None } else { Some(values[cursor]) }`.
pub struct IterableItem<'ctx> { pub v: Ghost<ValueAggregate>, pub ph: PhantomData<&'ctx u8> }
impl<'ctx> IterableItem<'ctx> {
    pub open spec fn value(&self) -> ValueAggregate { self.v@ }
    #[verifier::external_body]
    pub fn pos(&self) -> (r: TracePos) ensures r == self.value().trace_pos() { unimplemented!() }
    #[verifier::external_body]
    pub fn into_resolved_result(self) -> (r: ValueAggregate) ensures r == self.value() { unimplemented!() }
}
pub struct IterableValue {
    pub vals: Ghost<vstd::seq::Seq<ValueAggregate>>,
    pub cursor: Ghost<nat>,
    pub nexts: Ghost<nat>,          // how many times `next()` was called on this object
    pub prevs: Ghost<nat>,          // ... and `prev()`
    pub x: u8,
}
impl IterableValue {
    // type invariant of every implementation: the cursor stays inside a non-empty vector
    pub open spec fn wf(&self) -> bool { self.vals@.len() == 0 || self.cursor@ < self.vals@.len() }
    pub open spec fn after_next(&self) -> IterableValue {
        IterableValue { cursor: Ghost(if self.cursor@ + 1 < self.vals@.len() { self.cursor@ + 1 } else { self.cursor@ }), nexts: Ghost(self.nexts@ + 1), ..*self }
    }
    pub open spec fn after_prev(&self) -> IterableValue {
        IterableValue { cursor: Ghost(if self.cursor@ >= 1 { (self.cursor@ - 1) as nat } else { self.cursor@ }), prevs: Ghost(self.prevs@ + 1), ..*self }
    }
    #[verifier::external_body]
    pub fn next(&mut self) -> (r: bool)
        ensures *final(self) == old(self).after_next(), r == (old(self).cursor@ + 1 < old(self).vals@.len())
    { unimplemented!() }
    #[verifier::external_body]
    pub fn prev(&mut self) -> (r: bool)
        ensures *final(self) == old(self).after_prev(), r == (old(self).cursor@ >= 1)
    { unimplemented!() }
    // (`values[cursor]` in the real ones: the index is in range by `wf`)
    #[verifier::external_body]
    pub fn peek(&self) -> (r: Option<IterableItem<'_>>)
        requires self.wf()
        ensures r is Some <==> self.vals@.len() > 0, r matches Some(it) ==> it.value() == self.vals@[self.cursor@ as int]
    { unimplemented!() }
}

//@ lift air/src/execution_step/value_types/stream/recursive_stream.rs :: enum RecursiveCursorState
//@ derive
//@ end
// the generations a cursor state hands to the fold
pub open spec fn handed(r: RecursiveCursorState) -> vstd::seq::Seq<vstd::seq::Seq<ValueAggregate>> {
    match r {
        RecursiveCursorState::Continue(v) => v@.map_values(|it: IterableValue| it.vals@),
        RecursiveCursorState::Exhausted => vstd::seq::Seq::empty(),
    }
}
// every iterable handed out is fresh: cursor at its first value, never moved
pub open spec fn fresh_iterables(r: RecursiveCursorState) -> bool {
    r matches RecursiveCursorState::Continue(v) ==> forall|i: int| 0 <= i < v@.len() ==>
        (#[trigger] v@[i]).cursor@ == 0 && v@[i].nexts@ == 0 && v@[i].prevs@ == 0
}

impl RecursiveCursorState {
//@ lift air/src/execution_step/value_types/stream/recursive_stream.rs :: impl RecursiveCursorState :: fn from_iterable_values
//@ props C01 C13
//@ ret r
//@ spec
        ensures r == (if values@.len() == 0 { RecursiveCursorState::Exhausted } else { RecursiveCursorState::Continue(values) })
//@ end
//@ lift air/src/execution_step/value_types/stream/recursive_stream.rs :: impl RecursiveCursorState :: fn should_continue
//@ props C01 C13
//@ ret r
//@ spec
        ensures r == (self is Continue)
//@ end
}

impl StreamCursor {
//@ lift air/src/execution_step/value_types/stream/recursive_stream.rs :: impl StreamCursor :: fn empty
//@ props C01 C13
//@ ret r
//@ spec
        ensures r.previous_start_idx.0 == 0, r.current_start_idx.0 == 0, r.new_start_idx.0 == 0
//@ end
//@ lift air/src/execution_step/value_types/stream/recursive_stream.rs :: impl StreamCursor :: fn new
//@ props C01 C13
//@ ret r
//@ spec
        ensures r == (StreamCursor { previous_start_idx, current_start_idx, new_start_idx })
//@ end
}

//@ lift air/src/execution_step/value_types/stream/recursive_stream.rs :: fn remove_last_generation_if_empty
//@ props C01 C13
//@ spec
    requires old(stream).fits(), old(stream).wf()
    ensures
        final(stream).previous_values == old(stream).previous_values, final(stream).current_values == old(stream).current_values,
        final(stream).new_values@ =~= without_empty_tail(old(stream).new_values@),
        final(stream).wf(),
//@ after "stream.new_values().remove_last_generation();"
        proof {
            let m = old(stream).new_values@;
            if m.len() > 0 {
                assert(m.last().len() == 0);
                assert(flat(m) =~= flat(m.drop_last()) + m.last());
                assert(flat(m.drop_last()) + m.last() =~= flat(m.drop_last()));
            }
        }
//@ end
// a matrix without its last generation if that one is empty
pub open spec fn without_empty_tail<T>(m: vstd::seq::Seq<vstd::seq::Seq<T>>) -> vstd::seq::Seq<vstd::seq::Seq<T>> {
    if m.len() > 0 && m.last().len() == 0 { m.drop_last() } else { m }
}

impl RecursiveStreamCursor {
    // real: recursive_stream.rs:86 `iter.map(|slice| Box::new(IterableVecResolvedCall::init(slice.to_vec()))).collect()`: one fresh
    // iterable (cursor 0) per slice, holding that slice's values in order
    #[verifier::external_body]
    pub fn slice_iter_to_iterable(iter: SliceIter<ValueAggregate>) -> (r: Vec<IterableValue>)
        ensures r@.map_values(|it: IterableValue| it.vals@) == iter.g@,
            forall|i: int| 0 <= i < r@.len() ==> (#[trigger] r@[i]).cursor@ == 0 && r@[i].nexts@ == 0 && r@[i].prevs@ == 0,
    { unimplemented!() }

//@ lift air/src/execution_step/value_types/stream/recursive_stream.rs :: impl RecursiveStreamCursor :: fn new
//@ name RecursiveStreamCursor::new
//@ props C01 C13
//@ ret r
//@ spec
        ensures r.cursor.previous_start_idx.0 == 0, r.cursor.current_start_idx.0 == 0, r.cursor.new_start_idx.0 == 0
//@ end

//@ lift air/src/execution_step/value_types/stream/recursive_stream.rs :: impl RecursiveStreamCursor :: fn cursor_state
//@ props C01 C13
//@ ret r
//@ spec
        ensures handed(r) == stream.slices(self.cursor), r is Continue <==> stream.slices(self.cursor).len() > 0, fresh_iterables(r)
//@ end

// C13: the fold starts: everything from the cursor on is handed out, the cursor moves to the (raw) generation counts, and -- iff
// there is something to iterate over -- a new empty generation is opened so that the appends of the fold body land in it
//@ lift air/src/execution_step/value_types/stream/recursive_stream.rs :: impl RecursiveStreamCursor :: fn met_fold_start
//@ props C01 C13
//@ ret r
//@ spec
        requires old(stream).fits(), old(stream).wf()
        ensures
            handed(r) == old(stream).slices(old(self).cursor), r is Continue <==> handed(r).len() > 0, fresh_iterables(r),
            final(self).cursor == old(stream).counts(),
            final(stream).previous_values == old(stream).previous_values, final(stream).current_values == old(stream).current_values,
            final(stream).new_values@ == (if r is Continue { old(stream).new_values@.push(vstd::seq::Seq::empty()) } else { old(stream).new_values@ }),
            final(stream).wf(), final(stream)@ == old(stream)@,
//@ end

// C13: an iteration round ended: what was appended since the cursor was taken is handed out; the generation opened for the round is
// dropped if nothing went into it, the cursor moves to the (raw) generation counts, a new empty generation is opened
//@ lift air/src/execution_step/value_types/stream/recursive_stream.rs :: impl RecursiveStreamCursor :: fn met_iteration_end
//@ props C01 C13
//@ ret r
//@ spec
        requires old(stream).fits(), old(stream).wf()
        ensures
            handed(r) == old(stream).slices(old(self).cursor), r is Continue <==> handed(r).len() > 0, fresh_iterables(r),
            final(self).cursor == (StreamCursor { new_start_idx: GenerationIdx(without_empty_tail(old(stream).new_values@).len() as u32), ..old(stream).counts() }),
            final(stream).previous_values == old(stream).previous_values, final(stream).current_values == old(stream).current_values,
            final(stream).new_values@ =~= without_empty_tail(old(stream).new_values@).push(vstd::seq::Seq::empty()),
            final(stream).wf(), final(stream)@ == old(stream)@,
//@ end

// FINDING F14 (C13). `dense`: no empty generation -- then the raw counts `cursor()` returns and the positions among the non-empty
// generations `slice_iter` skips agree, which is what lemma cursor_visits_each_value_once needs of the stream a fold starts on.
// A fold must therefore leave the stream dense when it ends (the cursor reports Exhausted). The real met_iteration_end ends with
// `stream.new_values().add_new_empty_generation()` unconditionally (recursive_stream.rs:76): this obligation FAILS.
// (no canary of its own: same body and precondition as the obligation above, which has one)
//@ lift air/src/execution_step/value_types/stream/recursive_stream.rs :: impl RecursiveStreamCursor :: fn met_iteration_end
//@ name RecursiveStreamCursor::met_iteration_end/leaves-dense
//@ props C13
//@ ret r
//@ sig 1 "fn met_iteration_end" => "fn met_iteration_end__leaves_dense"
//@ no-canary
//@ spec
        requires old(stream).fits(), old(stream).wf()
        ensures (r is Exhausted && dense(without_empty_tail(old(stream).new_values@))) ==> dense(final(stream).new_values@)
//@ end
}
pub open spec fn dense<T>(m: vstd::seq::Seq<vstd::seq::Seq<T>>) -> bool { forall|i: int| 0 <= i < m.len() ==> (#[trigger] m[i]).len() != 0 }

// ---------------------------------------------------------------- C13: the cursor protocol replayed (no repository code below this line of PART A)
pub proof fn lemma_flat_push<T>(m: vstd::seq::Seq<vstd::seq::Seq<T>>, g: vstd::seq::Seq<T>)
    ensures flat(m.push(g)) == flat(m) + g
{
    assert(m.push(g).drop_last() == m);
}
pub proof fn lemma_flat_concat<T>(a: vstd::seq::Seq<vstd::seq::Seq<T>>, b: vstd::seq::Seq<vstd::seq::Seq<T>>)
    ensures flat(a + b) == flat(a) + flat(b)
    decreases b.len()
{
    if b.len() == 0 {
        assert(a + b =~= a);
        assert(flat(a) + flat(b) =~= flat(a));
    } else {
        lemma_flat_concat(a, b.drop_last());
        assert(a + b =~= (a + b.drop_last()).push(b.last()));
        lemma_flat_push(a + b.drop_last(), b.last());
        assert((flat(a) + flat(b.drop_last())) + b.last() =~= flat(a) + (flat(b.drop_last()) + b.last()));
    }
}
pub proof fn lemma_non_empty_push<T>(m: vstd::seq::Seq<vstd::seq::Seq<T>>, g: vstd::seq::Seq<T>)
    ensures non_empty(m.push(g)) == (if g.len() != 0 { non_empty(m).push(g) } else { non_empty(m) })
{
    let p = |g: vstd::seq::Seq<T>| g.len() != 0;
    assert(m.push(g).drop_last() == m);
    assert(m.push(g).filter(p) == (if p(g) { m.filter(p).push(g) } else { m.filter(p) })) by { reveal(vstd::seq::Seq::filter); }
}
pub proof fn lemma_non_empty_id<T>(m: vstd::seq::Seq<vstd::seq::Seq<T>>)
    requires dense(m)
    ensures non_empty(m) == m
    decreases m.len()
{
    let p = |g: vstd::seq::Seq<T>| g.len() != 0;
    if m.len() == 0 {
        assert(m.filter(p).len() == 0) by { reveal(vstd::seq::Seq::filter); }
        assert(m.filter(p) =~= m);
    } else {
        lemma_non_empty_id(m.drop_last());
        assert(m == m.drop_last().push(m.last()));
        lemma_non_empty_push(m.drop_last(), m.last());
    }
}

// harness only (as `executor_runs_body` in fold_fsm.rs): what the fold body does to the stream between two cursor calls when its
// appends go to New -- Stream::add_value(_, Generation::New) = NewValuesMatrix::add_to_last_generation = push onto the LAST
// generation (unit streams proves size / flattened view / generation count of that function): only the last generation of
// `new_values` grows. No obligation on repository code depends on this stub.
#[verifier::external_body]
pub fn fold_body_appends_to_new(stream: &mut Stream<ValueAggregate>)
    requires old(stream).wf(), old(stream).new_values@.len() > 0
    ensures final(stream).wf(),
        final(stream).previous_values == old(stream).previous_values, final(stream).current_values == old(stream).current_values,
        final(stream).new_values@.len() == old(stream).new_values@.len(),
        final(stream).new_values@.drop_last() =~= old(stream).new_values@.drop_last(),
        old(stream).new_values@.last().is_prefix_of(final(stream).new_values@.last()),
{ unimplemented!() }

// C13: a fold over a stream visits every value exactly once, including the values appended while it runs.
// Over  met_fold_start, (the body appends to New, met_iteration_end)*  until the cursor reports Exhausted, the generations handed
// out, concatenated in the order they were handed out, ARE the stream as the peer sees it at the end (`Stream::view`): nothing is
// handed out twice, nothing is left out, order kept; every handed-out generation is non-empty. Replaces the bounded native job
// C13.cursor. Precondition besides the type invariants: the stream is `dense` when the fold starts -- see FINDING F14 above.
//@ lemma cursor_visits_each_value_once props C13
pub fn cursor_visits_each_value_once(stream: &mut Stream<ValueAggregate>, fuel: u32) -> (r: (bool, Ghost<vstd::seq::Seq<vstd::seq::Seq<ValueAggregate>>>))
    requires old(stream).wf(),
        dense(old(stream).previous_values@), dense(old(stream).current_values@), dense(old(stream).new_values@),
        old(stream).previous_values@.len() <= u32::MAX, old(stream).current_values@.len() <= u32::MAX,
        old(stream).new_values@.len() + fuel + 1 <= u32::MAX,
    ensures
        final(stream).previous_values == old(stream).previous_values, final(stream).current_values == old(stream).current_values,
        // r.0: the cursor reported Exhausted (the fold ended) before the harness ran out of rounds
        r.0 ==> flat(r.1@) == final(stream)@ && dense(r.1@),
{
    let ghost p = stream.previous_values@;
    let ghost c = stream.current_values@;
    let ghost n0 = stream.new_values@;
    let mut cursor = RecursiveStreamCursor::new();
    let mut state = cursor.met_fold_start(stream);
    let ghost mut all = handed(state);
    proof {
        lemma_non_empty_id(p); lemma_non_empty_id(c); lemma_non_empty_id(n0);
        assert(skip_sat(p, 0) =~= p); assert(skip_sat(c, 0) =~= c); assert(skip_sat(n0, 0) =~= n0);
        assert(all == p + c + n0);
        lemma_flat_concat(p + c, n0);
        lemma_flat_concat(p, c);
        assert forall|i: int| 0 <= i < all.len() implies (#[trigger] all[i]).len() != 0 by {
            if i < p.len() { assert(all[i] == p[i]); }
            else if i < p.len() + c.len() { assert(all[i] == c[i - p.len()]); }
            else { assert(all[i] == n0[i - p.len() - c.len()]); }
        }
    }
    if !state.should_continue() {
        proof {
            assert(all.len() == 0);
            assert(p.len() == 0 && c.len() == 0 && n0.len() == 0);
        }
        return (true, Ghost(all));
    }
    proof {
        assert(stream.new_values@.drop_last() =~= n0);
        lemma_flat_push(n0, vstd::seq::Seq::<ValueAggregate>::empty());
    }
    let mut fuel = fuel;
    while state.should_continue() && fuel > 0
        invariant
            stream.wf(), stream.previous_values@ == p, stream.current_values@ == c,
            stream.previous_values == old(stream).previous_values, stream.current_values == old(stream).current_values,
            dense(p), dense(c), p.len() <= u32::MAX, c.len() <= u32::MAX,
            stream.new_values@.len() > 0, stream.new_values@.len() + fuel <= u32::MAX,
            dense(stream.new_values@.drop_last()), stream.new_values@.last().len() == 0,
            cursor.cursor == (StreamCursor { new_start_idx: GenerationIdx((stream.new_values@.len() - 1) as u32), ..stream.counts() }),
            flat(all) == flat(p) + flat(c) + flat(stream.new_values@.drop_last()),
            dense(all),
            !(state is Continue) ==> flat(all) == stream@,
        decreases fuel
    {
        fold_body_appends_to_new(stream);
        let ghost nn = stream.new_values@.drop_last();       // the closed generations: dense
        let ghost last = stream.new_values@.last();          // what this round appended
        let ghost all0 = all;
        proof {
            assert(stream.new_values@ =~= nn.push(last));
            lemma_non_empty_id(p); lemma_non_empty_id(c); lemma_non_empty_id(nn);
            lemma_non_empty_push(nn, last);
        }
        state = cursor.met_iteration_end(stream);
        proof {
            // prev / current: the cursor sits at their (raw = non-empty) length: nothing; new: exactly this round's generation, if any
            let h = handed(state);
            assert(h =~= (if last.len() != 0 { vstd::seq::Seq::empty().push(last) } else { vstd::seq::Seq::empty() })) by {
                if last.len() != 0 {
                    assert(skip_sat(nn.push(last), nn.len() as int) =~= vstd::seq::Seq::empty().push(last));
                }
            }
            all = all0 + h;
            lemma_flat_concat(all0, h);
            let n1 = without_empty_tail(nn.push(last));
            if last.len() != 0 {
                assert(n1 == nn.push(last));
                lemma_flat_push(vstd::seq::Seq::<vstd::seq::Seq<ValueAggregate>>::empty(), last);
                assert(flat(vstd::seq::Seq::<vstd::seq::Seq<ValueAggregate>>::empty()) =~= vstd::seq::Seq::<ValueAggregate>::empty());
                assert(flat(h) =~= last);
                lemma_flat_push(nn, last);
                assert((flat(p) + flat(c) + flat(nn)) + last =~= flat(p) + flat(c) + (flat(nn) + last));
            } else {
                assert(nn.push(last).drop_last() =~= nn);
                assert(n1 == nn);
                assert(flat(h) =~= vstd::seq::Seq::<ValueAggregate>::empty());
                assert(flat(all0) + flat(h) =~= flat(all0));
            }
            assert(stream.new_values@.drop_last() =~= n1);
            lemma_flat_push(n1, vstd::seq::Seq::<ValueAggregate>::empty());
            assert(flat(n1) + vstd::seq::Seq::<ValueAggregate>::empty() =~= flat(n1));
            assert forall|i: int| 0 <= i < all.len() implies (#[trigger] all[i]).len() != 0 by {
                if i < all0.len() { assert(all[i] == all0[i]); } else { assert(all[i] == h[i - all0.len()]); }
            }
        }
        fuel = fuel - 1;
    }
    (!state.should_continue(), Ghost(all))
}
//@ end

} // verus!
fn main() {}
