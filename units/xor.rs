//@ unit xor
// Xor::execute (air/src/execution_step/instructions/xor.rs) and Seq::execute (.../seq.rs): C18.V1, C18.V3.
//
// How the contract sees "which branch ran": the ExecutionCtx shim carries a ghost log of child executions.
// The trait method `ExecutableInstruction::execute` is specified only as "the log is extended"; the shim of the
// leaf `Instruction::execute` appends exactly one entry (its own id, the result it returned, and the
// subgraph-completeness flag it left behind). Everything else an instruction may do to the context is left
// unspecified. The real `impl ExecutableInstruction for Xor/Seq` methods are lifted into inherent impls (so
// that they get a vacuity canary); the trait impls below delegate to them, which also checks that the real
// compound instructions satisfy the trait-level clause the leaf shim relies on.
//
// Trusted part of this file: the opaque Instruction (id only) and its `execute` shim, the trait declaration,
// the opaque error payloads, LastErrorDescriptor/ErrorDescriptor method shims (no contract: they take `&mut`
// of their own field only, so Verus frames everything else), `is_match_or_mismatch` (no contract; logging only).
use vstd::prelude::*;
verus! {

use std::rc::Rc;

// ---------------------------------------------------------------- errors: real enum, real `is_catchable`
pub struct CatchableError { pub x: u8 }
pub struct UncatchableError { pub x: u8 }

//@ lift air/src/execution_step/errors/execution_errors.rs :: enum ExecutionError
//@ derive
//@ end

pub type ExecutionResult<T> = Result<T, ExecutionError>;

// "catchable" as the property statement uses the word
pub open spec fn catchable(e: ExecutionError) -> bool { e is Catchable }

impl ExecutionError {
//@ lift air/src/execution_step/errors/execution_errors.rs :: impl ExecutionError :: fn is_catchable
//@ props C18
//@ ret r
//@ spec
        ensures r == catchable(*self)
//@ end

    // real: looks inside the Rc<CatchableError>; used only to decide whether to log
    #[verifier::external_body]
    pub fn is_match_or_mismatch(&self) -> bool { unimplemented!() }
}

// ---------------------------------------------------------------- shim: context (trusted)
pub struct LastErrorDescriptor { pub x: u8 }
impl LastErrorDescriptor {
    #[verifier::external_body] pub fn meet_xor_right_branch(&mut self) { unimplemented!() }
}
// the `:error:` descriptor: a ghost log of the operations performed on it (the real ones: error_descriptor.rs)
pub enum ErrOp { SetOriginal(ExecutionError), Enable, Clear }
pub type ErrOps = vstd::seq::Seq<ErrOp>;
pub struct ErrorDescriptor { pub ops: Ghost<ErrOps> }
impl ErrorDescriptor {
    #[verifier::external_body] pub fn set_original_execution_error(&mut self, e: &ExecutionError)
        ensures final(self).ops@ == old(self).ops@.push(ErrOp::SetOriginal(*e)) { unimplemented!() }
    #[verifier::external_body] pub fn enable_error_setting(&mut self)
        ensures final(self).ops@ == old(self).ops@.push(ErrOp::Enable) { unimplemented!() }
    // real: `if self.error_can_be_set { self.error = no_error(); }`
    #[verifier::external_body] pub fn clear_error_object_if_needed(&mut self)
        ensures final(self).ops@ == old(self).ops@.push(ErrOp::Clear) { unimplemented!() }
}
pub struct TraceHandler { pub x: u8 }

// (the AST's `Seq` shadows vstd's, hence the alias)
pub type Log = vstd::seq::Seq<Ran>;
// one child execution, as recorded in the ghost log
pub struct Ran {
    pub id: int,                        // which child
    pub res: ExecutionResult<()>,       // what it returned
    pub complete: bool,                 // `is_subgraph_complete()` right after it returned
    pub err_pre: ErrOps,                // what had been done to the `:error:` descriptor when it started
    pub err: ErrOps,                    // ... and when it returned (a child may do anything to it)
    pub peers_pre: vstd::seq::Seq<String>, // `next_peer_pks` when it started
    pub peers: vstd::seq::Seq<String>,  // `next_peer_pks` when it returned (C19: where the particle goes next)
}

pub struct ExecutionCtx<'i> {
    pub last_error_descriptor: LastErrorDescriptor,
    pub error_descriptor: ErrorDescriptor,
    pub subgraph_completeness: bool,
    pub next_peer_pks: Vec<String>,
    pub log: Ghost<Log>,
    pub ph: core::marker::PhantomData<&'i u8>,
}

impl ExecutionCtx<'_> {
//@ lift air/src/execution_step/execution_context/context.rs :: impl ExecutionCtx<'_> :: fn flush_subgraph_completeness
//@ props C18
//@ spec
        ensures final(self).subgraph_completeness, final(self).log@ == old(self).log@, final(self).error_descriptor == old(self).error_descriptor,
            final(self).next_peer_pks == old(self).next_peer_pks
//@ end

//@ lift air/src/execution_step/execution_context/context.rs :: impl ExecutionCtx<'_> :: fn is_subgraph_complete
//@ props C18
//@ ret r
//@ spec
        ensures r == self.subgraph_completeness
//@ end
}

// ---------------------------------------------------------------- shim: instructions (trusted)
pub trait ExecutableInstruction<'i> {
    // trait level: an instruction only ever appends to the log
    fn execute(&self, exec_ctx: &mut ExecutionCtx<'i>, trace_ctx: &mut TraceHandler) -> (r: ExecutionResult<()>)
        ensures old(exec_ctx).log@.is_prefix_of(final(exec_ctx).log@);
}

// the child of an xor/seq: an arbitrary instruction, known only by an id
pub struct Instruction<'i> { pub id: u64, pub ph: core::marker::PhantomData<&'i u8> }

impl<'i> ExecutableInstruction<'i> for Instruction<'i> {
    #[verifier::external_body]
    fn execute(&self, exec_ctx: &mut ExecutionCtx<'i>, trace_ctx: &mut TraceHandler) -> (r: ExecutionResult<()>)
        ensures final(exec_ctx).log@ == old(exec_ctx).log@.push(
            Ran { id: self.id as int, res: r, complete: final(exec_ctx).subgraph_completeness,
                  err_pre: old(exec_ctx).error_descriptor.ops@, err: final(exec_ctx).error_descriptor.ops@,
                  peers_pre: old(exec_ctx).next_peer_pks@, peers: final(exec_ctx).next_peer_pks@ })
    { unimplemented!() }
}

//@ lift crates/air-lib/air-parser/src/ast/instructions.rs :: struct Xor
//@ derive
//@ end

//@ lift crates/air-lib/air-parser/src/ast/instructions.rs :: struct Seq
//@ derive
//@ end

//@ lift air/src/execution_step/instructions/xor.rs :: fn print_xor_log
//@ props C18
//@ end

// ---------------------------------------------------------------- C18.V1
// what the property statement demands of an xor, as a relation between the log before, the log after and the result
pub open spec fn xor_spec(left: int, right: int, log0: Log, log1: Log, r: ExecutionResult<()>, err1: ErrOps, peers1: vstd::seq::Seq<String>) -> bool {
    let n = log0.len() as int;
    // the left branch always runs, first
    &&& log1.len() > n
    // C19: an xor never takes back a peer a branch has marked a call as sent to -- the trace of a failed left branch is kept, so
    // the peers it forwarded to must be kept too: every branch starts with the list as it was (the right one with what the failed
    // left one left behind) and the result is exactly what the last branch that ran left behind
    &&& peers1 == log1[log1.len() - 1].peers
    &&& (log1.len() == n + 2 ==> log1[n + 1].peers_pre == log1[n].peers)
    &&& log1.subrange(0, n) =~= log0
    &&& log1[n].id == left
    &&& if (log1[n].res matches Err(e) && catchable(e)) {
            // left failed with a catchable error: the right branch runs (once, after left) and its result is the xor's result
            &&& log1.len() == n + 2
            &&& log1[n + 1].id == right
            &&& r == log1[n + 1].res
            // inside the right branch the error descriptor carries THAT failure and accepts the errors of the branch ...
            &&& log1[n + 1].err_pre == log1[n].err.push(ErrOp::SetOriginal(log1[n].res->Err_0)).push(ErrOp::Enable)
            // ... and only a caught error is ever cleared: once, after the right branch
            &&& err1 == (if r is Ok { log1[n + 1].err.push(ErrOp::Clear).push(ErrOp::Enable) } else { log1[n + 1].err.push(ErrOp::Clear) })
        } else {
            // successful or still-waiting left branch (Ok, subgraph complete or not), or uncatchable error:
            // the right branch does not run, left's result is returned unchanged
            &&& log1.len() == n + 1
            &&& r == log1[n].res
            // and the xor does not touch the error descriptor: an xor that catches nothing, nested in the catch branch of another
            // one, must not wipe the error that one is handling
            &&& err1 == log1[n].err
        }
}

// Verus limitation (measured): after a guarded arm whose body mutates a `&mut` parameter, the fall-through arm
// loses `final(param) == *param` unless the parameter is touched again; a ghost no-op in a proof block restores it.
// Hence the one rewrite below (`res => res,` gets a proof-only no-op).
impl<'i> Xor<'i> {
//@ lift air/src/execution_step/instructions/xor.rs :: impl <'i> super::ExecutableInstruction<'i> for Xor<'i> :: fn execute
//@ name Xor::execute
//@ props C18 C19
//@ ret r
//@ rewrite 1 "res => res," => "res => { proof { exec_ctx.log@ = exec_ctx.log@; } res }"
//@ spec
        ensures xor_spec(self.0.id as int, self.1.id as int, old(exec_ctx).log@, final(exec_ctx).log@, r, final(exec_ctx).error_descriptor.ops@, final(exec_ctx).next_peer_pks@)
//@ end
}

impl<'i> ExecutableInstruction<'i> for Xor<'i> {
    fn execute(&self, exec_ctx: &mut ExecutionCtx<'i>, trace_ctx: &mut TraceHandler) -> (r: ExecutionResult<()>)
        ensures xor_spec(self.0.id as int, self.1.id as int, old(exec_ctx).log@, final(exec_ctx).log@, r, final(exec_ctx).error_descriptor.ops@, final(exec_ctx).next_peer_pks@)
    { Xor::execute(self, exec_ctx, trace_ctx) }
}

// ---------------------------------------------------------------- C18.V3
// seq: the second instruction runs iff the first returned Ok and left the subgraph complete
pub open spec fn seq_spec(first: int, second: int, log0: Log, log1: Log, r: ExecutionResult<()>, err1: ErrOps, peers1: vstd::seq::Seq<String>) -> bool {
    let n = log0.len() as int;
    &&& log1.len() > n
    // a seq itself touches neither the `:error:` descriptor nor the list of next peers: the second instruction starts with what the
    // first left behind and the seq ends with what its last instruction left behind (C18, C19)
    &&& err1 == log1[log1.len() - 1].err
    &&& peers1 == log1[log1.len() - 1].peers
    &&& (log1.len() == n + 2 ==> log1[n + 1].err_pre == log1[n].err && log1[n + 1].peers_pre == log1[n].peers)
    &&& log1.subrange(0, n) =~= log0
    &&& log1[n].id == first
    &&& if log1[n].res is Ok && log1[n].complete {
            &&& log1.len() == n + 2
            &&& log1[n + 1].id == second
            &&& r == log1[n + 1].res
        } else {
            &&& log1.len() == n + 1
            &&& r == log1[n].res
        }
}

impl<'i> Seq<'i> {
//@ lift air/src/execution_step/instructions/seq.rs :: impl <'i> super::ExecutableInstruction<'i> for Seq<'i> :: fn execute
//@ name Seq::execute
//@ props C18 C19
//@ ret r
//@ spec
        ensures seq_spec(self.0.id as int, self.1.id as int, old(exec_ctx).log@, final(exec_ctx).log@, r, final(exec_ctx).error_descriptor.ops@, final(exec_ctx).next_peer_pks@)
//@ end
}

impl<'i> ExecutableInstruction<'i> for Seq<'i> {
    fn execute(&self, exec_ctx: &mut ExecutionCtx<'i>, trace_ctx: &mut TraceHandler) -> (r: ExecutionResult<()>)
        ensures seq_spec(self.0.id as int, self.1.id as int, old(exec_ctx).log@, final(exec_ctx).log@, r, final(exec_ctx).error_descriptor.ops@, final(exec_ctx).next_peer_pks@)
    { Seq::execute(self, exec_ctx, trace_ctx) }
}

} // verus!
fn main() {}
