#![feature(allocator_api)]
//@ unit cid_record_sign
// C03, signature clause, producer side: what the current peer's CID tracker keeps, and what is signed with which key and salt.
//   crates/air-lib/interpreter-signatures/src/trackers.rs   PeerCidTracker::{new, register, gen_signature}, sign_cids
//   air/src/signing_step.rs                                 sign_produced_cids @ cfg(feature = "gen_signatures")
//   air/src/farewell_step/outcome.rs                        sign_result (the unconditional signing of every outcome with new data)
//   air/src/execution_step/execution_context/context.rs     RcRunParameters::from_run_parameters (salt := particle id),
//                                                           ExecutionCtx::new (the tracker starts empty, for run_parameters.current_peer_id)
// Statement (C03): "the signature of every peer with results in it verifies for this particle ... the current peer's own results
// are signed". The verifier (interpreter_data/verification.rs) checks, per peer, `pk.verify(sorted(cids of that peer in the trace),
// salt = particle id, signature stored under pk)` where the message is `SaltedData::new(&cids, salt).serialize()`. So the producer
// must put, under `keypair.public()`, exactly `sign(keypair, salted(sorted(tracker.cids), particle id))`, and the tracker must hold
// exactly the cids registered for the current peer (unit cid_record / cid_record_canon: which ones are registered).
//
// Trusted part of this file:
//  * CID shim (`get_inner` returns the inner Rc<str>), `Rc::clone` is the identity, `&str == String` compares contents,
//    `From<T> for T` is the identity, `From<&str> for Rc<str>` keeps the text (method `to_rc_str`, one declared rewrite, 2 occurrences);
//  * Ed25519 and serialisation are uninterpreted: `ed_sign(key, msg)`, `salted(cids, salt)` (borsh of (cids, salt): the same
//    `SaltedData::new(..).serialize()` the verifier uses), `sorted(cids)` (`sort_unstable`; declared rewrite to a helper);
//  * SignatureStore: ghost map, `put` = Map::insert (real: HashMap::insert); KeyPair::public = `public_of(keypair)`;
//  * signing_error_into_outcome / UncatchableError::SigningError: opaque constructors;
//  * in ExecutionCtx::new: ExecutionCidState::from_cid_info, Streams::new, the Default impls of the other fields (opaque).
use vstd::prelude::*;
verus! {

use std::rc::Rc;
use core::marker::PhantomData;
pub type CidRef = str;

pub mod ax {
    use vstd::prelude::*;
    use vstd::std_specs::cmp::PartialEqSpec;
    // std: `impl PartialEq<String> for &str` compares the contents (vstd specifies only str/str and String/String)
    #[verifier::external_body]
    pub broadcast proof fn axiom_str_eq_string_obeys()
        ensures #[trigger] <&str as PartialEqSpec<String>>::obeys_eq_spec() {}
    #[verifier::external_body]
    pub broadcast proof fn axiom_str_eq_string(a: &str, b: &String)
        ensures #[trigger] <&str as PartialEqSpec<String>>::eq_spec(&a, b) == (a@ == b@) {}
}
broadcast use {ax::axiom_str_eq_string_obeys, ax::axiom_str_eq_string};
pub assume_specification<T>[ <T as core::convert::From<T>>::from ](t: T) -> (r: T) ensures r == t;
pub assume_specification<T: ?Sized, A: std::alloc::Allocator + Clone>[ <std::rc::Rc<T, A> as Clone>::clone ](a: &std::rc::Rc<T, A>) -> (r: std::rc::Rc<T, A>)
    ensures r == *a;
// std: `impl From<&str> for Rc<str>` copies the text (its two-binder signature cannot be named in an assume_specification; the two
// `.as_str().into()` of from_run_parameters are rewritten to this method)
pub trait ToRcStr {
    spec fn txt(&self) -> Seq<char>;
    fn to_rc_str(&self) -> (r: Rc<str>) ensures r@ == self.txt();
}
impl ToRcStr for str {
    open spec fn txt(&self) -> Seq<char> { self@ }
    #[verifier::external_body]
    fn to_rc_str(&self) -> (r: Rc<str>) { self.into() }
}

// ---------------------------------------------------------------- shim: CID, keys, signatures (trusted)
pub struct CID<T> { pub inner: Rc<CidRef>, pub ph: PhantomData<T> }
impl<T> CID<T> {
    // real: `self.0.clone()`
    #[verifier::external_body]
    pub fn get_inner(&self) -> (r: Rc<CidRef>) ensures r == self.inner { unimplemented!() }
}
pub mod fluence_keypair {
    pub struct KeyPair { pub x: u8 }
    pub struct Signature { pub x: u8 }
    pub mod error { pub struct SigningError { pub x: u8 } }
}
use fluence_keypair::error::SigningError;
// Ed25519 (fluence_keypair::KeyPair::sign): a function of the key and the message
pub uninterp spec fn ed_sign(k: fluence_keypair::KeyPair, msg: Seq<u8>) -> Result<fluence_keypair::Signature, SigningError>;
impl fluence_keypair::KeyPair {
    #[verifier::external_body]
    pub fn sign(&self, msg: &Vec<u8>) -> (r: Result<fluence_keypair::Signature, SigningError>)
        ensures r == ed_sign(*self, msg@)
    { unimplemented!() }
}
pub struct Signature(pub fluence_keypair::Signature);
// real (lib.rs): `impl From<fluence_keypair::Signature> for Signature` wraps the encoded signature
impl From<fluence_keypair::Signature> for Signature { fn from(s: fluence_keypair::Signature) -> Self { Signature(s) } }
impl vstd::std_specs::convert::FromSpecImpl<fluence_keypair::Signature> for Signature {
    open spec fn obeys_from_spec() -> bool { true }
    open spec fn from_spec(s: fluence_keypair::Signature) -> Signature { Signature(s) }
}
pub struct PublicKey { pub x: u8 }
pub struct KeyPair(pub fluence_keypair::KeyPair);
pub uninterp spec fn public_of(k: KeyPair) -> PublicKey;
impl KeyPair {
    #[verifier::external_body]
    pub fn public(&self) -> (r: PublicKey) ensures r == public_of(*self) { unimplemented!() }
}
// the message both sides sign / verify: borsh of (cids, salt)
pub uninterp spec fn salted(cids: Seq<Rc<CidRef>>, salt: Seq<char>) -> Seq<u8>;
pub struct SaltedData<'ctx> { pub data: &'ctx Vec<Rc<CidRef>>, pub salt: &'ctx str }
impl<'ctx> SaltedData<'ctx> {
    pub fn new(data: &'ctx Vec<Rc<CidRef>>, salt: &'ctx str) -> (r: Self) ensures r.data == data, r.salt == salt { Self { data, salt } }
    // real: `borsh::to_vec(&self).expect(..)`
    #[verifier::external_body]
    pub fn serialize(&self) -> (r: Vec<u8>) ensures r@ == salted(self.data@, self.salt@) { unimplemented!() }
}
// canonical order of a peer's cids (`sort_unstable` of Vec<Rc<str>>): a function of the sequence
pub uninterp spec fn sorted(cids: Seq<Rc<CidRef>>) -> Seq<Rc<CidRef>>;
#[verifier::external_body]
pub fn sort_unstable(cids: &mut Vec<Rc<CidRef>>) ensures final(cids)@ == sorted(old(cids)@) { unimplemented!() }

// `Vec::dedup` (not used by the code; given a specification so that a change which "canonicalises" the multiset into a set before
// signing is DECIDED -- the signed object is then deduped(sorted(..)), not sorted(..) -- instead of leaving the unit out of reach; seed3-C03)
pub uninterp spec fn deduped<T>(s: Seq<T>) -> Seq<T>;
pub assume_specification<T: PartialEq, A: core::alloc::Allocator>[ Vec::<T, A>::dedup ](v: &mut Vec<T, A>)
    ensures final(v)@ == deduped(old(v)@);

// the signature C03 demands for a set of registered cids: Ed25519 of the salted, sorted cids
pub open spec fn sig_of(cids: Seq<Rc<CidRef>>, salt: Seq<char>, k: fluence_keypair::KeyPair) -> Result<fluence_keypair::Signature, SigningError> {
    ed_sign(k, salted(sorted(cids), salt))
}

// ================================================================ trackers.rs
//@ lift crates/air-lib/interpreter-signatures/src/trackers.rs :: struct PeerCidTracker
//@ pub-fields
//@ derive
//@ end

// ---- the bridge to the ghost log of units cid_record / cid_record_canon: of all (peer, cid) registrations, the tracker keeps
// ---- the cids registered for its own peer, in order
pub open spec fn kept(recorded: Seq<(Seq<char>, Rc<CidRef>)>, me: Seq<char>) -> Seq<Rc<CidRef>>
    decreases recorded.len()
{
    if recorded.len() == 0 { Seq::empty() }
    else if recorded.last().0 == me { kept(recorded.drop_last(), me).push(recorded.last().1) }
    else { kept(recorded.drop_last(), me) }
}

impl PeerCidTracker {
//@ lift crates/air-lib/interpreter-signatures/src/trackers.rs :: impl PeerCidTracker :: fn new
//@ name PeerCidTracker::new
//@ props C03
//@ ret r
//@ sig 1 "impl Into<Rc<String>>" => "Rc<String>"
//@ spec
        // a fresh tracker has registered nothing
        ensures r.current_peer_id == current_peer_id, r.cids@ =~= Seq::<Rc<CidRef>>::empty()
//@ end

//@ lift crates/air-lib/interpreter-signatures/src/trackers.rs :: impl PeerCidTracker :: fn register
//@ name PeerCidTracker::register
//@ props C03
//@ spec
        ensures
            final(self).current_peer_id == old(self).current_peer_id,
            // kept iff registered for the current peer: exactly one more entry, that cid, at the end
            peer@ == old(self).current_peer_id@ ==> final(self).cids@ == old(self).cids@.push(cid.inner),
            peer@ != old(self).current_peer_id@ ==> final(self).cids@ == old(self).cids@,
//@ end

//@ lift crates/air-lib/interpreter-signatures/src/trackers.rs :: impl PeerCidTracker :: fn gen_signature
//@ name PeerCidTracker::gen_signature
//@ props C03
//@ ret r
//@ rewrite 1 ".map(Into::into)" => ".map(|s: fluence_keypair::Signature| -> (o: crate::Signature) ensures o.0 == s { s.into() })"
//@ spec
        // every registered cid, nothing else, with the salt and the key given
        ensures match sig_of(self.cids@, salt@, keypair.0) {
            Ok(s) => r matches Ok(x) && x.0 == s,
            Err(e) => r matches Err(x) && x == e,
        }
//@ end
}

//@ lift crates/air-lib/interpreter-signatures/src/trackers.rs :: fn sign_cids
//@ props C03
//@ ret r
//@ rewrite 1 "cids.sort_unstable();" => "sort_unstable(&mut cids);"
//@ spec
    ensures r == sig_of(cids@, salt@, *keypair)
//@ end

//@ lemma kept_step props C03
// one more registration (p, c): the tracker's contract above IS `kept` of the log extended by (p, c)
proof fn kept_step(recorded: Seq<(Seq<char>, Rc<CidRef>)>, me: Seq<char>, p: Seq<char>, c: Rc<CidRef>)
    ensures kept(recorded.push((p, c)), me) == (if p == me { kept(recorded, me).push(c) } else { kept(recorded, me) })
{
    assert(recorded.push((p, c)).drop_last() =~= recorded);
}
//@ end

// ================================================================ signing_step.rs, farewell_step/outcome.rs
pub struct SignatureStore { pub m: Ghost<Map<PublicKey, Signature>>, pub x: u8 }
impl SignatureStore {
    // real: `self.0.insert(peer_pk, signature);`
    #[verifier::external_body]
    pub fn put(&mut self, peer_pk: PublicKey, signature: Signature)
        ensures final(self).m@ == old(self).m@.insert(peer_pk, signature)
    { unimplemented!() }
}
pub struct UncatchableError { pub x: u8 }
impl UncatchableError {
    // real: the tuple variant `UncatchableError::SigningError(SigningError)`
    #[verifier::external_body]
    #[allow(non_snake_case)]
    pub fn SigningError(e: SigningError) -> UncatchableError { unimplemented!() }
}
pub enum ExecutionError { Catchable(u8), Uncatchable(UncatchableError) }
impl From<UncatchableError> for ExecutionError { fn from(e: UncatchableError) -> Self { ExecutionError::Uncatchable(e) } }
impl vstd::std_specs::convert::FromSpecImpl<UncatchableError> for ExecutionError {
    open spec fn obeys_from_spec() -> bool { true }
    open spec fn from_spec(e: UncatchableError) -> ExecutionError { ExecutionError::Uncatchable(e) }
}

// what C03 demands of a signing step: the store gets, under the public key of `keypair`, the signature of exactly the tracked
// cids for `salt`; every other entry is kept; if signing fails nothing is stored
pub open spec fn signed_into(tracker: PeerCidTracker, s0: SignatureStore, s1: SignatureStore, salt: Seq<char>, keypair: KeyPair, ok: bool) -> bool {
    match sig_of(tracker.cids@, salt, keypair.0) {
        Ok(sig) => ok && s1.m@ == s0.m@.insert(public_of(keypair), Signature(sig)),
        Err(_) => !ok && s1.m@ == s0.m@,
    }
}

//@ lift air/src/signing_step.rs :: fn sign_produced_cids @ cfg(feature = "gen_signatures")
//@ props C03
//@ ret r
//@ rewrite 1 "use crate::UncatchableError;" => ""
//@ rewrite 1 ".map_err(UncatchableError::SigningError)?" => ".map_err(|e: SigningError| -> (o: ExecutionError) { UncatchableError::SigningError(e).into() })?"
//@ spec
    ensures
        signed_into(*old(signature_tracker), *old(signature_store), *final(signature_store), salt@, *keypair, r is Ok),
        // the tracker is only read
        *final(signature_tracker) == *old(signature_tracker),
//@ end

// ---- the context: who the tracker collects for, and which salt the farewell step signs with
pub struct Scalars<'i> { pub opaque_payload: u64, pub ph: PhantomData<&'i u8> }
pub struct Streams { pub x: u8 }
pub struct StreamMaps { pub x: u8 }
pub struct LastErrorDescriptor { pub x: u8 }
pub struct ErrorDescriptor { pub x: u8 }
pub struct InstructionTracker { pub x: u8 }
pub struct CallResults { pub x: u8 }
pub struct CallRequests { pub x: u8 }
pub struct ExecutionCidState { pub x: u8 }
pub struct CidInfo { pub x: u8 }
impl<'i> Default for Scalars<'i> { fn default() -> Self { Scalars { opaque_payload: 0, ph: PhantomData } } }
impl Default for StreamMaps { fn default() -> Self { StreamMaps { x: 0 } } }
impl Default for LastErrorDescriptor { fn default() -> Self { LastErrorDescriptor { x: 0 } } }
impl Default for ErrorDescriptor { fn default() -> Self { ErrorDescriptor { x: 0 } } }
impl Default for InstructionTracker { fn default() -> Self { InstructionTracker { x: 0 } } }
impl Default for CallRequests { fn default() -> Self { CallRequests { x: 0 } } }
impl Streams { pub fn new() -> Self { Streams { x: 0 } } }
impl ExecutionCidState {
    #[verifier::external_body]
    pub fn from_cid_info(prev_cid_info: CidInfo, current_cid_info: CidInfo) -> Self { unimplemented!() }
}
// the fields of interpreter-interface's RunParameters this unit reads
pub struct RunParameters { pub init_peer_id: String, pub current_peer_id: String, pub timestamp: u64, pub ttl: u32, pub particle_id: String }

//@ lift air/src/execution_step/execution_context/context.rs :: struct ExecCtxIngredients
//@ derive
//@ end
//@ lift air/src/execution_step/execution_context/context.rs :: struct RcRunParameters
//@ derive
//@ end
impl RcRunParameters {
//@ lift air/src/execution_step/execution_context/context.rs :: impl RcRunParameters :: fn from_run_parameters
//@ name RcRunParameters::from_run_parameters
//@ props C03
//@ ret r
//@ rewrite 2 ".as_str().into()" => ".as_str().to_rc_str()"
//@ spec
        // the salt of the run IS the particle id; the current peer is the host's current peer (not the init peer)
        ensures r.salt@ == run_parameters.particle_id@, r.current_peer_id@ == run_parameters.current_peer_id@,
            r.init_peer_id@ == run_parameters.init_peer_id@,
//@ end
}

//@ lift air/src/execution_step/execution_context/context.rs :: struct ExecutionCtx
//@ end

impl<'i> ExecutionCtx<'i> {
    // spec views (the struct has a private field, so Verus treats it as opaque in public contracts)
    pub closed spec fn tracker(&self) -> PeerCidTracker { self.peer_cid_tracker }
    pub closed spec fn store(&self) -> SignatureStore { self.signature_store }
    pub closed spec fn salt(&self) -> Seq<char> { self.run_parameters.salt@ }
    pub closed spec fn me(&self) -> Seq<char> { self.run_parameters.current_peer_id@ }

//@ lift air/src/execution_step/execution_context/context.rs :: impl <'i> ExecutionCtx<'i> :: fn new
//@ name ExecutionCtx::new
//@ props C03
//@ ret r
//@ spec
        ensures
            // the tracker of a fresh context is empty and collects for the CURRENT peer of this run
            r.tracker().cids@ =~= Seq::<Rc<CidRef>>::empty(),
            r.tracker().current_peer_id@ == run_parameters.current_peer_id@, r.me() == run_parameters.current_peer_id@,
            // signatures are made for THIS particle
            r.salt() == run_parameters.particle_id@,
            // the signatures of the other peers (merged from the verified previous/current data) are carried over as they are
            r.store() == signature_store,
//@ end

//@ lift air/src/execution_step/execution_context/context.rs :: impl <'i> ExecutionCtx<'i> :: fn record_call_cid
//@ name ExecutionCtx::record_call_cid
//@ props C03
//@ spec
        // on the real tracker: kept iff it is for the current peer (the peer the tracker was created for)
        ensures
            final(self).tracker().current_peer_id == old(self).tracker().current_peer_id,
            final(self).store() == old(self).store(), final(self).salt() == old(self).salt(), final(self).me() == old(self).me(),
            final(self).tracker().cids@ == (if peer_id@ == old(self).tracker().current_peer_id@ { old(self).tracker().cids@.push(cid.inner) } else { old(self).tracker().cids@ }),
//@ end

//@ lift air/src/execution_step/execution_context/context.rs :: impl <'i> ExecutionCtx<'i> :: fn record_canon_cid
//@ name ExecutionCtx::record_canon_cid
//@ props C03
//@ spec
        ensures
            final(self).tracker().current_peer_id == old(self).tracker().current_peer_id,
            final(self).store() == old(self).store(), final(self).salt() == old(self).salt(), final(self).me() == old(self).me(),
            final(self).tracker().cids@ == (if peer_id@ == old(self).tracker().current_peer_id@ { old(self).tracker().cids@.push(cid.inner) } else { old(self).tracker().cids@ }),
//@ end
}
pub struct ServiceResultCidAggregate { pub x: u8 }
pub struct CanonResultCidAggregate { pub x: u8 }

pub struct SoftLimitsTriggering { pub x: u8 }
pub struct InterpreterOutcome { pub x: u8 }
#[verifier::external_body]
pub fn signing_error_into_outcome(error: SigningError, soft_limits_triggering: SoftLimitsTriggering) -> InterpreterOutcome { unimplemented!() }

//@ lift air/src/farewell_step/outcome.rs :: fn sign_result
//@ props C03
//@ ret r
//@ spec
    ensures
        // every outcome with new data: the current peer's registered cids are signed with the key given, for the run's salt
        signed_into(old(exec_ctx).tracker(), old(exec_ctx).store(), final(exec_ctx).store(), old(exec_ctx).salt(), *keypair, r is Ok),
        final(exec_ctx).tracker() == old(exec_ctx).tracker(),
//@ end

} // verus!
fn main() {}
