//@ unit version
// The interpreter-version gate of C21: check_version_compatibility / parse_data / try_to_envelope / try_to_data
// (air/src/preparation_step/preparation.rs), min_supported_version (interpreter_versions.rs), the error
// constructors (errors.rs), Versions / InterpreterDataEnvelope / Versions::new (interpreter-data).
//
// Trusted part of this file:
//  * semver::Version: opaque; `Ord for semver::Version` is the uninterpreted `version_cmp` (C21.N tests the real
//    one natively); the only order law assumed is reflexivity (`axiom_version_cmp_refl`), used for "empty data passes".
//  * once_cell Lazy + the static MINIMAL_INTERPRETER_VERSION: the real static is `Lazy::new(|| Version::from_str("0.61.0")..)`;
//    Verus rejects closures in static initialisers, so the static is a shim whose value is the spec constant
//    `min_version()`. `min_supported_version` itself is lifted (it must read that static).
//  * deserialisation (rmp_serde / rkyv) is the uninterpreted `decode_envelope` / `decode_data`; InterpreterDataEnvelope::new
//    is a stub (real: versions = Versions::new(v), inner_data = serialised default data).
//  * Cow<'a, [u8]> shim (vstd's Cow has no spec for Deref).
use vstd::prelude::*;
verus! {

// ---------------------------------------------------------------- shim: semver (trusted)
pub mod semver {
    use vstd::prelude::*;
    use core::cmp::Ordering;
    #[verifier::external_body]
    pub struct Version { _opaque: () }
    // stands for `<semver::Version as Ord>::cmp`
    pub uninterp spec fn version_cmp(a: Version, b: Version) -> Ordering;
    impl Clone for Version {
        #[verifier::external_body]
        fn clone(&self) -> (r: Self) ensures r == *self { unimplemented!() }
    }
    impl PartialEq for Version {
        #[verifier::external_body]
        fn eq(&self, o: &Self) -> bool { unimplemented!() }
    }
    impl PartialOrd for Version {
        #[verifier::external_body]
        fn partial_cmp(&self, o: &Self) -> Option<Ordering> { unimplemented!() }
    }
    // semver: `partial_cmp = Some(self.cmp(other))`
    impl vstd::std_specs::cmp::PartialOrdSpecImpl<Version> for Version {
        open spec fn obeys_partial_cmp_spec() -> bool { true }
        open spec fn partial_cmp_spec(&self, o: &Version) -> Option<Ordering> { Some(version_cmp(*self, *o)) }
    }
    impl vstd::std_specs::cmp::PartialEqSpecImpl<Version> for Version {
        open spec fn obeys_eq_spec() -> bool { false }
        open spec fn eq_spec(&self, o: &Version) -> bool { *self == *o }
    }
}
use semver::version_cmp;
// the strict order `<` of the property statement
pub open spec fn version_lt(a: semver::Version, b: semver::Version) -> bool { version_cmp(a, b) == core::cmp::Ordering::Less }
#[verifier::external_body]
pub proof fn axiom_version_cmp_refl(a: semver::Version) ensures version_cmp(a, a) == core::cmp::Ordering::Equal {}

// ---------------------------------------------------------------- shim: Lazy and the statics (trusted)
pub uninterp spec fn min_version() -> semver::Version;       // value of MINIMAL_INTERPRETER_VERSION ("0.61.0")
pub uninterp spec fn current_version() -> semver::Version;   // value of INTERPRETER_VERSION (CARGO_PKG_VERSION)
pub struct Lazy<T> { pub _p: core::marker::PhantomData<T> }
impl<T> Lazy<T> {
    pub uninterp spec fn value(&self) -> T;
    #[verifier::external_body]
    pub fn force(this: &Lazy<T>) -> (r: &T) ensures *r == this.value() { unimplemented!() }
}
#[verifier::external_body]
pub const fn lazy_min() -> (r: Lazy<semver::Version>) ensures r.value() == min_version() { Lazy { _p: core::marker::PhantomData } }
#[verifier::external_body]
pub const fn lazy_cur() -> (r: Lazy<semver::Version>) ensures r.value() == current_version() { Lazy { _p: core::marker::PhantomData } }
exec static MINIMAL_INTERPRETER_VERSION: Lazy<semver::Version> ensures MINIMAL_INTERPRETER_VERSION.value() == min_version() { lazy_min() }
exec static INTERPRETER_VERSION: Lazy<semver::Version> ensures INTERPRETER_VERSION.value() == current_version() { lazy_cur() }

//@ lift air/src/preparation_step/interpreter_versions.rs :: fn min_supported_version
//@ props C21
//@ ret r
//@ spec
    ensures *r == min_version()
//@ end

//@ lift air/src/preparation_step/interpreter_versions.rs :: fn interpreter_version
//@ props C21
//@ ret r
//@ spec
    ensures *r == current_version()
//@ end

// ---------------------------------------------------------------- shim: interpreter-data (trusted)
pub struct Cow<'a, B: ?Sized> { pub b: &'a B }
impl<'a, B: ?Sized> core::ops::Deref for Cow<'a, B> {
    type Target = B;
    fn deref(&self) -> (r: &B) ensures r == self.b { self.b }
}
// `<[u8]>::to_vec` has no vstd spec (only used to build an error payload)
pub assume_specification<T: Clone> [<[T]>::to_vec] (s: &[T]) -> (r: Vec<T>) ensures r@.len() == s@.len();
// air_interpreter_data::data_version()
#[verifier::external_body]
pub fn data_version() -> &'static semver::Version { unimplemented!() }

//@ lift crates/air-lib/interpreter-data/src/interpreter_data.rs :: struct Versions
//@ derive
//@ end
//@ lift crates/air-lib/interpreter-data/src/interpreter_data.rs :: struct InterpreterDataEnvelope
//@ derive
//@ end

impl Versions {
//@ lift crates/air-lib/interpreter-data/src/interpreter_data.rs :: impl Versions :: fn new
//@ props C21
//@ ret r
//@ spec
        ensures r.interpreter_version == interpreter_version
//@ end
}

#[verifier::external_body]
pub struct InterpreterData { _opaque: () }
pub struct DataDeserializationError { pub is_envelope: bool }

// what rmp_serde makes of an envelope, what rkyv makes of the inner data, the serialised default data
pub uninterp spec fn decode_envelope(bytes: Seq<u8>) -> Option<(Versions, Seq<u8>)>;
pub uninterp spec fn decode_data(bytes: Seq<u8>) -> Option<InterpreterData>;
pub uninterp spec fn default_inner() -> Seq<u8>;

impl<'data> InterpreterDataEnvelope<'data> {
    #[verifier::external_body]
    pub fn new(interpreter_version: semver::Version) -> (r: Self)
        ensures r.versions.interpreter_version == interpreter_version, r.inner_data.b@ == default_inner()
    { unimplemented!() }
    #[verifier::external_body]
    pub fn try_from_slice(slice: &'data [u8]) -> (r: Result<Self, DataDeserializationError>)
        ensures r is Ok <==> decode_envelope(slice@) is Some,
            r matches Ok(e) ==> decode_envelope(slice@) == Some((e.versions, e.inner_data.b@)),
    { unimplemented!() }
    #[verifier::external_body]
    pub fn try_get_versions(slice: &[u8]) -> Result<Versions, DataDeserializationError> { unimplemented!() }
}
impl InterpreterData {
    #[verifier::external_body]
    pub fn try_from_slice(slice: &[u8]) -> (r: Result<Self, DataDeserializationError>)
        ensures r is Ok <==> decode_data(slice@) is Some,
            r matches Ok(d) ==> decode_data(slice@) == Some(d),
    { unimplemented!() }
}

// ---------------------------------------------------------------- shim: PreparationError (the variants these functions build)
pub enum PreparationError {
    DataDeFailed { error: DataDeserializationError },
    EnvelopeDeFailed { error: DataDeserializationError },
    EnvelopeDeFailedWithVersions { error: DataDeserializationError, versions: Versions },
    UnsupportedInterpreterVersion { actual_version: semver::Version, required_version: semver::Version },
}
impl PreparationError {
//@ lift air/src/preparation_step/errors.rs :: impl PreparationError :: fn data_de_failed
//@ props C21
//@ ret r
//@ spec
        ensures r is DataDeFailed
//@ end
//@ lift air/src/preparation_step/errors.rs :: impl PreparationError :: fn envelope_de_failed
//@ props C21
//@ ret r
//@ spec
        ensures r is EnvelopeDeFailed
//@ end
//@ lift air/src/preparation_step/errors.rs :: impl PreparationError :: fn env_de_failed_with_versions
//@ props C21
//@ ret r
//@ spec
        ensures r is EnvelopeDeFailedWithVersions
//@ end
//@ lift air/src/preparation_step/errors.rs :: impl PreparationError :: fn unsupported_interpreter_version
//@ props C21
//@ ret r
//@ spec
        ensures r == (PreparationError::UnsupportedInterpreterVersion { actual_version, required_version })
//@ end
}

// ---------------------------------------------------------------- specs
// the envelope the preparation step sees for raw bytes: (interpreter version, inner data bytes)
pub open spec fn envelope_of(bytes: Seq<u8>) -> Option<(semver::Version, Seq<u8>)> {
    if bytes.len() == 0 {
        Some((min_version(), default_inner()))       // "empty current data is treated as empty data"
    } else {
        match decode_envelope(bytes) {
            Some((versions, inner)) => Some((versions.interpreter_version, inner)),
            None => None,
        }
    }
}

// ---------------------------------------------------------------- crate::preparation_step::preparation
pub mod preparation {
    use super::*;

//@ lift air/src/preparation_step/preparation.rs :: type PreparationResult
//@ end
//@ lift air/src/preparation_step/preparation.rs :: struct ParsedDataPair
//@ end

//@ lift air/src/preparation_step/preparation.rs :: fn check_version_compatibility
//@ props C21
//@ ret r
//@ spec
        ensures
            // C21.V1
            r is Err <==> version_lt(versions.interpreter_version, min_version()),
            r matches Err(e) ==> (e matches PreparationError::UnsupportedInterpreterVersion { actual_version, required_version }
                && actual_version == versions.interpreter_version && required_version == min_version()),
//@ end

//@ lift air/src/preparation_step/preparation.rs :: fn to_data_de_error
//@ props C21
//@ ret r
//@ spec
        ensures r is DataDeFailed
//@ end

//@ lift air/src/preparation_step/preparation.rs :: fn to_envelope_de_error
//@ props C21
//@ ret r
//@ spec
        ensures r is EnvelopeDeFailed || r is EnvelopeDeFailedWithVersions
//@ end

//@ lift air/src/preparation_step/preparation.rs :: fn try_to_envelope
//@ props C21
//@ ret r
//@ spec
        ensures
            r is Ok <==> envelope_of(raw_env_data@) is Some,
            r matches Ok(e) ==> envelope_of(raw_env_data@) == Some((e.versions.interpreter_version, e.inner_data.b@)),
            // empty data: the default envelope carrying the minimal version itself
            raw_env_data@.len() == 0 ==> (r matches Ok(e) && e.versions.interpreter_version == min_version()),
//@ end

//@ lift air/src/preparation_step/preparation.rs :: fn try_to_data
//@ props C21
//@ ret r
//@ spec
        ensures
            r is Ok <==> decode_data(raw_data@) is Some,
            r matches Ok(d) ==> decode_data(raw_data@) == Some(d),
//@ end

//@ lift air/src/preparation_step/preparation.rs :: fn parse_data
//@ props C21
//@ ret r
//@ spec
        ensures
            // C21.V2: the gate looks at the *current* envelope only ...
            r is Ok <==> (envelope_of(prev_data@) matches Some(pe) && envelope_of(current_data@) matches Some(ce)
                && !version_lt(ce.0, min_version())
                && decode_data(pe.1) is Some && decode_data(ce.1) is Some),
            r matches Ok(p) ==> (envelope_of(prev_data@) matches Some(pe) && envelope_of(current_data@) matches Some(ce)
                && decode_data(pe.1) == Some(p.prev_data) && decode_data(ce.1) == Some(p.current_data)),
            // ... and is applied before the inner data is decoded: an old current version is reported as such
            // whatever the inner data are
            (envelope_of(prev_data@) matches Some(pe) && envelope_of(current_data@) matches Some(ce) && version_lt(ce.0, min_version()))
                ==> (r matches Err(PreparationError::UnsupportedInterpreterVersion { actual_version, required_version })
                     && envelope_of(current_data@) matches Some(ce) && actual_version == ce.0 && required_version == min_version()),
//@ end
}

// empty current data passes the gate (needs only reflexivity of the order)
//@ lemma empty_current_data_passes_gate props C21
proof fn empty_current_data_passes_gate(bytes: Seq<u8>)
    requires bytes.len() == 0
    ensures envelope_of(bytes) matches Some(ce) && !version_lt(ce.0, min_version())
{
    axiom_version_cmp_refl(min_version());
}
//@ end

} // verus!
fn main() {}
