//@ unit tetraplets_map
// C17, part 3: the tetraplet of a lens applied to a canon MAP (`#%m.$.key...`, `#%m.length`) -- what unit tetraplets calls
// `map_lens_tet` (there it only NAMES the tetraplet returned by select_by_lambda_from_canon_map; here that tetraplet is derived).
//   air/src/execution_step/lambda_applier/applier.rs   (update_tetraplet_with_path, split_to_idx, select_by_path_from_canon_map_stream,
//                                                       select_by_path_from_canon_map, select_by_functor_from_canon_map,
//                                                       select_by_lambda_from_canon_map, MapLensResult::{new, with_functor})
//   air/src/execution_step/value_types/jvaluable/canon_stream_map.rs (&CanonStreamMap::apply_lambda_with_tetraplets)
// The value side of the same functions is property C24 (unit lambda, whose shims are reused here).
//
// Contract, from the property statement ("the peer, service and function that produced the value ... and the exact lens applied to
// it" = the element's own lens followed by the path applied to the element), `map_lensed`:
//   #%m.$.key.[i]        the tetraplet stored with the i-th value of that key's group, unchanged
//   #%m.$.key.[i].a.[1]  the same with lens = element.lens ++ "." ++ "a" "." "[1]"   (suffix_text: accessor texts joined by ".")
//   #%m.$.key            the key group is the map's: the MAP's tetraplet (the canon peer), lens = map.lens ++ the whole lens text
//   #%m.$.missing_key    the same tetraplet (an empty group)
//   #%m.length           (current peer, "", "", Display of the functor)           -- see OBSERVATION O3
// The map's own lens is empty (precondition `own_lens_empty`: a canon tetraplet is (peer, "", "", "") by construction and
// verify_canon (C14) admits no other from data), so "map.lens ++ text" and the code's "text" (prefix_with_path = false) coincide;
// update_tetraplet_with_path itself is specified exactly: lens' = (prefix ? old.lens : "") ++ text, other fields unchanged.
//
// OBSERVATION O3 (not failing): MapLensResult::with_functor renders the functor with `Display for Functor` = "length", every other
// path (scalars, iterators, canon streams since 9ae9eb1) with `Display for LambdaAST` = ".length": `[#%m.length]` arrives with lens
// "length". The contract below says `functor_text(f)`; to pin the dot, replace it by `lens_text(LambdaAST::Functor(f))`.
//
// Trusted part of this file: the shims of unit lambda (JValue, Scalars, StreamMapKey, NonEmpty, CanonStreamMap::index = HashMap::get
// by key_view, the `lambda_to_execution_error!` rewrite), the SecurityTetraplet shim of unit tetraplets, and
//  * texts: `lens_text` (Display for LambdaAST), `functor_text` (Display for Functor), `texts(body)` (Display of each accessor),
//    `joined(texts, sep)` (`[String]::join`), `format1_spec(fmt, arg)` (`format!` with one argument) are uninterpreted; ONE fact is
//    assumed: `format!(".{}", a)` is "." ++ a (axiom_format_dot). The separator and the format string stay the real literals.
//  * rewrites: `body.iter().map(ToString::to_string).collect::<Vec<_>>()` -> `accessor_texts(body)` (the i-th text is the Display of the
//    i-th accessor), `format!(` -> `format1(`, `stream.peekable().nth(idx)` -> `stream.nth_pair(idx)` (the idx-th item if there is one),
//    `canon_stream.iter().map(|v| (v.get_result().clone(), v.get_tetraplet()))` -> `canon_stream.pairs()` (the i-th pair carries the
//    i-th value's tetraplet), `String + &String` -> `concat` (Verus crashes on the operator), `&impl ToString` -> `&impl PathText`
//    (implemented for String = itself and LambdaAST = lens_text; Verus has no spec for a generic `ToString::to_string`),
//    `JsonString::from(..).to_owned()` -> json_string_from_str (as in unit lambda);
//  * try_scalar_ref_as_idx / try_scalar_ref_as_stream_map_key: contracts imported from unit lambda; select_by_path_from_scalar: none;
//  * `<[T]>::to_vec` returns the same elements (used on the Copy type ValueAccessor); Rc::{as_ref, from}; `Rc<String>::to_string`.
#![feature(allocator_api)]
use vstd::prelude::*;
use vstd::std_specs::iter::IteratorSpec;
verus! {

pub mod ax {
    use vstd::prelude::*;
    use std::rc::Rc;
    use vstd::string::to_string_from_display_ensures;
    #[verifier::external_body]
    pub broadcast proof fn axiom_rc_string_to_string(v: Rc<String>, s: String)
        ensures #[trigger] to_string_from_display_ensures::<Rc<String>>(&v, s) ==> s@ == v@ {}
    #[verifier::external_body]
    pub broadcast proof fn axiom_string_to_string(v: String, s: String)
        ensures #[trigger] to_string_from_display_ensures::<String>(&v, s) ==> s@ == v@ {}
}
broadcast use {ax::axiom_rc_string_to_string, ax::axiom_string_to_string};
pub assume_specification<T: ?Sized, A: core::alloc::Allocator> [<std::rc::Rc<T, A> as core::convert::AsRef<T>>::as_ref] (r: &std::rc::Rc<T, A>) -> (o: &T) ensures o == &**r;
pub assume_specification<T> [<std::rc::Rc<T> as core::convert::From<T>>::from] (t: T) -> (o: std::rc::Rc<T>) ensures *o == t;

// ---------------------------------------------------------------- the abstract tetraplet (vocabulary of unit tetraplets)
pub type Text = Seq<char>;
pub struct Tet { pub peer: Text, pub service: Text, pub function: Text, pub lens: Text }
//@ import-spec tetraplets :: empty with_lens
pub proof fn empty_strlit() ensures ""@ == empty() { reveal_strlit(""); assert(""@ =~= empty()); }

// ---------------------------------------------------------------- shim: SecurityTetraplet (trusted, as in unit tetraplets)
pub struct SecurityTetraplet { pub peer_pk: String, pub service_id: String, pub function_name: String, pub lens: String }
pub type RcSecurityTetraplet = Rc<SecurityTetraplet>;
pub trait StrArg { spec fn text(&self) -> Text; }
impl StrArg for &str { open spec fn text(&self) -> Text { self@ } }
impl StrArg for String { open spec fn text(&self) -> Text { self@ } }
impl SecurityTetraplet {
    pub open spec fn tv(&self) -> Tet { Tet { peer: self.peer_pk@, service: self.service_id@, function: self.function_name@, lens: self.lens@ } }
    #[verifier::external_body]
    pub fn new<A: StrArg, B: StrArg, C: StrArg, D: StrArg>(peer_pk: A, service_id: B, function_name: C, lens: D) -> (r: Self)
        ensures r.tv() == (Tet { peer: peer_pk.text(), service: service_id.text(), function: function_name.text(), lens: lens.text() })
    { unimplemented!() }
}
impl Clone for SecurityTetraplet {
    fn clone(&self) -> (r: Self) ensures r.tv() == self.tv() {
        SecurityTetraplet { peer_pk: self.peer_pk.clone(), service_id: self.service_id.clone(), function_name: self.function_name.clone(), lens: self.lens.clone() }
    }
}
// `String + &str`
#[verifier::external_body]
pub fn concat(a: String, b: &String) -> (r: String) ensures r@ == a@ + b@ { unimplemented!() }

//@ lift air/src/execution_step/execution_context/context.rs :: struct RcRunParameters
//@ derive
//@ end

// ================================================================ shims of unit lambda (JValue, scalars, errors, plain navigation)
pub type Rc<T> = std::rc::Rc<T>;

// ---------------------------------------------------------------- shim: JValue (trusted)
pub mod serde_json {
    use vstd::prelude::*;
    #[verifier::external_body]
    pub struct Number { _opaque: () }
    // serde_json::Number is PosInt(u64) | NegInt(i64, always negative) | Float(f64). The shim keeps ONE uninterpreted
    // fact, the integer a number stands for (None: a float); is_i64/as_i64/is_u64/as_u64 are the functions of it
    // that serde_json implements, so they are mutually consistent by construction.
    impl Number {
        pub uninterp spec fn int_value(&self) -> Option<int>;
        pub open spec fn as_i64_spec(&self) -> Option<i64> {
            match self.int_value() { Some(i) => if i64::MIN <= i <= i64::MAX { Some(i as i64) } else { None }, None => None }
        }
        pub open spec fn as_u64_spec(&self) -> Option<u64> {
            match self.int_value() { Some(i) => if 0 <= i <= u64::MAX { Some(i as u64) } else { None }, None => None }
        }
        #[verifier::external_body]
        pub fn as_u64(&self) -> (r: Option<u64>) ensures r == self.as_u64_spec() { unimplemented!() }
        #[verifier::external_body]
        pub fn as_i64(&self) -> (r: Option<i64>) ensures r == self.as_i64_spec() { unimplemented!() }
        #[verifier::external_body]
        pub fn is_u64(&self) -> (r: bool) ensures r == self.as_u64_spec() is Some { unimplemented!() }
        #[verifier::external_body]
        pub fn is_i64(&self) -> (r: bool) ensures r == self.as_i64_spec() is Some { unimplemented!() }
    }
    impl Clone for Number {
        #[verifier::external_body]
        fn clone(&self) -> (r: Self) ensures r == *self { unimplemented!() }
    }
}
pub type JsonString = Rc<str>;
#[verifier::external_body]
pub struct JArray { _opaque: () }      // Rc<[JValue]>
#[verifier::external_body]
pub struct JObject { _opaque: () }     // Rc<Map<JsonString, JValue>>
pub enum JValue { Null, Bool(bool), Number(serde_json::Number), String(JsonString), Array(JArray), Object(JObject) }
impl Clone for JValue {
    #[verifier::external_body]
    fn clone(&self) -> (r: Self) ensures r == *self { unimplemented!() }
}
impl JValue {
    // real: `match self { JValue::Array(array) => Some(array), _ => None }` (as a slice)
    pub fn as_array(&self) -> (r: Option<&JArray>)
        ensures r == (match *self { JValue::Array(a) => Some(&a), _ => None::<&JArray> })
    { match self { JValue::Array(array) => Some(array), _ => None } }
}
// `From<usize> for JValue` (from_integer!: `JValue::Number(n.into())`)
pub uninterp spec fn jvalue_of_usize(n: usize) -> JValue;
impl From<usize> for JValue {
    #[verifier::external_body]
    fn from(n: usize) -> (r: JValue) { unimplemented!() }
}
impl vstd::std_specs::convert::FromSpecImpl<usize> for JValue {
    open spec fn obeys_from_spec() -> bool { true }
    open spec fn from_spec(n: usize) -> JValue { jvalue_of_usize(n) }
}
pub uninterp spec fn arr_view(a: &JArray) -> Seq<JValue>;
pub uninterp spec fn map_view(m: &JObject) -> Map<Seq<char>, JValue>;
impl JArray {
    #[verifier::external_body]
    pub fn len(&self) -> (r: usize) ensures r == arr_view(self).len() { unimplemented!() }
    // <[JValue]>::get
    #[verifier::external_body]
    pub fn get(&self, i: usize) -> (r: Option<&JValue>)
        ensures r == (if i < arr_view(self).len() { Some(&arr_view(self)[i as int]) } else { None::<&JValue> })
    { unimplemented!() }
}
impl JObject {
    // Map<JsonString, JValue>::get::<str>
    #[verifier::external_body]
    pub fn get(&self, k: &str) -> (r: Option<&JValue>)
        ensures r == (if map_view(self).dom().contains(k@) { Some(&map_view(self)[k@]) } else { None::<&JValue> })
    { unimplemented!() }
}

// ---------------------------------------------------------------- errors
//@ lift air/src/execution_step/lambda_applier/errors.rs :: enum LambdaError
//@ derive
//@ end
//@ lift air/src/execution_step/lambda_applier/mod.rs :: type LambdaResult
//@ end
pub enum CatchableError { LambdaApplierError(LambdaError), VariableNotFound(String), LengthFunctorAppliedToNotArray(JValue) }
pub enum ExecutionError { Catchable(Rc<CatchableError>), Uncatchable }
pub type ExecutionResult<T> = Result<T, ExecutionError>;
pub mod execution_step {
    pub use super::ExecutionError; pub use super::CatchableError;
    pub mod value_types { pub use super::super::CanonStream; }
}
pub open spec fn is_lambda_error(e: ExecutionError) -> bool {
    e matches ExecutionError::Catchable(c) && *c is LambdaApplierError
}
pub open spec fn is_catchable(e: ExecutionError) -> bool { e is Catchable }

// ---------------------------------------------------------------- shim: scalars of the execution context (trusted)
pub struct ValueAggregate { pub result: JValue, pub tetraplet: RcSecurityTetraplet }
impl ValueAggregate {
    pub fn get_result(&self) -> (r: &JValue) ensures *r == self.result { &self.result }
}
pub struct IterableItem { pub resolved: ValueAggregate }
impl IterableItem {
    pub fn into_resolved_result(self) -> (r: ValueAggregate) ensures r == self.resolved { self.resolved }
}
#[verifier::external_body]
pub struct IterableValue { _opaque: () }     // Box<dyn Iterable<Item = IterableItem>>
impl IterableValue {
    pub uninterp spec fn peeked(&self) -> Option<IterableItem>;
    #[verifier::external_body]
    pub fn peek(&self) -> (r: Option<IterableItem>) ensures r == self.peeked() { unimplemented!() }
}
pub struct FoldState { pub iterable: IterableValue }
pub const PEEK_ALLOWED_ON_NON_EMPTY: &'static str = "peek always return elements inside fold";
pub enum ScalarRef<'i> { Value(&'i ValueAggregate), IterableValue(&'i FoldState) }
// a fold variable is visible only while its iterable is non-empty
pub open spec fn scalar_ref_wf(s: ScalarRef<'_>) -> bool {
    s matches ScalarRef::IterableValue(f) ==> f.iterable.peeked() is Some
}
// the JSON value a scalar reference resolves to
pub open spec fn scalar_ref_value(s: ScalarRef<'_>) -> JValue {
    match s {
        ScalarRef::Value(v) => v.result,
        ScalarRef::IterableValue(f) => f.iterable.peeked()->0.resolved.result,
    }
}
#[verifier::external_body]
pub struct Scalars { _opaque: () }
impl Scalars {
    pub uninterp spec fn scalar_spec(&self, name: Seq<char>) -> Option<JValue>;
    pub uninterp spec fn is_fold_variable(&self, name: Seq<char>) -> bool;
    #[verifier::external_body]
    pub fn get_value<'s>(&'s self, name: &str) -> (r: ExecutionResult<ScalarRef<'s>>)
        ensures
            r is Ok <==> self.scalar_spec(name@) is Some,
            r matches Ok(s) ==> scalar_ref_wf(s) && Some(scalar_ref_value(s)) == self.scalar_spec(name@),
            r matches Ok(s) ==> (s is IterableValue <==> self.is_fold_variable(name@)),
            r matches Err(e) ==> is_catchable(e),
    { unimplemented!() }
}
pub struct ExecutionCtx<'i> { pub scalars: Scalars, pub run_parameters: RcRunParameters, pub _p: core::marker::PhantomData<&'i ()> }
impl<'i> ExecutionCtx<'i> { pub open spec fn me(&self) -> Text { self.run_parameters.current_peer_id@ } }

//@ lift crates/air-lib/lambda/ast/src/ast.rs :: enum ValueAccessor
//@ derive Clone Copy
//@ end

//@ lift air/src/execution_step/lambda_applier/mod.rs :: macro_rules lambda_to_execution_error
//@ rewrite 1 "$lambda_expr.map_err(|lambda_error| {" => "::vstd::prelude::verus_exec_expr!{ $lambda_expr.map_err(|lambda_error: LambdaError| -> (o: ExecutionError) ensures is_lambda_error(o) {"
//@ rewrite 1 "})\n    };" => "}) }\n    };"
//@ end

// ---------------------------------------------------------------- the spec: plain JSON navigation
pub open spec fn step_idx(v: JValue, i: u32) -> Option<JValue> {
    match v { JValue::Array(a) => if (i as int) < arr_view(&a).len() { Some(arr_view(&a)[i as int]) } else { None }, _ => None }
}
pub open spec fn step_field(v: JValue, k: Seq<char>) -> Option<JValue> {
    match v { JValue::Object(m) => if map_view(&m).dom().contains(k) { Some(map_view(&m)[k]) } else { None }, _ => None }
}
// a JSON number used as an index: it must fit u32
pub open spec fn number_as_idx(n: serde_json::Number) -> Option<u32> {
    match n.as_u64_spec() { Some(v) => if v <= u32::MAX { Some(v as u32) } else { None }, None => None }
}
// an accessor taken from a scalar resolves to Idx / Field by the JSON type of the scalar
pub open spec fn step_scalar(v: JValue, accessor: JValue) -> Option<JValue> {
    match accessor {
        JValue::String(k) => step_field(v, k@),
        JValue::Number(n) => match number_as_idx(n) { Some(i) => step_idx(v, i), None => None },
        _ => None,
    }
}
pub open spec fn step(scalars: &Scalars, v: JValue, acc: &ValueAccessor<'_>) -> Option<JValue> {
    match *acc {
        ValueAccessor::ArrayAccess { idx } => step_idx(v, idx),
        ValueAccessor::FieldAccessByName { field_name } => step_field(v, field_name@),
        ValueAccessor::FieldAccessByScalar { scalar_name } => match scalars.scalar_spec(scalar_name@) {
            Some(s) => step_scalar(v, s),
            None => None,
        },
        ValueAccessor::Error => None,
    }
}
// nav(v, path): navigation along the whole path; nav_from(v, path, i) is nav on the suffix path[i..]
//   nav(v, [])       = Some(v)
//   nav(v, a :: p)   = match step(v, a) { Some(v2) => nav(v2, p), None => None }
pub open spec fn nav_from(scalars: &Scalars, v: JValue, path: Seq<&ValueAccessor<'_>>, i: int) -> Option<JValue>
    decreases path.len() - i
{
    if i < 0 || i >= path.len() { Some(v) } else {
        match step(scalars, v, path[i]) { Some(v2) => nav_from(scalars, v2, path, i + 1), None => None }
    }
}
pub open spec fn nav(scalars: &Scalars, v: JValue, path: Seq<&ValueAccessor<'_>>) -> Option<JValue> {
    nav_from(scalars, v, path, 0)
}


//@ lift crates/air-lib/lambda/ast/src/ast.rs :: enum Functor
//@ derive Clone Copy
//@ end
pub uninterp spec fn functor_text(f: Functor) -> Text;
impl Functor {
    // real: `Display for Functor` through the blanket ToString
    #[verifier::external_body]
    pub fn to_string(&self) -> (r: String) ensures r@ == functor_text(*self) { unimplemented!() }
}

//@ stub lambda :: try_scalar_ref_as_idx

// ---------------------------------------------------------------- canon stream map keys (stream_map_key.rs)
// "On canonical streams and maps the first index selects an element or key group the same way": the key under which a
// value is INSERTED (from_kvpair_owned -> from_value) and the key LOOKED UP from a scalar (from_value_ref) must be the
// same function `key_of` of the JSON value, and a literal accessor must give the key `key_of` gives for the same JSON.
//@ lift air/src/execution_step/execution_context/stream_maps_variables/stream_map_key.rs :: enum StreamMapKey
//@ derive Clone
//@ end

// abstract value of a key (Rc<str> payloads compared by content)
pub enum KeyView { Str(Seq<char>), U64(u64), I64(i64) }
pub open spec fn key_view(k: StreamMapKey) -> KeyView {
    match k { StreamMapKey::Str(s) => KeyView::Str(s@), StreamMapKey::U64(n) => KeyView::U64(n), StreamMapKey::I64(n) => KeyView::I64(n) }
}
// from the property statement: JSON string => Str key; JSON integer => I64 if it fits i64, else U64; anything else => no key
pub open spec fn key_of(v: JValue) -> Option<StreamMapKey> {
    match v {
        JValue::String(s) => Some(StreamMapKey::Str(s)),
        JValue::Number(n) => match n.int_value() {
            Some(i) => if i64::MIN <= i <= i64::MAX { Some(StreamMapKey::I64(i as i64)) }
                       else if 0 <= i <= u64::MAX { Some(StreamMapKey::U64(i as u64)) } else { None },
            None => None,
        },
        _ => None,
    }
}
impl From<i64> for StreamMapKey {
//@ lift air/src/execution_step/execution_context/stream_maps_variables/stream_map_key.rs :: impl From<i64> for StreamMapKey :: fn from
//@ props C17
//@ name StreamMapKey::from_i64
//@ no-canary
//@ end
}
impl vstd::std_specs::convert::FromSpecImpl<i64> for StreamMapKey {
    open spec fn obeys_from_spec() -> bool { true }
    open spec fn from_spec(value: i64) -> Self { StreamMapKey::I64(value) }
}
impl From<u64> for StreamMapKey {
//@ lift air/src/execution_step/execution_context/stream_maps_variables/stream_map_key.rs :: impl From<u64> for StreamMapKey :: fn from
//@ props C17
//@ name StreamMapKey::from_u64
//@ no-canary
//@ end
}
impl vstd::std_specs::convert::FromSpecImpl<u64> for StreamMapKey {
    open spec fn obeys_from_spec() -> bool { true }
    open spec fn from_spec(value: u64) -> Self { StreamMapKey::U64(value) }
}
// vstd specifies the widening u32 -> u64 but not u32 -> i64 (`value.into()` below): lossless widening, trusted
pub assume_specification [<i64 as From<u32>>::from] (v: u32) -> (r: i64) ensures r == v as i64;
// a literal numeric accessor `[42]` is the key I64(42) -- what key_of gives for the JSON number 42
impl From<u32> for StreamMapKey {
//@ lift air/src/execution_step/execution_context/stream_maps_variables/stream_map_key.rs :: impl From<u32> for StreamMapKey :: fn from
//@ props C17
//@ name StreamMapKey::from_u32
//@ no-canary
//@ end
}
impl vstd::std_specs::convert::FromSpecImpl<u32> for StreamMapKey {
    open spec fn obeys_from_spec() -> bool { true }
    open spec fn from_spec(value: u32) -> Self { StreamMapKey::I64(value as i64) }
}
impl From<JsonString> for StreamMapKey {
//@ lift air/src/execution_step/execution_context/stream_maps_variables/stream_map_key.rs :: impl From<JsonString> for StreamMapKey :: fn from
//@ props C17
//@ name StreamMapKey::from_json_string
//@ no-canary
//@ end
}
impl vstd::std_specs::convert::FromSpecImpl<JsonString> for StreamMapKey {
    open spec fn obeys_from_spec() -> bool { true }
    open spec fn from_spec(value: JsonString) -> Self { StreamMapKey::Str(value) }
}

//@ stub lambda :: try_scalar_ref_as_stream_map_key

pub struct EmptyError;
pub struct NonEmpty<T>(pub Vec<T>);
impl<T> NonEmpty<T> {
    pub open spec fn wf(&self) -> bool { self.0@.len() > 0 }
    // real: `(&self[0], &self[1..])`
    pub open spec fn body(&self) -> Seq<T> { self.0@.subrange(1, self.0@.len() as int) }
    #[verifier::external_body]
    pub fn split_first(&self) -> (r: (&T, &[T]))
        requires self.wf()
        ensures *r.0 == self.0@[0], r.1@ == self.body()
    { unimplemented!() }
}
impl<T> TryFrom<Vec<T>> for NonEmpty<T> {
    type Error = EmptyError;
    #[verifier::external_body]
    fn try_from(xs: Vec<T>) -> (r: Result<Self, EmptyError>) { unimplemented!() }
}
impl<T> vstd::std_specs::convert::TryFromSpecImpl<Vec<T>> for NonEmpty<T> {
    open spec fn obeys_try_from_spec() -> bool { true }
    open spec fn try_from_spec(xs: Vec<T>) -> Result<Self, EmptyError> { if xs@.len() == 0 { Err(EmptyError) } else { Ok(NonEmpty(xs)) } }
}
// used on `&[ValueAccessor]` only (a Copy type: the clone of an element is the element)
pub assume_specification<T: Clone> [<[T]>::to_vec] (s: &[T]) -> (r: Vec<T>) ensures r@ == s@;
//@ lift crates/air-lib/lambda/ast/src/ast.rs :: enum LambdaAST
//@ derive
//@ end
pub uninterp spec fn lens_text(lambda: LambdaAST<'_>) -> Text;
impl<'input> LambdaAST<'input> {
    #[verifier::external_body]
    pub fn to_string(&self) -> (r: String) ensures r@ == lens_text(*self) { unimplemented!() }
}
// `&impl ToString` of update_tetraplet_with_path: the two types it is called with
pub trait PathText { spec fn text(&self) -> Text; fn path_text(&self) -> (r: String) ensures r@ == self.text(); }
impl PathText for String {
    open spec fn text(&self) -> Text { self@ }
    fn path_text(&self) -> (r: String) { self.clone() }
}
impl<'input> PathText for LambdaAST<'input> {
    open spec fn text(&self) -> Text { lens_text(*self) }
    fn path_text(&self) -> (r: String) { self.to_string() }
}
// `JsonString::from(s).to_owned()`: an Rc<str> with the text of s (neither `Rc<str>: From<&str>` nor the blanket
// `ToOwned::to_owned` on Rc<str> can be given a usable spec, see above)
#[verifier::external_body]
pub fn json_string_from_str(s: &str) -> (r: JsonString) ensures r@ == s@ { unimplemented!() }

// ---------------------------------------------------------------- shims: canon stream / canon map (trusted)
impl ValueAggregate {
    pub open spec fn stored(&self) -> Tet { self.tetraplet.tv() }
    pub fn get_tetraplet(&self) -> (r: RcSecurityTetraplet) ensures r.tv() == self.stored() { self.tetraplet.clone() }
}
// `impl ExactSizeIterator<Item = (JValue, RcSecurityTetraplet)>`: the (value, tetraplet) pairs of a key group, in order
pub struct PairsIter<'a> { pub pairs: Ghost<Seq<(JValue, RcSecurityTetraplet)>>, pub ph: core::marker::PhantomData<&'a u8> }
impl<'a> PairsIter<'a> {
    pub open spec fn tets(&self) -> Seq<Tet> { self.pairs@.map_values(|p: (JValue, RcSecurityTetraplet)| p.1.tv()) }
    #[verifier::external_body]
    pub fn len(&self) -> (r: usize) ensures r == self.pairs@.len() { unimplemented!() }
    // `.peekable().nth(idx)`
    #[verifier::external_body]
    pub fn nth_pair(self, idx: usize) -> (r: Option<(JValue, RcSecurityTetraplet)>)
        ensures r == (if idx < self.pairs@.len() { Some(self.pairs@[idx as int]) } else { None::<(JValue, RcSecurityTetraplet)> })
    { unimplemented!() }
}
#[verifier::external_body]
pub struct CanonStream { _opaque: () }
impl CanonStream {
    pub uninterp spec fn as_jvalue_spec(&self) -> JValue;
    pub uninterp spec fn empty_jvalue() -> JValue;
    pub uninterp spec fn values(&self) -> Seq<ValueAggregate>;
    pub open spec fn roots(&self) -> Seq<Tet> { self.values().map_values(|v: ValueAggregate| v.stored()) }
    #[verifier::external_body]
    pub fn new(values: Vec<ValueAggregate>, tetraplet: Rc<SecurityTetraplet>) -> (r: Self)
        ensures r.values() == values@, values@.len() == 0 ==> r.as_jvalue_spec() == Self::empty_jvalue()
    { unimplemented!() }
    #[verifier::external_body]
    pub fn as_jvalue(&self) -> (r: JValue) ensures r == self.as_jvalue_spec() { unimplemented!() }
    // `self.iter().map(|v| (v.get_result().clone(), v.get_tetraplet()))`
    #[verifier::external_body]
    pub fn pairs(&self) -> (r: PairsIter<'_>) ensures r.tets() =~= self.roots() { unimplemented!() }
}
#[verifier::external_body]
pub struct CanonStreamMap { _opaque: () }
impl CanonStreamMap {
    pub uninterp spec fn index_spec(&self, k: KeyView) -> Option<&CanonStream>;
    pub uninterp spec fn own(&self) -> Tet;
    pub uninterp spec fn len_spec(&self) -> usize;
    #[verifier::external_body]
    pub fn index<'self_l>(&'self_l self, stream_map_key: &StreamMapKey) -> (r: Option<&'self_l CanonStream>)
        ensures r == self.index_spec(key_view(*stream_map_key))
    { unimplemented!() }
    #[verifier::external_body]
    pub fn tetraplet(&self) -> (r: &Rc<SecurityTetraplet>) ensures r.tv() == self.own() { unimplemented!() }
    #[verifier::external_body]
    pub fn len(&self) -> (r: usize) ensures r == self.len_spec() { unimplemented!() }
}
#[verifier::external_body]
pub struct Provenance { _opaque: () }
impl Clone for Provenance { #[verifier::external_body] fn clone(&self) -> Self { unimplemented!() } }
// value side (C24, unit lambda): no contract needed here
#[verifier::external_body]
fn select_by_path_from_scalar<'value, 'accessor>(value: &'value JValue, lambda: core::slice::Iter<'accessor, ValueAccessor<'accessor>>, exec_ctx: &ExecutionCtx<'_>) -> ExecutionResult<JValue> { unimplemented!() }

// ---------------------------------------------------------------- texts of a lens body
// `body.iter().map(ToString::to_string).collect::<Vec<_>>()` then the real `.join(".")`, then the real `format!(".{}", joined)`
pub uninterp spec fn texts(body: Seq<ValueAccessor<'_>>) -> Seq<Text>;
pub uninterp spec fn joined(texts: Seq<Text>, sep: Text) -> Text;
pub uninterp spec fn format1_spec(fmt: Text, arg: Text) -> Text;
pub struct AccessorTexts { pub t: Ghost<Seq<Text>> }
#[verifier::external_body]
pub fn accessor_texts(body: &[ValueAccessor<'_>]) -> (r: AccessorTexts) ensures r.t@ == texts(body@) { unimplemented!() }
impl AccessorTexts {
    // `[String]::join(&str)`
    #[verifier::external_body]
    pub fn join(&self, sep: &str) -> (r: String) ensures r@ == joined(self.t@, sep@) { unimplemented!() }
}
// `format!(fmt, arg)` with one `{}`
#[verifier::external_body]
pub fn format1(fmt: &str, arg: String) -> (r: String) ensures r@ == format1_spec(fmt@, arg@) { unimplemented!() }
#[verifier::external_body]
pub proof fn axiom_format_dot(arg: Text) ensures format1_spec(".{}"@, arg) == "."@ + arg {}
// the text appended to an element's lens for the accessors applied to the element: nothing, or "." ++ the accessors joined by "."
pub open spec fn suffix_text(body: Seq<ValueAccessor<'_>>) -> Text {
    if body.len() == 0 { empty() } else { "."@ + joined(texts(body), "."@) }
}

// ================================================================ applier.rs
//@ lift air/src/execution_step/lambda_applier/applier.rs :: struct MapLensResult
//@ derive
//@ end
impl MapLensResult {
//@ lift air/src/execution_step/lambda_applier/applier.rs :: impl MapLensResult :: fn new
//@ name MapLensResult::new
//@ props C17
//@ ret r
//@ spec
        ensures r.result == result, r.tetraplet == tetraplet
//@ end
// `#%m.length`: computed by the current peer, no service, the functor as the lens
//@ lift air/src/execution_step/lambda_applier/applier.rs :: impl MapLensResult :: fn with_functor
//@ name MapLensResult::with_functor
//@ props C17
//@ ret r
//@ spec
        ensures r.tetraplet.tv() =~~= (Tet { peer: exec_ctx.me(), service: empty(), function: empty(), lens: functor_text(*functor) })
//@ before "let tetraplet = Rc::new(SecurityTetraplet::new("
        proof { empty_strlit(); }
//@ end
}

// exact: the three other components are kept, the lens is (prefix ? old lens : "") ++ text
//@ lift air/src/execution_step/lambda_applier/applier.rs :: fn update_tetraplet_with_path
//@ props C17
//@ ret r
//@ sig 1 "&impl ToString" => "&impl PathText"
//@ rewrite 1 "original_tetraplet.lens.to_string() + &original_path.to_string()" => "concat(original_tetraplet.lens.to_string(), &original_path.path_text())"
//@ rewrite 1 "} else {\n        original_path.to_string()" => "} else {\n        original_path.path_text()"
//@ spec
    ensures r.tv() =~~= (Tet { lens: (if prefix_with_path { original_tetraplet.tv().lens } else { empty() }) + original_path.text(), ..original_tetraplet.tv() })
//@ end

// the index the first accessor of a path names in a stream / key group
pub open spec fn idx_of(scalars: &Scalars, acc: &ValueAccessor<'_>) -> Option<u32> {
    match *acc {
        ValueAccessor::ArrayAccess { idx } => Some(idx),
        ValueAccessor::FieldAccessByScalar { scalar_name } => match scalars.scalar_spec(scalar_name@) {
            Some(JValue::Number(n)) => number_as_idx(n),
            _ => None,
        },
        _ => None,
    }
}
//@ lift air/src/execution_step/lambda_applier/applier.rs :: fn split_to_idx
//@ props C17
//@ ret r
//@ spec
    requires lambda.wf(), !(lambda.0@[0] is Error)
    ensures r matches Ok(x) ==> (idx_of(&exec_ctx.scalars, &lambda.0@[0]) == Some(x.0 as u32) && x.0 <= u32::MAX && x.1@ == lambda.body())
//@ end

// a path applied to a key group: its first accessor selects the element, the rest is applied to the element
pub open spec fn group_lensed(roots: Seq<Tet>, scalars: &Scalars, path: Seq<ValueAccessor<'_>>, t: Tet) -> bool {
    idx_of(scalars, &path[0]) matches Some(i) && i < roots.len()
        && t =~~= with_lens(roots[i as int], suffix_text(path.subrange(1, path.len() as int)))
}
//@ lift air/src/execution_step/lambda_applier/applier.rs :: fn select_by_path_from_canon_map_stream
//@ props C17
//@ ret r
//@ sig 1 "impl ExactSizeIterator<Item = (JValue, RcSecurityTetraplet)> + 'value" => "PairsIter<'value>"
//@ rewrite 1 "stream\n        .peekable()\n        .nth(idx)" => "stream.nth_pair(idx)"
//@ rewrite 1 "body.iter().map(ToString::to_string).collect::<Vec<_>>().join(" => "accessor_texts(body).join("
//@ rewrite 1 "format!(" => "format1("
//@ before "let lambda_suffix ="
        proof { axiom_format_dot(joined@); }
//@ before "let (idx, body) = split_to_idx(lambda, exec_ctx)?;"
    let ghost tets = stream.tets();
//@ before "let select_result = if body.is_empty() {"
    proof {
        assert(tets[idx as int] == tetraplet.tv());
        assert(body@ =~= lambda.0@.subrange(1, lambda.0@.len() as int));
        assert(with_lens(tetraplet.tv(), empty()) =~~= tetraplet.tv());
    }
//@ spec
    requires lambda.wf(), !(lambda.0@[0] is Error)
    ensures r matches Ok(m) ==> group_lensed(stream.tets(), &exec_ctx.scalars, lambda.0@, m.tetraplet.tv())
//@ end

// THE contract of a value path on a canon map
pub open spec fn own_lens_empty(m: &CanonStreamMap) -> bool { m.own().lens =~= empty() }
pub open spec fn map_path_lensed(m: &CanonStreamMap, scalars: &Scalars, path: Seq<ValueAccessor<'_>>, text: Text, t: Tet) -> bool {
    accessor_key(scalars, &path[0]) matches Some(k) && {
        let body = path.subrange(1, path.len() as int);
        match m.index_spec(k) {
            // `#%m.$.key.[i]...`: an element of that key's group
            Some(cs) => if body.len() > 0 { group_lensed(cs.roots(), scalars, body, t) }
                        // `#%m.$.key`: the group itself is the map's
                        else { t =~~= with_lens(m.own(), text) },
            // `#%m.$.missing_key`
            None => t =~~= with_lens(m.own(), text),
        }
    }
}
// the key a first accessor stands for: literal index / literal name / the JSON value of a (non-fold) scalar
pub open spec fn accessor_key(scalars: &Scalars, acc: &ValueAccessor<'_>) -> Option<KeyView> {
    match *acc {
        ValueAccessor::ArrayAccess { idx } => Some(KeyView::I64(idx as i64)),
        ValueAccessor::FieldAccessByName { field_name } => Some(KeyView::Str(field_name@)),
        ValueAccessor::FieldAccessByScalar { scalar_name } =>
            if scalars.is_fold_variable(scalar_name@) { None } else {
                match scalars.scalar_spec(scalar_name@) {
                    Some(v) => match key_of(v) { Some(k) => Some(key_view(k)), None => None },
                    None => None,
                }
            },
        ValueAccessor::Error => None,
    }
}

//@ lift air/src/execution_step/lambda_applier/applier.rs :: fn select_by_path_from_canon_map
//@ props C17
//@ ret r
//@ rewrite 1 "JsonString::from(*field_name).to_owned()" => "json_string_from_str(*field_name)"
//@ rewrite 1 "canon_stream.iter().map(|v| (v.get_result().clone(), v.get_tetraplet()))" => "canon_stream.pairs()"
//@ before "let canon_stream_iter ="
            proof { assert(body_part.0@ =~= lambda.body()); assert(body_part.0@[0] == lambda.0@[1]); }
//@ spec
    requires lambda.wf(), forall|i: int| 0 <= i < lambda.0@.len() ==> !(#[trigger] lambda.0@[i] is Error), own_lens_empty(canon_map)
    ensures r matches Ok(m) ==> map_path_lensed(canon_map, &exec_ctx.scalars, lambda.0@, original_lambda.text(), m.tetraplet.tv())
//@ end

//@ lift air/src/execution_step/lambda_applier/applier.rs :: fn select_by_functor_from_canon_map
//@ props C17
//@ ret r
//@ spec
    ensures r.tetraplet.tv() =~~= (Tet { peer: exec_ctx.me(), service: empty(), function: empty(), lens: functor_text(*functor) })
//@ end

// THE contract of this unit: the tetraplet of `#%m<lambda>` (what unit tetraplets names map_lens_tet)
pub open spec fn lambda_wf(lambda: LambdaAST<'_>) -> bool {
    lambda matches LambdaAST::ValuePath(p) ==> p.wf() && forall|i: int| 0 <= i < p.0@.len() ==> !(#[trigger] p.0@[i] is Error)
}
pub open spec fn map_lensed(m: &CanonStreamMap, lambda: LambdaAST<'_>, scalars: &Scalars, me: Text, t: Tet) -> bool {
    match lambda {
        LambdaAST::ValuePath(p) => map_path_lensed(m, scalars, p.0@, lens_text(lambda), t),
        LambdaAST::Functor(f) => t =~~= (Tet { peer: me, service: empty(), function: empty(), lens: functor_text(f) }),
    }
}
//@ lift air/src/execution_step/lambda_applier/applier.rs :: fn select_by_lambda_from_canon_map
//@ props C17
//@ ret r
//@ spec
    requires lambda_wf(*lambda), own_lens_empty(canon_map)    // the parser guarantees a non-empty path without Error accessors
    ensures r matches Ok(m) ==> map_lensed(canon_map, *lambda, &exec_ctx.scalars, exec_ctx.me(), m.tetraplet.tv())
//@ end

// ---------------------------------------------------------------- value_types/jvaluable/canon_stream_map.rs
pub trait MapLens {
    spec fn map(&self) -> &CanonStreamMap;
    fn apply_lambda_with_tetraplets(&self, lambda: &LambdaAST<'_>, exec_ctx: &ExecutionCtx<'_>, root_provenance: &Provenance)
        -> ExecutionResult<(JValue, SecurityTetraplet, Provenance)>
        requires lambda_wf(*lambda), own_lens_empty(self.map());
}
impl MapLens for &CanonStreamMap {
    open spec fn map(&self) -> &CanonStreamMap { *self }
//@ lift air/src/execution_step/value_types/jvaluable/canon_stream_map.rs :: impl JValuable for &CanonStreamMap :: fn apply_lambda_with_tetraplets
//@ name CanonStreamMap::apply_lambda_with_tetraplets
//@ props C17
//@ ret r
//@ no-canary
//@ spec
        // the tetraplet handed to the resolver is the selected one, unchanged
        ensures r matches Ok(x) ==> map_lensed(*self, *lambda, &exec_ctx.scalars, exec_ctx.me(), x.1.tv())
//@ end
}

} // verus!
fn main() {}
