//@ unit call_verifier
// verify_call (air/src/execution_step/instructions/call/verifier.rs) and verify_canon
// (air/src/execution_step/instructions/canon_utils/mod.rs): the call/canon parameter check of C14.
//
// Trusted part of this file:
//  * SecurityTetraplet shim: the four String fields of marine_call_parameters::SecurityTetraplet (0.14.0),
//    whose `PartialEq` is `#[derive]`d, i.e. field-wise String equality. The shim writes that derive out by hand
//    (Verus gives a derived `eq` no spec) and Verus checks the hand-written `eq` against `tet_eq`.
//  * UncatchableError shim: only the variant these functions build; payloads irrelevant to the contract.
//  * opaque_string(): stands for `format!("{x:?}")` (Debug rendering of an error payload).
// (no `mod verifier` here: a module of that name would shadow `#[verifier::..]`)
use vstd::prelude::*;
verus! {

pub struct SecurityTetraplet { pub peer_pk: String, pub service_id: String, pub function_name: String, pub lens: String }

// equality of tetraplets as the property statement means it: all four components equal
pub open spec fn tet_eq(a: &SecurityTetraplet, b: &SecurityTetraplet) -> bool {
    a.peer_pk@ == b.peer_pk@ && a.service_id@ == b.service_id@ && a.function_name@ == b.function_name@ && a.lens@ == b.lens@
}
impl PartialEq for SecurityTetraplet {
    fn eq(&self, o: &Self) -> bool {
        self.peer_pk == o.peer_pk && self.service_id == o.service_id && self.function_name == o.function_name && self.lens == o.lens
    }
}
impl vstd::std_specs::cmp::PartialEqSpecImpl<SecurityTetraplet> for SecurityTetraplet {
    open spec fn obeys_eq_spec() -> bool { true }
    open spec fn eq_spec(&self, o: &SecurityTetraplet) -> bool { tet_eq(self, o) }
}

#[verifier::external_body]
pub fn opaque_string() -> String { unimplemented!() }

pub enum UncatchableError {
    InstructionParametersMismatch { param: &'static str, expected_value: String, stored_value: String },
}

//@ lift air/src/execution_step/instructions/call/verifier.rs :: fn verify_call
//@ props C14 C17
//@ ret r
//@ rewrite 1 "format!(\"{expected_tetraplet:?}\")" => "opaque_string()"
//@ rewrite 1 "format!(\"{stored_tetraplet:?}\")" => "opaque_string()"
//@ spec
    ensures
        r is Ok <==> (expected_argument_hash@ == stored_argument_hash@ && tet_eq(expected_tetraplet, stored_tetraplet)),
        // the argument hash is tested first and its error carries both hashes
        expected_argument_hash@ != stored_argument_hash@ ==>
            (r matches Err(UncatchableError::InstructionParametersMismatch { param, expected_value, stored_value })
                && param@ == "call argument_hash"@ && expected_value@ == expected_argument_hash@ && stored_value@ == stored_argument_hash@),
        (expected_argument_hash@ == stored_argument_hash@ && !tet_eq(expected_tetraplet, stored_tetraplet)) ==>
            (r matches Err(UncatchableError::InstructionParametersMismatch { param, .. }) && param@ == "call tetraplet"@),
//@ end

//@ lift air/src/execution_step/instructions/canon_utils/mod.rs :: fn verify_canon
//@ props C14
//@ ret r
//@ rewrite 1 "format!(\"{expected_tetraplet:?}\")" => "opaque_string()"
//@ rewrite 1 "format!(\"{stored_tetraplet:?}\")" => "opaque_string()"
//@ spec
    ensures
        r is Ok <==> tet_eq(expected_tetraplet, stored_tetraplet),
        r matches Err(UncatchableError::InstructionParametersMismatch { param, .. }) ==> param@ == "canon tetraplet"@,
//@ end

} // verus!
fn main() {}
