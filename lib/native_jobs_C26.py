"""native jobs of property C26 (imported automatically by jobs._load)"""
from jobs import native

native('C26.roundtrip', ['C26'], 'bounded',
       'every JSON value of depth <= 2 with <= 2 children per node over 23 boundary atoms (i64::MIN, -1, 0, 1, i64::MAX, i64::MAX+1, u64::MAX, 0.5, -0.0, '
       '1e300, 1e-7, f64::MAX, f64::MIN_POSITIVE; strings with quotes, backslashes, control characters, U+0000, U+007F, Cyrillic, an astral code point, '
       'U+2028) and 3 keys (plain, escaped, unicode), children drawn from 7 of the atoms, plus one object whose keys need JSON-pointer escaping (1362 values, every third pair of them for equality; '
       'thorough: 6427 values with a third child and a depth-3 sample, every second pair); NaN / infinities for the From<f32/f64> path',
       'air-interpreter-value', 'crates/air-lib/interpreter-value/src/value/mod.rs', 'jvalue_roundtrip.rs',
       'verif_native_jvalue::jvalue_agrees_with_serde_json',
       what='real serde_json printer / parser: JValue::from(&value) prints exactly as the serde_json::Value (to_string, to_string_pretty, to_vec, Display, {:#}); '
            'from_str / from_slice of that text give the JValue back and agree with serde_json\'s parser + conversion (duplicate keys: the later wins; '
            'non-JSON texts rejected alike); a second serializer / deserializer (serde_json::to_value / from_value) agree; accessors, get / [] by position '
            'and key, pointer, == with i8..u64 / usize / f64 / bool / str / String agree with serde_json::Value\'s (f32: exact comparison); JValue equality '
            'agrees with Value equality pair by pair; From<int widths, f32, f64, bool, str, String, Cow, Number, (), Option, Vec, &[T], HashMap, Map>, '
            'FromIterator, array_from_iter, object_from_pairs, take, Default. Discharges inside the bound what unit jvalue leaves to shims: the macro-generated '
            'impls, the iterator chains of from.rs, Display, pointer, JValue::deserialize\'s own statement, and the Map / Number / serde shims')
