"""native jobs of property C03 (see jobs.py); registered through native()"""
from jobs import native

native('C03.sign_verify', ['C03', 'C14'], 'bounded',
       'every trace of <= 3 (thorough: <= 4) CID-bearing states out of 6 kinds (scalar / stream / failed call and canon of peer 0, scalar call and canon of peer 1), repeated CIDs included; real Ed25519 keys',
       'air-interpreter-data', 'crates/air-lib/interpreter-data/src/interpreter_data/verification.rs', 'sign_verify.rs',
       'verif_native_sign_verify::signer_and_verifier_agree_on_cid_multisets',
       what='the real signer (PeerCidTracker::register + gen_signature) and the real verifier (DataVerifier::new + verify) agree: data signed the way the interpreter signs it is accepted (the signed object is the sorted MULTISET of a peer\'s CIDs); one state of the signer removed or duplicated after signing, or another salt, is rejected. Verifier-side counterpart of the Verus contract (R) of units cid_record*')
