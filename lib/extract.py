"""Mechanical extractor: lifts items out of /repo sources into a single Verus file.

The extractor never edits /repo. It reads the file named by a `//@ lift` directive of a unit
template, locates the item by path with a token-level brace matcher, and emits its text
verbatim after applying only the rules below; every application is counted in the drop report.

 R1  comments dropped (replaced by the newlines they contain); attributes dropped;
     `#[derive(..)]` kept but filtered to KEEP_DERIVES
 R2  `pub(crate)` / `pub(super)` / `pub(in ..)` -> `pub`
 R3  statement macros in DROP_MACROS (debug assertions, logging, tracing) dropped;
     `measure!(e, ..)` -> `(e)` (air-utils: tracing span around an expression)
 R4  `//@ expand <macro> <file>`: an invocation of a macro_rules! macro is replaced by its expansion, computed from the
     macro's *definition in the source*. Single-arm macros with only `$x:expr` / `$x:ident` parameters are substituted
     textually (original rule); single-arm macros that use repetitions `$( .. ) sep? (*|+|?)` or `literal`/`tt`/`block`
     fragments go through the general matcher/transcriber below (GenMacro): `expr` fragments that are not a single token
     tree are parenthesised (macro_rules keeps them as one expression node), `$crate` -> `crate`, nested invocations of
     expandable macros inside an expansion are expanded again (compound! -> multiline!)
 R5  `//@ fmt-shim` (opt-in per lift): std's formatting macros are replaced by calls of shim functions the unit template
     declares, the format string cut at its placeholders:
        format_args!(LIT, args..)   -> verif_format_args<N>(p0, &(a0), p1, .., &(aN-1), pN)
        write!(D, LIT, args..)      -> (D).write_fmt(verif_format_args<N>(..))        [= std's definition of write!]
        writeln!(D, LIT, args..)    -> (D).write_fmt(verif_format_args_nl<N>(..))     [= std's definition of writeln!]
     where p0..pN are the literal pieces of LIT between its N placeholders (`{{`/`}}` unescaped) and a_k is the argument the
     k-th placeholder names: `{}` the next positional argument, `{3}` the 3rd, `{x}` the named argument `x = e` or else the
     captured variable `x`. The only format spec supported is a width taken from a variable, `{:w$}` / `{x:w$}`, in a literal
     with a single placeholder: -> verif_format_args[_nl]_pad1(p0, &(a0), (w), p1). Anything else is a lost anchor.
 R7  parameter pattern `_: T` -> `_unused<k>: T`
 RW  unit-declared literal rewrites (`//@ rewrite n "from" => "to"`), each with its expected count;
     a count mismatch is a lost anchor
 RET `-> T` becomes `-> (r: T)` when the contract names the result
 SPEC/LOOP/GHOST insertions: requires/ensures at the header, invariants at the k-th loop head,
     ghost-only lines before/after the line containing an anchor text
"""
import re
from rustlex import lex, match_close, Tok, LexError

KEEP_DERIVES = {'Default', 'Clone', 'Copy', 'PartialEq', 'Eq'}
DROP_MACROS = {'debug_assert', 'debug_assert_eq', 'debug_assert_ne', 'log_instruction',
               'log::trace', 'log::debug', 'log::info', 'log::warn', 'log::error',
               'tracing::trace', 'tracing::debug', 'tracing::info', 'tracing::warn', 'tracing::error',
               'tracing::event'}
ITEM_KW = {'fn', 'struct', 'enum', 'impl', 'mod', 'trait', 'type', 'const', 'static', 'use', 'macro_rules',
           'union', 'extern'}
QUALIFIERS = {'pub', 'async', 'unsafe', 'default', 'const', 'extern'}


class Lost(Exception):
    """lost anchor / unsupported construct: the machinery cannot decide (exit 2), never an alarm"""


def norm_ws(s):
    s = re.sub(r'\s+', ' ', s.strip())
    s = re.sub(r'\s*([<>,:&\(\)\[\]])\s*', r'\1', s)
    return s


class Source:
    def __init__(self, path, text):
        self.path, self.text = path, text
        try:
            self.toks = lex(text)
        except LexError as e:
            raise Lost('cannot lex %s: %s' % (path, e))
        self.line_starts = [0]
        for m in re.finditer('\n', text):
            self.line_starts.append(m.end())

    def line_of(self, off):
        import bisect
        return bisect.bisect_right(self.line_starts, off)

    def line_text(self, line):
        s = self.line_starts[line - 1]
        e = self.text.find('\n', s)
        return self.text[s:e if e >= 0 else len(self.text)]


def _code(toks, k):
    return toks[k].kind not in ('ws', 'comment')


def _next_code(toks, k, hi):
    k += 1
    while k < hi and not _code(toks, k):
        k += 1
    return k


def scan_items(src, lo, hi):
    """yield items found at bracket depth 0 in token range [lo, hi)"""
    toks = src.toks
    k = lo
    item_start = None
    while k < hi:
        t = toks[k]
        if not _code(toks, k):
            k += 1
            continue
        if item_start is None:
            item_start = k
        if t.kind == 'punct' and t.text == '#':
            j = _next_code(toks, k, hi)
            if j < hi and toks[j].text == '!':
                j = _next_code(toks, j, hi)
            if j < hi and toks[j].text == '[':
                k = match_close(toks, j) + 1
                continue
        if t.kind == 'ident' and t.text == 'pub':
            j = _next_code(toks, k, hi)
            if j < hi and toks[j].text == '(':
                k = match_close(toks, j) + 1
            else:
                k = j
            continue
        if t.kind == 'ident' and t.text in ('async', 'unsafe', 'default'):
            k += 1
            continue
        if t.kind == 'ident' and t.text == 'extern':
            j = _next_code(toks, k, hi)
            if j < hi and toks[j].kind == 'str':
                j = _next_code(toks, j, hi)
            if j < hi and toks[j].text == 'crate':
                pass
            else:
                k = j
                continue
        if t.kind == 'ident' and t.text == 'const':
            j = _next_code(toks, k, hi)
            if j < hi and toks[j].text in ('fn', 'unsafe', 'async', 'extern'):
                k = j
                continue
        if t.kind == 'ident' and t.text in ITEM_KW:
            kw = t.text
            kwk = k
            name = None
            header = None
            j = _next_code(toks, k, hi)
            if kw == 'macro_rules':
                j = _next_code(toks, j, hi)  # skip '!'
                name = toks[j].text
            elif kw == 'impl':
                pass
            elif kw not in ('use', 'extern') and j < hi and toks[j].kind == 'ident':
                name = toks[j].text
            # find the end of the item
            semi_only = kw in ('type', 'const', 'static', 'use', 'extern')
            j = k + 1
            body_open = None
            end = None
            while j < hi:
                tj = toks[j]
                if tj.kind == 'punct':
                    if tj.text == ';':
                        end = j
                        break
                    if tj.text in '([':
                        j = match_close(toks, j) + 1
                        continue
                    if tj.text == '{':
                        c = match_close(toks, j)
                        if semi_only:
                            j = c + 1
                            continue
                        body_open = j
                        end = c
                        break
                j += 1
            if end is None:
                raise Lost('%s: cannot find the end of item `%s %s`' % (src.path, kw, name))
            if kw == 'impl':
                stop = body_open if body_open is not None else end
                header = norm_ws(src.text[toks[kwk].end:toks[stop].start])
            if kw == 'macro_rules' and body_open is None:
                pass
            attrs = norm_ws(src.text[toks[item_start].start:toks[kwk].start])
            yield dict(kind=kw, name=name, header=header, start=item_start, kw=kwk, body_open=body_open, end=end, attrs=attrs)
            k = end + 1
            item_start = None
            continue
        # anything else at depth 0 (macro invocation items, stray tokens): skip bracket groups
        if t.kind == 'punct' and t.text in '([{':
            k = match_close(toks, k) + 1
            if toks[k - 1].text == '}':
                item_start = None
            continue
        if t.kind == 'punct' and t.text == ';':
            item_start = None
        k += 1


def parse_path(path):
    segs = []
    for seg in path.split(' :: '):
        seg = seg.strip()
        attr = None
        if ' @ ' in seg:
            seg, attr = seg.split(' @ ', 1)
            seg, attr = seg.strip(), norm_ws(attr)
        if seg.startswith('impl') and not seg[4:5].isalnum():
            kw, rest = 'impl', seg[4:]
        else:
            kw, _, rest = seg.partition(' ')
        if kw not in ITEM_KW:
            raise Lost('bad item path segment `%s`' % seg)
        segs.append((kw, rest.strip(), attr))
    return segs


def locate(src, path):
    """return the item dict named by path (segments separated by ' :: ')"""
    segs = parse_path(path)

    def rec(lo, hi, idx):
        kw, want, attr = segs[idx]
        found = []
        for it in scan_items(src, lo, hi):
            if it['kind'] != kw:
                continue
            if attr is not None and attr not in it['attrs']:
                continue
            ok = (norm_ws(want) == it['header']) if kw == 'impl' else (want == it['name'])
            if not ok:
                continue
            if idx == len(segs) - 1:
                found.append(it)
            elif it['body_open'] is not None:
                found.extend(rec(it['body_open'] + 1, it['end'], idx + 1))
        return found

    found = rec(0, len(src.toks), 0)
    if not found:
        raise Lost('lost anchor: %s :: %s not found' % (src.path, path))
    if len(found) > 1:
        raise Lost('ambiguous anchor: %s :: %s matches %d items' % (src.path, path, len(found)))
    return found[0]


class Lift:
    """one `//@ lift` block of a unit template"""

    def __init__(self, file, path):
        self.file, self.path = file, path
        self.props = []
        self.alias = None
        self.ret = None
        self.spec = []
        self.loops = {}        # ordinal -> [lines]
        self.closures = {}     # ordinal -> (header, [ensures lines])
        self.before = []       # (anchor, occurrence, [lines])
        self.after = []
        self.at_end = []       # ghost lines spliced before the closing brace of the body (functions without a tail expression)
        self.at_start = []     # ghost lines spliced right after the opening brace of the body
        self.rewrites = []     # (count, from, to)
        self.sig_rewrites = []
        self.body_only = False
        self.derive = None     # None = KEEP_DERIVES, else the subset to keep
        self.no_body = False
        self.no_canary = False
        self.stub = False      # emit `#[verifier::external_body] <signature> <contract> { unimplemented!() }` only
        self.pub_fields = False  # R2b: private named fields of a lifted struct become pub (visibility only)
        self.expand = {}       # macro name -> (params, body) | GenMacro from its macro_rules! text (rule R4)
        self.fmt_shim = False  # R5: write!/writeln!/format_args! -> shim calls (opt-in)
        self.line = 0

    @property
    def name(self):
        if self.alias:
            return self.alias
        segs = [x.split(' @ ')[0].strip() for x in self.path.split(' :: ')]
        if segs[-1].startswith('impl'):
            last = segs[-1][4:].strip()
        else:
            last = segs[-1].split(' ', 1)[1]
        if len(segs) > 1 and segs[-2].startswith('impl'):
            hdr = segs[-2][4:]
            hdr = re.sub(r'^\s*<[^>]*>\s*', '', hdr)
            ty = hdr.split(' for ')[-1]
            ty = re.sub(r"<.*", '', ty).strip()
            return ty + '::' + last
        return last


def _newlines(s):
    return '\n' * s.count('\n')


def transform(src, lo, hi, lift, report, inserts=None, replaced=None, ret_at=None):
    """emit tokens [lo, hi] of src as a list of (text, origin_offset|None) segments"""
    toks = src.toks
    inserts = inserts or {}
    replaced = replaced or {}
    out = []
    unused = [0]

    def bump(rule, n=1):
        report[rule] = report.get(rule, 0) + n

    k = lo
    while k <= hi:
        t = toks[k]
        for text in inserts.get(k, ()):
            out.append((text, None))
        if k in replaced:
            new_text, last = replaced[k]
            out.append((new_text + _newlines(src.text[t.start:toks[last].end]), t.start))
            k = last + 1
            continue
        if ret_at is not None and k == ret_at[0]:
            # `-> T` => `-> (r: T)`
            out.append(('-> (%s: ' % ret_at[2], t.start))
            out.extend(transform(src, k + 1, ret_at[1], lift, report, inserts, replaced))
            # trailing whitespace of the type goes after the paren
            out.append((')', None))
            bump('RET')
            k = ret_at[1] + 1
            continue
        if t.kind == 'comment':
            out.append((_newlines(t.text), t.start))
            bump('R1.comment')
            k += 1
            continue
        if t.kind == 'punct' and t.text == '#':
            j = _next_code(toks, k, hi + 1)
            if j <= hi and toks[j].text == '!':
                j = _next_code(toks, j, hi + 1)
            if j <= hi and toks[j].text == '[':
                c = match_close(toks, j)
                inner = src.text[toks[j].end:toks[c].start]
                m = re.match(r'\s*derive\s*\((.*)\)\s*$', inner, re.S)
                if m:
                    allowed = KEEP_DERIVES if lift.derive is None else set(lift.derive)
                    keep = [x.strip() for x in m.group(1).split(',') if x.strip() in allowed]
                    dropped = [x.strip() for x in m.group(1).split(',') if x.strip() and x.strip() not in allowed]
                    if keep:
                        out.append(('#[derive(%s)]' % ', '.join(keep) + _newlines(src.text[t.start:toks[c].end]), t.start))
                    else:
                        out.append((_newlines(src.text[t.start:toks[c].end]), t.start))
                    if dropped:
                        bump('R1.derive', len(dropped))
                else:
                    out.append((_newlines(src.text[t.start:toks[c].end]), t.start))
                    bump('R1.attr')
                k = c + 1
                continue
        if t.kind == 'ident' and t.text == 'pub':
            j = _next_code(toks, k, hi + 1)
            if j <= hi and toks[j].text == '(':
                c = match_close(toks, j)
                out.append(('pub' + _newlines(src.text[t.end:toks[c].end]), t.start))
                bump('R2')
                k = c + 1
                continue
        if t.kind == 'ident':
            # macro invocation?  path (a::b) followed by `!`
            j = k
            path = [t.text]
            while True:
                j2 = _next_code(toks, j, hi + 1)
                if j2 <= hi and toks[j2].text == '::':
                    j3 = _next_code(toks, j2, hi + 1)
                    if j3 <= hi and toks[j3].kind == 'ident':
                        path.append(toks[j3].text)
                        j = j3
                        continue
                break
            jb = _next_code(toks, j, hi + 1)
            if jb <= hi and toks[jb].text == '!':
                jo = _next_code(toks, jb, hi + 1)
                mname = '::'.join(path)
                if jo <= hi and toks[jo].kind == 'punct' and toks[jo].text in '([{':
                    c = match_close(toks, jo)
                    if (isinstance(lift.expand.get(mname), GenMacro)
                            or (lift.fmt_shim and mname in FMT_MACROS)
                            or (mname in lift.expand and _uses_tt_expansion(lift))):
                        # R4 (general) / R5: the arguments go through the ordinary rules first, then the whole
                        # invocation is expanded at token-tree level (nested expandable macros included)
                        segs = transform(src, jo + 1, c - 1, lift, report, inserts, replaced) if c > jo + 1 else []
                        inner = ''.join(x for x, _ in segs)
                        where = '%s:%d' % (src.path, src.line_of(t.start))
                        nodes = [('tok', 'ident', mname), ('tok', 'punct', '!'),
                                 ('group', '(', tt_parse(inner, where), ')')]
                        text = tt_render(expand_nodes(nodes, lift, report, where))
                        out.append((text + _newlines(src.text[t.start:toks[c].end]), t.start))
                        k = c + 1
                        continue
                    if mname in lift.expand:
                        params, body = lift.expand[mname]
                        args = []
                        a0 = jo + 1
                        j = jo + 1
                        while j <= c:
                            tj = toks[j]
                            if j == c or (tj.kind == 'punct' and tj.text == ','):
                                if any(_code(toks, q) for q in range(a0, j)):
                                    segs = transform(src, a0, j - 1, lift, report, inserts, replaced)
                                    args.append(' '.join(''.join(x for x, _ in segs).split()))
                                a0 = j + 1
                            elif tj.kind == 'punct' and tj.text in '([{':
                                j = match_close(toks, j)
                            j += 1
                        if len(args) != len(params):
                            raise Lost('macro %s! called with %d arguments, definition has %d (%s:%d)'
                                       % (mname, len(args), len(params), src.path, src.line_of(t.start)))
                        text = body
                        for pn, av in zip(params, args):
                            text = re.sub(r'\$' + pn + r'\b', lambda m_: av, text)
                        out.append((text + _newlines(src.text[t.start:toks[c].end]), t.start))
                        bump('R4.' + mname)
                        k = c + 1
                        continue
                    if mname in DROP_MACROS:
                        e = c
                        js = _next_code(toks, c, hi + 1)
                        if js <= hi and toks[js].text == ';':
                            e = js
                        out.append((_newlines(src.text[t.start:toks[e].end]), t.start))
                        bump('R3.' + mname)
                        k = e + 1
                        continue
                    if mname == 'measure':
                        check_measure_macro()
                        # first top-level argument
                        depth = 0
                        comma = None
                        j = jo + 1
                        while j < c:
                            tj = toks[j]
                            if tj.kind == 'punct':
                                if tj.text in '([{':
                                    j = match_close(toks, j) + 1
                                    continue
                                if tj.text == ',':
                                    comma = j
                                    break
                            j += 1
                        if comma is None:
                            raise Lost('measure! without arguments at %s:%d' % (src.path, src.line_of(t.start)))
                        out.append(('(', t.start))
                        out.extend(transform(src, jo + 1, comma - 1, lift, report, inserts, replaced))
                        out.append((')' + _newlines(src.text[toks[comma].start:toks[c].end]), toks[comma].start))
                        bump('R3.measure')
                        k = c + 1
                        continue
        out.append((t.text, t.start))
        k += 1
    return out


def _find_rewrites(src, lo, hi, rewrites, report, what):
    """literal rewrites inside token range; returns {first_tok: (new_text, last_tok)}"""
    toks = src.toks
    a, b = toks[lo].start, toks[hi].end
    region = src.text[a:b]
    starts = {toks[k].start: k for k in range(lo, hi + 1)}
    ends = {toks[k].end: k for k in range(lo, hi + 1)}
    replaced = {}
    for count, frm, to in rewrites:
        pos = 0
        n = 0
        while True:
            p = region.find(frm, pos)
            if p < 0:
                break
            s, e = a + p, a + p + len(frm)
            if s in starts and e in ends:
                k0, k1 = starts[s], ends[e]
                if any(k in replaced or any(r0 < k <= r1 for r0, (_, r1) in replaced.items()) for k in (k0, k1)):
                    raise Lost('overlapping rewrites for `%s` in %s' % (frm, what))
                replaced[k0] = (to, k1)
                n += 1
            pos = p + len(frm)
        if n != count:
            raise Lost('lost anchor: rewrite `%s` expected %d occurrence(s) in %s, found %d' % (frm, count, what, n))
        report['RW'] = report.get('RW', 0) + n
    return replaced


def _line_anchor(src, lo, hi, anchor, occurrence, what):
    toks = src.toks
    a, b = toks[lo].start, toks[hi].end
    region = src.text[a:b]
    pos = -1
    for _ in range(occurrence + 1):
        pos = region.find(anchor, pos + 1)
        if pos < 0:
            raise Lost('lost anchor: text `%s` (occurrence %d) not found in %s' % (anchor, occurrence, what))
    line = src.line_of(a + pos)
    ls = src.line_starts[line - 1]
    le = src.line_starts[line] if line < len(src.line_starts) else len(src.text)
    first = last = None
    for k in range(lo, hi + 1):
        if toks[k].kind in ('ws', 'comment'):
            continue
        if ls <= toks[k].start < le:
            if first is None:
                first = k
            last = k
    return first, last


def lift_item(src, lift):
    """returns (segments, report, info) for one lift directive"""
    toks = src.toks
    it = locate(src, lift.path)
    report = {}
    what = '%s :: %s' % (src.path, lift.path)
    # skip leading attributes/visibility? keep: transform handles them. start from item start.
    lo, hi = it['start'], it['end']
    inserts = {}
    ret_at = None
    if it['kind'] == 'fn' and it['body_open'] is None:
        raise Lost('%s has no body' % what)
    if it['kind'] == 'fn':
        bo = it['body_open']
        # parameter list: first '(' after the name, skipping generics
        k = _next_code(toks, it['kw'], hi)  # name
        k = _next_code(toks, k, hi)
        if toks[k].text == '<':
            depth = 0
            while k < bo:
                if toks[k].kind == 'punct':
                    if toks[k].text == '<':
                        depth += 1
                    elif toks[k].text == '>':
                        depth -= 1
                        if depth == 0:
                            break
                    elif toks[k].text == '>>':
                        depth -= 2
                        if depth <= 0:
                            break
                    elif toks[k].text in '([':
                        k = match_close(toks, k)
                k += 1
            k = _next_code(toks, k, hi)
        if toks[k].text != '(':
            raise Lost('cannot find the parameter list of %s' % what)
        pclose = match_close(toks, k)
        # R7: `_: T` parameters
        depth = 0
        n_unused = 0
        replaced_sig = {}
        j = k + 1
        while j < pclose:
            tj = toks[j]
            if tj.kind == 'punct' and tj.text in '([{':
                j = match_close(toks, j) + 1
                continue
            if tj.kind == 'ident' and tj.text == '_':
                jn = _next_code(toks, j, pclose)
                jp = j - 1
                while jp > k and not _code(toks, jp):
                    jp -= 1
                if toks[jn].text == ':' and toks[jp].text in ('(', ','):
                    replaced_sig[j] = ('_unused%d' % n_unused, j)
                    n_unused += 1
                    report['R7'] = report.get('R7', 0) + 1
            j += 1
        # return type
        j = _next_code(toks, pclose, hi)
        if lift.ret:
            if toks[j].text != '->':
                raise Lost('%s: contract names a result but the function has no return type' % what)
            # type ends before `where` or body_open
            e = bo - 1
            jj = j
            while jj < bo:
                if toks[jj].kind == 'ident' and toks[jj].text == 'where':
                    e = jj - 1
                    break
                if toks[jj].kind == 'punct' and toks[jj].text in '([':
                    jj = match_close(toks, jj)
                jj += 1
            while not _code(toks, e):
                e -= 1
            ret_at = (j, e, lift.ret)
        if lift.spec:
            inserts.setdefault(bo, []).append('\n' + '\n'.join(lift.spec) + '\n')
        # loops
        if lift.loops:
            loops = []
            j = bo + 1
            while j < hi:
                tj = toks[j]
                if tj.kind == 'ident' and tj.text in ('while', 'for', 'loop'):
                    jp = j - 1
                    while not _code(toks, jp):
                        jp -= 1
                    if tj.text == 'for' and toks[_next_code(toks, j, hi)].text == '<':
                        j += 1
                        continue
                    # body: first `{` at depth 0
                    jj = j + 1
                    while jj < hi:
                        if toks[jj].kind == 'punct':
                            if toks[jj].text in '([':
                                jj = match_close(toks, jj) + 1
                                continue
                            if toks[jj].text == '{':
                                break
                        jj += 1
                    loops.append(jj)
                j += 1
            for ordinal, lines in lift.loops.items():
                if ordinal >= len(loops):
                    raise Lost('lost anchor: loop %d of %s (function has %d loops)' % (ordinal, what, len(loops)))
                inserts.setdefault(loops[ordinal], []).append('\n' + '\n'.join(lines) + '\n')
            report['LOOP'] = len(lift.loops)
        for anchor, occ, lines in lift.before:
            first, _ = _line_anchor(src, bo, hi, anchor, occ, what)
            inserts.setdefault(first, []).append('\n'.join(lines) + '\n')
            report['GHOST'] = report.get('GHOST', 0) + 1
        for anchor, occ, lines in lift.after:
            _, last = _line_anchor(src, bo, hi, anchor, occ, what)
            inserts.setdefault(last + 1, []).append('\n' + '\n'.join(lines) + '\n')
            report['GHOST'] = report.get('GHOST', 0) + 1
        if getattr(lift, 'at_start', None):
            inserts.setdefault(bo + 1, []).append('\n' + '\n'.join(lift.at_start) + '\n')
            report['GHOST'] = report.get('GHOST', 0) + 1
        if getattr(lift, 'at_end', None):
            inserts.setdefault(hi, []).append('\n' + '\n'.join(lift.at_end) + '\n')
            report['GHOST'] = report.get('GHOST', 0) + 1
        replaced = _find_rewrites(src, bo, hi, lift.rewrites, report, what) if lift.rewrites else {}
        if lift.sig_rewrites:
            replaced.update(_find_rewrites(src, lo, bo - 1, lift.sig_rewrites, report, what + ' (signature)'))
        replaced.update(replaced_sig)
        if lift.spec:
            report['SPEC'] = 1
        if lift.body_only:
            lo = bo
    else:
        if lift.spec or lift.loops or lift.ret:
            raise Lost('%s: contracts can only be attached to functions' % what)
        replaced = _find_rewrites(src, lo, hi, lift.rewrites, report, what) if lift.rewrites else {}
        if lift.pub_fields and it['kind'] == 'struct' and it['body_open'] is not None:
            bo = it['body_open']
            j = bo + 1
            at_field_start = True
            while j < hi:
                tj = toks[j]
                if not _code(toks, j):
                    j += 1
                    continue
                if tj.kind == 'punct' and tj.text == '#':
                    jn = _next_code(toks, j, hi)
                    if toks[jn].text == '[':
                        j = match_close(toks, jn) + 1
                        continue
                if tj.kind == 'punct' and tj.text in '([{<':
                    if tj.text == '<':
                        j += 1
                        continue
                    j = match_close(toks, j) + 1
                    at_field_start = False
                    continue
                if tj.kind == 'punct' and tj.text == ',':
                    at_field_start = True
                    j += 1
                    continue
                if at_field_start and tj.kind == 'ident':
                    if tj.text == 'pub':
                        at_field_start = False
                    else:
                        jn = _next_code(toks, j, hi)
                        if toks[jn].text == ':':
                            inserts.setdefault(j, []).append('pub ')
                            report['R2b'] = report.get('R2b', 0) + 1
                        at_field_start = False
                    j += 1
                    continue
                at_field_start = False
                j += 1
    if it['kind'] == 'fn' and lift.stub:
        bo = it['body_open']
        sig_replaced = {k: v for k, v in replaced.items() if k < bo}
        segs = [('#[verifier::external_body]\n', None)]
        segs += transform(src, lo, bo - 1, lift, report, {k: v for k, v in inserts.items() if k < bo}, sig_replaced, ret_at)
        for text in inserts.get(bo, ()):
            if lift.spec and text.strip().startswith(lift.spec[0].strip()[:12]):
                segs.append((text, None))
        segs.append(('{ unimplemented!() }\n', None))
        report['STUB'] = 1
    else:
        segs = transform(src, lo, hi, lift, report, inserts, replaced, ret_at)
    info = dict(kind=it['kind'], orig_start_line=src.line_of(toks[it['kw']].start),
                orig_end_line=src.line_of(toks[it['end']].start))
    return segs, report, info


def segments_to_lines(segs, src):
    """-> list of (line_text, origin_line|None)"""
    lines = []
    cur = []
    cur_origin = None
    for text, off in segs:
        parts = text.split('\n')
        for i, p in enumerate(parts):
            if i > 0:
                lines.append((''.join(cur), cur_origin))
                cur, cur_origin = [], None
            if p:
                cur.append(p)
                if cur_origin is None and off is not None and p.strip():
                    cur_origin = src.line_of(off) + i
    lines.append((''.join(cur), cur_origin))
    return lines


def load_macro(src, name):
    """R4: read `macro_rules! name { (params) => { body }; }` (single arm, `$x:expr` / `$x:ident` fragments only)"""
    it = locate(src, 'macro_rules ' + name)
    toks = src.toks
    if it['body_open'] is None:
        raise Lost('macro %s has no brace body' % name)
    k = _next_code(toks, it['body_open'], it['end'])
    if toks[k].text not in '([{':
        raise Lost('macro %s: unexpected shape' % name)
    pc = match_close(toks, k)
    ptxt = src.text[toks[k].end:toks[pc].start]
    params = []
    for part in ptxt.split(','):
        part = part.strip()
        if not part:
            continue
        m = re.match(r'^\$([A-Za-z_][A-Za-z0-9_]*)\s*:\s*(?:expr|ident)$', part)
        if not m:
            # repetitions / other fragment kinds: general matcher (additive; such macros used to be a lost anchor)
            return load_macro_general(src, name, it)
        params.append(m.group(1))
    k2 = _next_code(toks, pc, it['end'])
    if toks[k2].text != '=>':
        raise Lost('macro %s: unexpected shape' % name)
    k3 = _next_code(toks, k2, it['end'])
    bc = match_close(toks, k3)
    # single arm only
    k4 = _next_code(toks, bc, it['end'])
    if k4 < it['end'] and toks[k4].text == ';':
        k4 = _next_code(toks, k4, it['end'])
    if k4 < it['end']:
        raise Lost('macro %s has more than one arm' % name)
    body = ''.join(' ' if toks[q].kind in ('ws', 'comment') else toks[q].text for q in range(k3 + 1, bc))
    body = ' '.join(body.split())
    if body.endswith(';'):
        body = body[:-1].rstrip()
    return params, body


_measure_checked = [False]


def check_measure_macro():
    """R3.measure is sound only while air-utils' measure! is `{ let span..; let _enter..; $expr }`"""
    if _measure_checked[0]:
        return
    import os
    rel = 'crates/air-lib/utils/src/lib.rs'
    root = os.environ.get('VERIF_REPO', '/repo')
    try:
        src = Source(rel, open(os.path.join(root, rel)).read())
    except OSError as e:
        raise Lost('cannot read %s: %s' % (rel, e))
    it = locate(src, 'macro_rules measure')
    toks = src.toks
    k = _next_code(toks, it['body_open'], it['end'])
    narms = 0
    while k < it['end']:
        if toks[k].text not in '([{':
            raise Lost('measure!: unexpected shape')
        pc = match_close(toks, k)
        k = _next_code(toks, pc, it['end'])
        if toks[k].text != '=>':
            raise Lost('measure!: unexpected shape')
        k = _next_code(toks, k, it['end'])
        bc = match_close(toks, k)
        body = ' '.join(''.join(' ' if toks[q].kind in ('ws', 'comment') else toks[q].text for q in range(k, bc + 1)).split())
        if not re.match(r'^\(\{ let span = tracing::span!\([^;]*\); let _enter = span\.enter\(\); \$expr \}\)$', body):
            raise Lost('air-utils measure! no longer is a tracing span around $expr: `%s`' % body[:160])
        narms += 1
        k = _next_code(toks, bc, it['end'])
        if k < it['end'] and toks[k].text == ';':
            k = _next_code(toks, k, it['end'])
    if narms == 0:
        raise Lost('measure!: no arms found')
    _measure_checked[0] = True


# ---------------------------------------------------------------------------------------------------------------
# R4 (general macro_rules expansion) and R5 (formatting macros -> shim calls), both at token-tree level.
# A token tree node is ('tok', kind, text) or ('group', open, [nodes], close).

FMT_MACROS = ('write', 'writeln', 'format_args')
_CLOSER = {'(': ')', '[': ']', '{': '}'}


def _uses_tt_expansion(lift):
    return lift.fmt_shim or any(isinstance(v, GenMacro) for v in lift.expand.values())


def tt_parse(text, where):
    try:
        toks = [t for t in lex(text) if t.kind not in ('ws', 'comment')]
    except LexError as e:
        raise Lost('cannot lex macro text at %s: %s' % (where, e))
    stack = [[]]
    opens = []
    for t in toks:
        if t.kind == 'punct' and t.text in _CLOSER:
            stack.append([])
            opens.append(t.text)
        elif t.kind == 'punct' and t.text in (')', ']', '}'):
            if not opens or _CLOSER[opens[-1]] != t.text:
                raise Lost('unbalanced brackets in macro text at %s' % where)
            inner = stack.pop()
            o = opens.pop()
            stack[-1].append(('group', o, inner, t.text))
        else:
            stack[-1].append(('tok', t.kind, t.text))
    if opens:
        raise Lost('unbalanced brackets in macro text at %s' % where)
    return stack[0]


def tt_render(nodes):
    out = []
    for n in nodes:
        if n[0] == 'tok':
            out.append(n[2])
        else:
            inner = tt_render(n[2])
            out.append(n[1] + (' ' + inner + ' ' if inner else '') + n[3])
    return ' '.join(out)


def _is_tok(n, text):
    return n[0] == 'tok' and n[2] == text and n[1] != 'str'


class GenMacro:
    """a single-arm macro_rules! definition: matcher and transcriber as trees (read from the source at every run)"""

    def __init__(self, name, matcher, body, where):
        self.name, self.matcher, self.body, self.where = name, matcher, body, where


_FRAGS = ('expr', 'ident', 'literal', 'tt', 'block')


def _parse_matcher(nodes, where):
    """-> items: ('lit', text) | ('frag', name, kind) | ('rep', items, sep|None, op) | ('group', open, items, close)"""
    items = []
    k = 0
    while k < len(nodes):
        n = nodes[k]
        if _is_tok(n, '$'):
            if k + 1 >= len(nodes):
                raise Lost('%s: dangling `$` in macro matcher' % where)
            n1 = nodes[k + 1]
            if n1[0] == 'group' and n1[1] == '(':
                inner = _parse_matcher(n1[2], where)
                k += 2
                sep = None
                if k < len(nodes) and nodes[k][0] == 'tok' and nodes[k][2] not in ('*', '+', '?'):
                    sep = nodes[k][2]
                    k += 1
                if k >= len(nodes) or nodes[k][0] != 'tok' or nodes[k][2] not in ('*', '+', '?'):
                    raise Lost('%s: repetition without operator in macro matcher' % where)
                items.append(('rep', inner, sep, nodes[k][2]))
                k += 1
                continue
            if n1[0] == 'tok' and n1[1] == 'ident' and k + 3 < len(nodes) + 0 and _is_tok(nodes[k + 2], ':') \
                    and nodes[k + 3][0] == 'tok' and nodes[k + 3][1] == 'ident':
                kind = nodes[k + 3][2]
                if kind not in _FRAGS:
                    raise Lost('%s: unsupported macro fragment `$%s:%s`' % (where, n1[2], kind))
                items.append(('frag', n1[2], kind))
                k += 4
                continue
            raise Lost('%s: unsupported `$` form in macro matcher' % where)
        if n[0] == 'group':
            items.append(('group', n[1], _parse_matcher(n[2], where), n[3]))
        else:
            items.append(('lit', n[2]))
        k += 1
    return items


def _parse_body(nodes, where):
    """-> items: node | ('var', name) | ('rep', items, sep|None, op) | ('bgroup', open, items, close)"""
    items = []
    k = 0
    while k < len(nodes):
        n = nodes[k]
        if _is_tok(n, '$') and k + 1 < len(nodes):
            n1 = nodes[k + 1]
            if n1[0] == 'group' and n1[1] == '(':
                inner = _parse_body(n1[2], where)
                k += 2
                sep = None
                if k < len(nodes) and nodes[k][0] == 'tok' and nodes[k][2] not in ('*', '+', '?'):
                    sep = nodes[k][2]
                    k += 1
                if k >= len(nodes) or nodes[k][0] != 'tok' or nodes[k][2] not in ('*', '+', '?'):
                    raise Lost('%s: repetition without operator in macro body' % where)
                items.append(('rep', inner, sep, nodes[k][2]))
                k += 1
                continue
            if n1[0] == 'tok' and n1[1] == 'ident':
                items.append(('var', n1[2]))
                k += 2
                continue
            raise Lost('%s: unsupported `$` form in macro body' % where)
        if n[0] == 'group':
            items.append(('bgroup', n[1], _parse_body(n[2], where), n[3]))
        else:
            items.append(n)
        k += 1
    return items


def load_macro_general(src, name, it):
    """R4, general form: `macro_rules! name { (matcher) => (body) [;] }` -- exactly one arm"""
    toks = src.toks
    where = '%s: macro %s' % (src.path, name)
    k = _next_code(toks, it['body_open'], it['end'])
    pc = match_close(toks, k)
    k2 = _next_code(toks, pc, it['end'])
    if toks[k2].text != '=>':
        raise Lost('%s: unexpected shape' % where)
    k3 = _next_code(toks, k2, it['end'])
    if toks[k3].text not in _CLOSER:
        raise Lost('%s: unexpected shape' % where)
    bc = match_close(toks, k3)
    k4 = _next_code(toks, bc, it['end'])
    if k4 < it['end'] and toks[k4].text == ';':
        k4 = _next_code(toks, k4, it['end'])
    if k4 < it['end']:
        raise Lost('%s has more than one arm' % where)
    matcher = _parse_matcher(tt_parse(src.text[toks[k].end:toks[pc].start], where), where)
    body = _parse_body(tt_parse(src.text[toks[k3].end:toks[bc].start], where), where)
    return GenMacro(name, matcher, body, where)


def _first_lit(items):
    if items and items[0][0] == 'lit':
        return items[0][1]
    return None


def _match_frag(kind, nodes, pos, where):
    if pos >= len(nodes):
        raise Lost('%s: macro input ends where a `%s` fragment is expected' % (where, kind))
    n = nodes[pos]
    if kind == 'tt':
        return [n], pos + 1
    if kind == 'ident':
        if n[0] == 'tok' and n[1] == 'ident':
            return [n], pos + 1
        raise Lost('%s: expected an identifier in macro input' % where)
    if kind == 'block':
        if n[0] == 'group' and n[1] == '{':
            return [n], pos + 1
        raise Lost('%s: expected a block in macro input' % where)
    if kind == 'literal':
        if _is_tok(n, '-') and pos + 1 < len(nodes) and nodes[pos + 1][0] == 'tok' and nodes[pos + 1][1] == 'num':
            return [n, nodes[pos + 1]], pos + 2
        if n[0] == 'tok' and (n[1] in ('str', 'num', 'char') or n[2] in ('true', 'false')):
            return [n], pos + 1
        raise Lost('%s: expected a literal in macro input' % where)
    # expr: up to the next `,` `;` `=>` at this nesting level (closures / `|` are refused: cannot be delimited lexically)
    q = pos
    while q < len(nodes) and not (nodes[q][0] == 'tok' and nodes[q][1] == 'punct' and nodes[q][2] in (',', ';', '=>')):
        if nodes[q][0] == 'tok' and nodes[q][1] == 'punct' and nodes[q][2] in ('|', '||'):
            raise Lost('%s: `|` inside an expr fragment of a macro invocation is not supported' % where)
        q += 1
    if q == pos:
        raise Lost('%s: empty expr fragment in macro input' % where)
    return nodes[pos:q], q


def _match_items(items, nodes, pos, follow, where):
    """match a matcher sequence against nodes[pos:]; returns (bindings, pos). bindings: name -> ('one', nodes, kind) | ('many', [bindings..])"""
    b = {}
    for idx, itm in enumerate(items):
        nxt = _first_lit(items[idx + 1:]) or (follow if idx + 1 >= len(items) else None)
        if itm[0] == 'lit':
            if pos >= len(nodes) or nodes[pos][0] != 'tok' or nodes[pos][2] != itm[1]:
                raise Lost('%s: macro input does not match the definition (expected `%s`)' % (where, itm[1]))
            pos += 1
        elif itm[0] == 'frag':
            val, pos = _match_frag(itm[2], nodes, pos, where)
            b[itm[1]] = ('one', val, itm[2])
        elif itm[0] == 'group':
            if pos >= len(nodes) or nodes[pos][0] != 'group' or nodes[pos][1] != itm[1]:
                raise Lost('%s: macro input does not match the definition (expected `%s`)' % (where, itm[1]))
            ib, ip = _match_items(itm[2], nodes[pos][2], 0, None, where)
            if ip != len(nodes[pos][2]):
                raise Lost('%s: macro input does not match the definition (extra tokens in group)' % where)
            b.update(ib)
            pos += 1
        else:
            _, inner, sep, op = itm
            first = _first_lit(inner)
            iters = []
            while pos < len(nodes):
                if iters and op == '?':
                    break
                if iters and sep is not None:
                    if not (nodes[pos][0] == 'tok' and nodes[pos][2] == sep):
                        break
                    # a trailing separator followed by the follow token is not part of the repetition
                    save = pos
                    pos += 1
                    try:
                        ib, pos = _match_items(inner, nodes, pos, sep, where)
                    except Lost:
                        pos = save
                        break
                    iters.append(ib)
                    continue
                if first is not None:
                    if not (nodes[pos][0] == 'tok' and nodes[pos][2] == first):
                        break
                elif nxt is not None and nodes[pos][0] == 'tok' and nodes[pos][2] == nxt:
                    break
                ib, pos = _match_items(inner, nodes, pos, sep if sep is not None else (first or nxt), where)
                iters.append(ib)
            if op == '+' and not iters:
                raise Lost('%s: macro input does not match the definition (`+` repetition is empty)' % where)
            names = set()
            _matcher_names(inner, names)
            for nm in names:
                b[nm] = ('many', [ib.get(nm) for ib in iters])
    return b, pos


def _matcher_names(items, acc):
    for itm in items:
        if itm[0] == 'frag':
            acc.add(itm[1])
        elif itm[0] in ('rep', 'group'):
            _matcher_names(itm[1] if itm[0] == 'rep' else itm[2], acc)


def _body_vars(items, acc):
    for itm in items:
        if itm[0] == 'var':
            acc.add(itm[1])
        elif itm[0] == 'rep':
            _body_vars(itm[1], acc)
        elif itm[0] == 'bgroup':
            _body_vars(itm[2], acc)


def _transcribe(items, b, where):
    out = []
    for itm in items:
        if itm[0] == 'var':
            if itm[1] == 'crate':
                out.append(('tok', 'ident', 'crate'))       # the generated file is one crate
                continue
            v = b.get(itm[1])
            if v is None:
                raise Lost('%s: `$%s` is not bound by the macro matcher' % (where, itm[1]))
            if v[0] != 'one':
                raise Lost('%s: `$%s` used at the wrong repetition depth' % (where, itm[1]))
            val = v[1]
            if v[2] == 'expr' and len(val) > 1:
                out.append(('group', '(', list(val), ')'))  # an expr fragment stays one expression
            else:
                out.extend(val)
        elif itm[0] == 'rep':
            _, inner, sep, op = itm
            used = set()
            _body_vars(inner, used)
            drivers = [nm for nm in used if nm in b and b[nm][0] == 'many']
            if not drivers:
                raise Lost('%s: repetition in macro body has no repeating variable' % where)
            n = len(b[drivers[0]][1])
            if any(len(b[nm][1]) != n for nm in drivers):
                raise Lost('%s: repetition variables of different lengths in macro body' % where)
            for i in range(n):
                bi = dict(b)
                for nm in drivers:
                    bi[nm] = b[nm][1][i]
                if i > 0 and sep is not None:
                    out.append(('tok', 'punct', sep))
                out.extend(_transcribe(inner, bi, where))
        elif itm[0] == 'bgroup':
            out.append(('group', itm[1], _transcribe(itm[2], b, where), itm[3]))
        else:
            out.append(itm)
    return out


def _split_commas(nodes):
    parts, cur = [], []
    for n in nodes:
        if n[0] == 'tok' and n[1] == 'punct' and n[2] == ',':
            parts.append(cur)
            cur = []
        else:
            cur.append(n)
    if cur or parts:
        parts.append(cur)
    if parts and not parts[-1]:
        parts.pop()      # trailing comma
    return parts


def expand_nodes(nodes, lift, report, where, depth=0):
    """expand, inside a token tree, every invocation of an `//@ expand` macro and (with `//@ fmt-shim`) of the formatting macros"""
    if depth > 16:
        raise Lost('%s: macro expansion too deep' % where)
    out = []
    k = 0
    while k < len(nodes):
        n = nodes[k]
        if n[0] == 'group':
            out.append(('group', n[1], expand_nodes(n[2], lift, report, where, depth), n[3]))
            k += 1
            continue
        if n[1] == 'ident' and k + 2 < len(nodes) and _is_tok(nodes[k + 1], '!') and nodes[k + 2][0] == 'group' \
                and not (out and out[-1][0] == 'tok' and out[-1][2] == '::'):
            mname, args = n[2], nodes[k + 2][2]
            mac = lift.expand.get(mname)
            if mac is not None:
                mwhere = '%s: %s!' % (where, mname)
                if isinstance(mac, GenMacro):
                    b, pos = _match_items(mac.matcher, args, 0, None, mwhere)
                    if pos != len(args):
                        raise Lost('%s: macro input does not match the definition (extra tokens)' % mwhere)
                    res = _transcribe(mac.body, b, mwhere)
                else:
                    params, body = mac
                    parts = _split_commas(args)
                    if len(parts) != len(params):
                        raise Lost('macro %s! called with %d arguments, definition has %d (%s)' % (mname, len(parts), len(params), where))
                    b = {pn: ('one', pv, 'expr') for pn, pv in zip(params, parts)}
                    res = _transcribe(_parse_body(tt_parse(body, mwhere), mwhere), b, mwhere)
                report['R4.' + mname] = report.get('R4.' + mname, 0) + 1
                out.extend(expand_nodes(res, lift, report, where, depth + 1))
                k += 3
                continue
            if lift.fmt_shim and mname in FMT_MACROS:
                args = expand_nodes(args, lift, report, where, depth)
                out.extend(fmt_shim_call(mname, args, report, where))
                k += 3
                continue
        out.append(n)
        k += 1
    return out


def _str_value(tok_text, where):
    """the value of a Rust string literal token"""
    m = re.match(r'^r(#*)"(.*)"\1$', tok_text, re.S)
    if m:
        return m.group(2)
    if not (tok_text.startswith('"') and tok_text.endswith('"')):
        raise Lost('%s: format string is not a plain string literal: %s' % (where, tok_text[:40]))
    body = tok_text[1:-1]
    out = []
    i = 0
    simple = {'n': '\n', 'r': '\r', 't': '\t', '\\': '\\', '0': '\0', '"': '"', "'": "'"}
    while i < len(body):
        ch = body[i]
        if ch != '\\':
            out.append(ch)
            i += 1
            continue
        e = body[i + 1]
        if e in simple:
            out.append(simple[e])
            i += 2
        elif e == 'x':
            out.append(chr(int(body[i + 2:i + 4], 16)))
            i += 4
        elif e == 'u':
            j = body.index('}', i)
            out.append(chr(int(body[i + 3:j].replace('_', ''), 16)))
            i = j + 1
        elif e == '\n':
            i += 2
            while i < len(body) and body[i].isspace():
                i += 1
        else:
            raise Lost('%s: unknown escape `\\%s` in format string' % (where, e))
    return ''.join(out)


def _str_literal(value):
    out = ['"']
    for ch in value:
        if ch == '\\':
            out.append('\\\\')
        elif ch == '"':
            out.append('\\"')
        elif ch == '\n':
            out.append('\\n')
        elif ch == '\r':
            out.append('\\r')
        elif ch == '\t':
            out.append('\\t')
        elif ord(ch) < 0x20 or ord(ch) == 0x7f:
            out.append('\\u{%x}' % ord(ch))
        else:
            out.append(ch)
    out.append('"')
    return ''.join(out)


def fmt_shim_call(mname, args, report, where):
    """R5: see the module docstring"""
    where = '%s: %s!' % (where, mname)
    parts = _split_commas(args)
    dst = None
    if mname in ('write', 'writeln'):
        if len(parts) < 2:
            raise Lost('%s without a format string is not supported' % where)
        dst, parts = parts[0], parts[1:]
    if not parts or len(parts[0]) != 1 or parts[0][0][0] != 'tok' or parts[0][0][1] != 'str':
        raise Lost('%s: the format string must be a string literal' % where)
    lit = _str_value(parts[0][0][2], where)
    positional, named = [], {}
    for p in parts[1:]:
        if len(p) >= 3 and p[0][0] == 'tok' and p[0][1] == 'ident' and _is_tok(p[1], '=') and not _is_tok(p[2], '='):
            named[p[0][2]] = p[2:]
        else:
            if named:
                raise Lost('%s: positional argument after a named one' % where)
            positional.append(p)
    pieces, phs = [], []
    cur = []
    i = 0
    while i < len(lit):
        ch = lit[i]
        if ch == '{':
            if lit.startswith('{{', i):
                cur.append('{')
                i += 2
                continue
            j = lit.find('}', i)
            if j < 0:
                raise Lost('%s: unterminated placeholder in format string' % where)
            pieces.append(''.join(cur))
            cur = []
            phs.append(lit[i + 1:j])
            i = j + 1
        elif ch == '}':
            if lit.startswith('}}', i):
                cur.append('}')
                i += 2
                continue
            raise Lost('%s: stray `}` in format string' % where)
        else:
            cur.append(ch)
            i += 1
    pieces.append(''.join(cur))

    def var(name):
        return named[name] if name in named else [('tok', 'ident', name)]

    next_pos = 0
    argv, width = [], None
    for ph in phs:
        arg, _, spec = ph.partition(':')
        arg, spec = arg.strip(), spec.strip()
        if arg == '':
            if next_pos >= len(positional):
                raise Lost('%s: not enough arguments for the format string' % where)
            argv.append(positional[next_pos])
            next_pos += 1
        elif arg.isdigit():
            if int(arg) >= len(positional):
                raise Lost('%s: positional argument %s out of range' % (where, arg))
            argv.append(positional[int(arg)])
        elif re.match(r'^[A-Za-z_][A-Za-z0-9_]*$', arg):
            argv.append(var(arg))
        else:
            raise Lost('%s: unsupported placeholder `{%s}`' % (where, ph))
        if spec:
            m = re.match(r'^([A-Za-z_][A-Za-z0-9_]*)\$$', spec)
            if not m or len(phs) != 1:
                raise Lost('%s: unsupported format spec `{%s}`' % (where, ph))
            width = var(m.group(1))
    nl = '_nl' if mname == 'writeln' else ''
    call = [('tok', 'ident', 'verif_format_args%s%s' % (nl, '_pad1' if width is not None else str(len(argv))))]
    inner = []
    for idx, a in enumerate(argv):
        inner += [('tok', 'str', _str_literal(pieces[idx])), ('tok', 'punct', ','),
                  ('tok', 'punct', '&'), ('group', '(', list(a), ')'), ('tok', 'punct', ',')]
        if width is not None:
            inner += [('group', '(', list(width), ')'), ('tok', 'punct', ',')]
    inner.append(('tok', 'str', _str_literal(pieces[-1])))
    call.append(('group', '(', inner, ')'))
    report['R5.' + mname] = report.get('R5.' + mname, 0) + 1
    if dst is None:
        return call
    recv = dst if len(dst) == 1 else [('group', '(', list(dst), ')')]
    return recv + [('tok', 'punct', '.'), ('tok', 'ident', 'write_fmt'), ('group', '(', call, ')')]
