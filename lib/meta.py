"""Static per-property texts: what is claimed, what is assumed. Counts never live here."""

TRUSTED_BASE = [
    'Verus 0.2026.09.13 + Z3 (deductive back end); rustc',
    'the extractor (lib/extract.py): rules R1-R3, R7, RET, declared literal rewrites; drop report in coverage.extraction_drop_report',
    'machine arithmetic = the release profile (overflow-checks = true): overflow is a panic, i.e. a precondition',
]
STANDING_ASSUMPTIONS = [
    'hand-written type shims in units/*.rs stand for the real types (listed under coverage.trusted_base per unit)',
    'external_body functions are trusted to satisfy the contract written on them unless another obligation proves it',
    'termination is proved only where a decreases clause is given',
]

GAP = 'local claim: the mechanism functions named in the property anchors carry postconditions taken from the property statement; the lifting from those per-call contracts to ALL histories/schedules is an unproved composition step'

CLAIMED = {
    'C01': dict(assumptions=[
        'partial claim: the listed functions (trace handler, mergers, FSMs, CID layer, call/canon/ap handlers, the control-flow and fold executors) are total (no overflow, unwrap/expect on None, out-of-bounds index, unreachable!) on hostile trace/CID data and allocate within STREAM_MAX_SIZE generations; NOT "the interpreter is total": air_parser::parse, to_human_readable_data, Beautifier, rkyv check_bytes, the lambda applier over JSON, recursion depth and allocation inside dependencies are not covered',
        'the typestate preconditions of ParBuilder/StateInserter/SubTraceLoreCtorQueue are proved at their call sites in ParFSM/FoldFSM; what remains assumed is that the result trace only grows between FSM calls',
        'RawValue::get_value panics on a stored text that is not JSON: recorded known finding F4 (native job C01.raw_value)',
    ]),
    'C02': dict(assumptions=[
        'internal failure of the farewell step itself (stream compactification or signing error inside populate_outcome_from_contexts) returns that error\'s code with EMPTY data (F11, DESIGN.md section 5): every C02 contract is stated "unless internal_failure_outcome"',
        '"decodable" = the data is the serialization of an envelope; the rkyv/rmp round trip itself is trusted (C27)',
        'verify / prepare / parse_data / Instruction::execute are external: the claim is about what execute_air_impl and the farewell functions do with their results',
    ]),
    'C03': dict(assumptions=[GAP,
        'only the signature clause of C03 in its per-call form (R): every handler call that hands a CID-bearing state to the trace handler registers exactly that CID once, under the peer whose tetraplet the aggregate is stored with, on every path that still pushes a state; PeerCidTracker::register keeps it iff peer == current peer; sign_produced_cids / sign_result put ed_sign(key, salted(sorted(cids), particle id)) under keypair.public(). The lift to "tracker cids == multiset of the current peer\'s CIDs in the final trace, hence the receiver\'s check succeeds" is an argument, not a proof: it needs that trace merges add or drop no CID-bearing state outside these handlers',
        'decoding, the version gate, CID-store verification and tracked => resolvable are the obligations of units version, cid_verify, cid_store, cid_state (tagged C21/C25/C14/C09), not re-proved under C03',
        'Ed25519, borsh (SaltedData::serialize) and sort_unstable are uninterpreted; the same serialisation is used by signer and verifier; that the keypair is the current peer\'s key is the host\'s obligation; CID collision-freeness; the canon epilog closure (dyn Fn) is assumed to push Executed(cid) on Ok, to fail only uncatchably and never to register',
    ]),
    'C05': dict(assumptions=[GAP, '"at most once over a history" = decision table rows (i)-(v) + C06 freshness + C09, composed informally']),
    'C06': dict(assumptions=[GAP, 'u32 exhaustion of the request id counter is a precondition (lcid < u32::MAX), not handled by the code',
                             'prepare()/ExecutionCtx::new collections are external; the id plumbing prev_data.lcid -> ctx -> envelope is what is proved']),
    'C07': dict(assumptions=[GAP]),
    'C08': dict(assumptions=[GAP, 'order-independence of the structural states is covered as: par sizes and fold lore are functions of the NEW trace positions only (ParFSM / FoldFSM / builders), and the position maps link each merged stream value to the state consumed from that very trace; par/fold re-positioning over whole traces is not covered']),
    'C09': dict(assumptions=[GAP, 'whole-trace multiset preservation over par/fold repositioning is not covered; the Left-end restore of a par is deliberately unconstrained (F10)']),
    'C10': dict(assumptions=[GAP, 'the scope functions of the two stream tables (unit stream_scopes: Streams / StreamMaps::{meet_scope_start, meet_scope_end, compactify}, StreamMap::compactify, find_closest): start keeps every bound descriptor, end hands exactly the popped stream with all its appends to Stream::compactify, compactify Ok => every stream of every descriptor of every name was handed to it once; Stream::compactify is a logging stub there (its effect on generation numbers is proved in unit streams; the two Stream shims are not linked mechanically); trusted: an opaque HashMap<String, Vec<D>> shim (entry / remove / get_mut / iter_mut = every key once, unspecified order), 9 local rewrites; not covered: compactify_streams in the farewell step (external_body in unit runner), get / get_mut, find_closest_mut', 'that the result trace only grows between FSM calls (ghost n0 <= n1 <= n2, monotone positions) is assumed; the fold call order is no longer assumed (F13 repaired: out-of-order calls are errors)']),
    'C11': dict(assumptions=[GAP, 'thin: canon join laws only; nothing history-level']),
    'C12': dict(assumptions=[GAP, 'recursive streams and the call sites of add_value are not covered',
                             'iterator-based code (slice_iter, iter, retain, update_generations) is outside Verus: its assumed specs are tied to the real code only by the bounded native job C12.compactify on the real Stream + TraceHandler (a regression of F14b in slice_iter is caught there, not by Verus)']),
    'C13': dict(assumptions=[GAP, 'no stream is lost by the scope functions (unit stream_scopes, see C10); the precondition of meet_scope_end (its two unwraps) rests on control_exec\'s `depth > 0` plus the invariant depth <= number of bound descriptors: lemma scope_len_steps gives its steps, the induction over a run is on paper', 'every caller of Stream::add_value (unit appends) and the fold/next executors with RecursiveStreamCursor (unit fold_exec, lemma cursor_visits_each_value_once) are under contract; the fold body is an opaque child that may append to the open generation only',
                             'ValuesMatrix::slice_iter (iterator chain) is a stub with the spec non_empty(view.skip(cursor)); the bounded native jobs C12.compactify / C13.cursor tie it to the real code']),
    'C14': dict(assumptions=[GAP, 'Ed25519, borsh and CidInfo::verify internals are trusted; the attack catalogue over histories is not covered']),
    'C15': dict(assumptions=[GAP, 'to_count_map is proved to return the multiset of its argument; inside it the std idiom `*m.entry(k).or_default() += 1` is replaced (declared rewrite) by a trusted helper with that very body and the assumed contract "the count under k goes up by one, every other key keeps its count"; a str is assumed to be determined by its characters', 'DataVerifier::merge (swap decision `ours.len() < other.len()`, Entry API, by-value HashMap iteration) is outside Verus: covered only by the bounded native job C15.merge, which also re-checks to_count_map and is_multisubset on the real HashMap']),
    'C17': dict(assumptions=[GAP,
        'the tetraplets put into CallRequestParams by ResolvedCall::{collect_args, resolve_args, prepare_request_params} are, position by position, those of the arguments (arg_ok for every ImmutableValue kind: literal and built-ins => (init peer, "", "", ""); scalar => stored tetraplets; scalar/iterator with lens => stored ++ lens text; call results fresh and replayed => the call\'s resolved triplet with an empty lens, replayed ones only after verify_call)',
        'reading for canon streams: "it" is the ELEMENT the producer produced, so `#c.$.[i]` keeps the element tetraplet and `#c.$.[i].path` must append the path after the index (as the canon-map sibling does); upstream pins the first half (ap.rs) and, against the statement, the lens-less second half (fold_stream_map): recorded known finding F16',
        'a `.length` result carries ("", "", "", ".length") or (current peer, "", "", ".length"), pinned upstream (functor_dont_influence_tetraplet): accepted reading, neither names a producer',
        'SecurityTetraplet::{new, literal_tetraplet, add_lens} live in the registry crate marine-call-parameters (outside /repo): shim checked by the bounded native job C17.tetraplet_shim; lens texts (Display, format!) are uninterpreted; dyn JValuable / Box<dyn Iterable> dispatch goes through hand-written traits; MsgPack serialisation of arguments and tetraplets is trusted',
        'lens on a canon MAP (unit tetraplets_map): element tetraplet unchanged for `#%m.$.k.[i]`, element lens ++ "." ++ joined path for a longer lens, the map\'s own tetraplet with the whole lens text for `#%m.$.k`, (current peer, "", "", functor text) for `.length`; assumed there: the lens/accessor texts are uninterpreted, `format!(".{}", a)` is "." ++ a, a canon map\'s own lens is empty (it is built as (peer, "", "", "") and verify_canon admits no other), 10 narrow rewrites for iterator chains and `&impl ToString`',
        'not covered: how canon streams/maps get their element tetraplets (canon instruction, canon replay), where an error descriptor\'s tetraplet is set, `ap` (observation O2 in DESIGN.md section 5)',
    ]),
    'C18': dict(assumptions=[GAP, 'behaviour inside par/fold/new is not covered']),
    'C19': dict(assumptions=[GAP, 'quiescence of finished histories is not covered; dedup is a bounded native check']),
    'C21': dict(assumptions=['Ord for semver::Version is axiomatised as a strict total order; conformance of that axiom is a native check of a trusted dependency']),
    'C22': dict(assumptions=['"otherwise behaves exactly as an unlimited run" is covered only as: the flags are the only thing the check changes in execute_air_impl',
                             'the per-call-result check in make_exec_ctx (closure over HashMap::values) is outside the lifted text']),
    'C23': dict(assumptions=[
        'scoping half only, on the real validator.rs: every met_* callback covers every variable operand of its instruction as a use at the instruction\'s span (operands enumerated from the AST definitions; the source stream/map of canon is deliberately not a checked use) and records every output as a definition, fold iterator or next; finalize reports nothing => every recorded use has a definition starting earlier or a fold with that iterator ENCLOSING it; lemma accepted_script_is_well_scoped joins the two sides',
        'two recorded known findings, pinned by upstream tests and kept failing as obligations of their own: (b) only the first `next` per iterator name is checked against the folds (MultiMap::iter), (d-fail) the operand of `fail` is never handed to the validator',
        'assumed: a shim of multimap 0.9.1 (insert, get_vec, iter = first value per key, flat_iter; stored vectors non-empty), the &str key model, Rc::deref, Iterator::last, derived PartialEq/Ord/Default; the four other check_* functions and sort_iterator_definitions are stubs ("only add errors" / "permute each iterator\'s folds"); the after-next machine is opaque; 27 body and 8 signature rewrites (mut self, .last())',
        'NOT proved: that the generated LALR(1) driver calls each callback with its instruction\'s span, that an accepted tree has no error node, totality of the lexers and the driver on arbitrary text: only the bounded native jobs C23.scope.* (every script of <= 3 instructions over the full alphabet / <= 5 over a reduced one against an independent scoping oracle: 143 879 scripts, thorough 2 272 808) and C01.parse_total (no panic on mutated scripts)',
    ]),
    'C24': dict(assumptions=['JSON arrays/objects are opaque payloads with uninterpreted views (Rc<[JValue]>::get, BTreeMap::get external); canon-map key conversion (StreamMapKey::from_value*, try_scalar_ref_as_stream_map_key) is covered, canon stream first-index selection (iterator nth) is not']),
    'C25': dict(assumptions=['Verus: second sentence (verification accepts exactly matching pairs); cid parsing, Multihash and the digest functions are external with uninterpreted results',
                             'first sentence (the id does not depend on how the value was built) only by the bounded native job C25.canonical with real hashes on boundary JSON values']),
    'C26': dict(assumptions=[
        'structural layer only: the accessors, eq_i64/eq_u64/eq_bool/eq_str, index_into, the scalar and serde_json::Value conversions, `Serialize for JValue` (emits exactly the serde data-model rendering of the value: null->unit, bool, number by its own serialize, str, seq in order, map in iteration order) and every ValueVisitor::visit_* / KeyClassifier callback (builds the JSON value the datum denotes; later duplicate keys win; non-finite f64 reads as null), plus the round-trip lemma ser_then_de_is_identity over those contracts',
        'serde_json::Number is opaque (kind PosInt / NegInt / finite Float, six axioms for From<u64>, From<i64>, from_f64 and Number::serialize), f64 values are opaque: eq_f32 / eq_f64 / From<f32> have only weak contracts; crate::Map is a shim with its entry list in iteration order; the serde traits are hand-written "this call emits/consumes this datum" contracts, callbacks on nested values are bounded by spec-only traits carrying the contract being proved (an induction on value depth Verus does not check); the serde blanket impl for Rc<[T]> is assumed to be a seq in order; 5 std assume_specifications, 15 local rewrites, the two iterator chains of From<&serde_json::Value> are stubs',
        'NOT proved: the text layer (serde_json printer/parser, ryu/itoa, float text, escaping), Display, Debug, pointer, the macro-generated From<int> / PartialEq<$ty> impls, collection constructors, derived Clone/PartialEq: these are exercised only by the bounded native job C26.roundtrip (1362 / thorough 6427 boundary values through the real serde_json)',
        'accepted reading: `JValue == x_f32` compares exactly (as_f64() == x as f64), as the crate\'s own NB comment says; serde_json rounds to f32 first',
    ]),
    'C27': dict(assumptions=['multiformat layer only; unsigned_varint encode/decode external with a round-trip spec and a canonical-length spec (F15 repaired: over-long / overflowing tags are rejected); rkyv + check_bytes and rmp_serde are trusted']),
    'C28': dict(assumptions=[
        'one fmt assumption (shims of unit beautifier, literals cut mechanically by extractor rule R5): format_args!(LIT, args) renders LIT with the k-th placeholder replaced by the Display text of the argument it names; `{:w$}` of "" is w spaces; writeln adds a newline; write_fmt appends exactly that text or fails having only extended the output. Also trusted: itertools format(sep) = join, derived Clone, thiserror From<io::Error>, enable_try_hopon (mut self) as a stub',
        'precondition indent + depth(script) * indent_step <= usize::MAX (cannot be broken by input with the default step 4; a caller-chosen --indent-step can)',
        'proved: beautify_ast appends exactly render(ast, 0, step, hopon) -- render written from the statement: one line per instruction in script order at indent = nesting depth * step, sequences flattened, compound instructions introduced by their keyword/header, par/xor/last separators at the parent indent -- and on an I/O error only extends the output; the header of every instruction is its Display text, proved for the 16 instruction Display impls of traits.rs up to the Display text of the operands (values/traits.rs, instruction_arguments/traits.rs: uninterpreted); try_hopon recognises exactly (new $s (new #c (canon peer $s #c)))',
        'not covered by proof: the parser link (Beautifier::beautify, crate::beautify, beautify_to_string) and the operand texts: only the bounded native job C28.render (real parser + Beautifier + std::fmt on 2801 / thorough 36689 generated scripts, steps {0,1,4}, hop-on on/off, re-parse of every simple line)',
    ]),
}
for _k, _v in CLAIMED.items():
    _v.setdefault('level', 'proof')

# properties not claimed: reason (DESIGN.md section 3 / 6)
NOT_APPLICABLE = {
    'C04': 'protocol invariant over all interleavings of multi-peer histories; no single call has a pre/postcondition stating it',
    'C16': 'needs a reference semantics of AIR programs and a simulation relation (translation validation: another family)',
    'C20': 'two-run (2-safety) statement whose only enemy is RandomState-dependent HashMap iteration order; Verus abstracts the map, Kani must fix the hasher keys',
}
# claimed in DESIGN.md but whose units are not registered yet (kept current as units land)
PENDING = {}
