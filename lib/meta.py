"""Static per-property texts: what is claimed, what is assumed. Counts never live here."""

TRUSTED_BASE = [
    'Verus 0.2026.09.13 + Z3 (deductive back end); rustc',
    'the extractor (lib/extract.py): rules R1-R3, R7, RET, declared literal rewrites; drop report in coverage.extraction_drop_report',
    'machine arithmetic = the release profile (overflow-checks = true): overflow is a panic, i.e. a precondition',
]
STANDING_ASSUMPTIONS = [
    'hand-written type shims in units/*.rs stand for the real types (listed under coverage.trusted_base per unit)',
    'external_body functions are trusted to satisfy the contract written on them unless another obligation proves it',
    'termination is proved only where a decreases clause is given',
]

CLAIMED = {
    'C01': dict(level='proof', assumptions=[
        'claim is partial: the listed functions are total on hostile trace/CID data; not "the interpreter is total" (parser, beautifier, rkyv check_bytes, recursion depth, allocation inside dependencies are not covered)',
    ]),
    'C02': dict(level='proof', assumptions=[
        'internal failure of the farewell step itself (stream compactification or signing error inside populate_outcome_from_contexts) returns that error\'s code with EMPTY data (F11, DESIGN.md section 5): every C02 contract is stated "unless internal_failure_outcome"',
        'error-code ranges of to_error_code are taken from job C02.codes (native, exhaustive over the strum discriminants)',
        '"decodable" = the data is the serialization of an envelope; the rkyv/rmp round trip itself is trusted (C27)',
    ]),
    'C09': dict(level='proof', assumptions=[
        'local claim: per-state joins and slider restores; whole-trace multiset preservation over par/fold repositioning is an unproved composition step',
    ]),
    'C22': dict(level='proof', assumptions=[
        '"otherwise behaves exactly as an unlimited run" is covered only as: the flags are the only thing the check changes in execute_air_impl',
    ]),
}

# properties not claimed: reason (DESIGN.md section 3 / 6)
NOT_APPLICABLE = {
    'C03': 'relation over a whole output (trace x 5 CID stores x signature tracker x Ed25519); its only contract-sized part (handler appends a CID-bearing state => records the CID) fails on an input outside the property quantifier (F8), so a check would alarm on code where the property holds',
    'C04': 'protocol invariant over all interleavings of multi-peer histories; no single call has a pre/postcondition stating it',
    'C16': 'needs a reference semantics of AIR programs and a simulation relation (translation validation: another family)',
    'C17': 'provenance flows through dyn JValuable, Rc sharing and external String lens formatting that Verus cannot see through and Kani cannot bound',
    'C20': 'two-run (2-safety) statement whose only enemy is RandomState-dependent HashMap iteration order; Verus abstracts the map, Kani must fix the hasher keys',
    'C23': '9.6 kLOC generated table-driven LALR(1) driver over &str plus a HashMap<&str,Span> validator driven by generated actions: outside Verus, beyond CBMC bounds',
    'C26': 'serde_json printer/parser, ryu/itoa, f64 text and UTF-8 escaping: floating point and string reasoning where this family is silent',
    'C28': 'observable behaviour is bytes written through std::fmt macros; stating anything needs a model of the beautifier, not the beautifier',
}
# claimed in DESIGN.md but whose units are not registered yet (kept current as units land)
PENDING = {k: 'claimed in DESIGN.md; its unit is not registered yet (work in progress)' for k in
           ['C05', 'C06', 'C07', 'C08', 'C10', 'C11', 'C12', 'C13', 'C14', 'C15', 'C18', 'C19', 'C21', 'C24', 'C25', 'C27']}
