"""Static per-property texts: what is claimed, what is assumed. Counts never live here."""

TRUSTED_BASE = [
    'Verus 0.2026.09.13 + Z3 (deductive back end); rustc',
    'the extractor (lib/extract.py): rules R1-R3, R7, RET, declared literal rewrites; drop report in coverage.extraction_drop_report',
    'machine arithmetic = the release profile (overflow-checks = true): overflow is a panic, i.e. a precondition',
]
STANDING_ASSUMPTIONS = [
    'hand-written type shims in units/*.rs stand for the real types (listed under coverage.trusted_base per unit)',
    'external_body functions are trusted to satisfy the contract written on them unless another obligation proves it',
    'termination is proved only where a decreases clause is given',
]

GAP = 'local claim: the mechanism functions named in the property anchors carry postconditions taken from the property statement; the lifting from those per-call contracts to ALL histories/schedules is an unproved composition step'

CLAIMED = {
    'C01': dict(assumptions=[
        'partial claim: the listed functions (trace handler, mergers, FSMs, CID layer, call/canon/ap handlers, the control-flow and fold executors) are total (no overflow, unwrap/expect on None, out-of-bounds index, unreachable!) on hostile trace/CID data and allocate within STREAM_MAX_SIZE generations; NOT "the interpreter is total": air_parser::parse, to_human_readable_data, Beautifier, rkyv check_bytes, the lambda applier over JSON, recursion depth and allocation inside dependencies are not covered',
        'the typestate preconditions of ParBuilder/StateInserter/SubTraceLoreCtorQueue are proved at their call sites in ParFSM/FoldFSM; what remains assumed is that the result trace only grows between FSM calls',
        'RawValue::get_value panics on a stored text that is not JSON: recorded known finding F4 (native job C01.raw_value)',
    ]),
    'C02': dict(assumptions=[
        'internal failure of the farewell step itself (stream compactification or signing error inside populate_outcome_from_contexts) returns that error\'s code with EMPTY data (F11, DESIGN.md section 5): every C02 contract is stated "unless internal_failure_outcome"',
        '"decodable" = the data is the serialization of an envelope; the rkyv/rmp round trip itself is trusted (C27)',
        'verify / prepare / parse_data / Instruction::execute are external: the claim is about what execute_air_impl and the farewell functions do with their results',
    ]),
    'C05': dict(assumptions=[GAP, '"at most once over a history" = decision table rows (i)-(v) + C06 freshness + C09, composed informally']),
    'C06': dict(assumptions=[GAP, 'u32 exhaustion of the request id counter is a precondition (lcid < u32::MAX), not handled by the code',
                             'prepare()/ExecutionCtx::new collections are external; the id plumbing prev_data.lcid -> ctx -> envelope is what is proved']),
    'C07': dict(assumptions=[GAP]),
    'C08': dict(assumptions=[GAP, 'par/fold re-positioning over whole traces is not covered']),
    'C09': dict(assumptions=[GAP, 'whole-trace multiset preservation over par/fold repositioning is not covered; the Left-end restore of a par is deliberately unconstrained (F10)']),
    'C10': dict(assumptions=[GAP, 'that the result trace only grows between FSM calls (ghost n0 <= n1 <= n2, monotone positions) is assumed; the fold call order is no longer assumed (F13 repaired: out-of-order calls are errors)']),
    'C11': dict(assumptions=[GAP, 'thin: canon join laws only; nothing history-level']),
    'C12': dict(assumptions=[GAP, 'recursive streams and the call sites of add_value are not covered',
                             'iterator-based code (slice_iter, iter, retain, update_generations) is outside Verus: its assumed specs are tied to the real code only by the bounded native job C12.compactify on the real Stream + TraceHandler (a regression of F14b in slice_iter is caught there, not by Verus)']),
    'C13': dict(assumptions=[GAP, 'every caller of Stream::add_value (unit appends) and the fold/next executors with RecursiveStreamCursor (unit fold_exec, lemma cursor_visits_each_value_once) are under contract; the fold body is an opaque child that may append to the open generation only',
                             'ValuesMatrix::slice_iter (iterator chain) is a stub with the spec non_empty(view.skip(cursor)); the bounded native jobs C12.compactify / C13.cursor tie it to the real code']),
    'C14': dict(assumptions=[GAP, 'Ed25519, borsh and CidInfo::verify internals are trusted; the attack catalogue over histories is not covered']),
    'C15': dict(assumptions=[GAP, 'to_count_map (HashMap entry API) is outside Verus: assumed to return the multiset of its argument, checked by the bounded native job C15.merge, which also covers DataVerifier::merge (swap logic, Entry API) that Verus cannot take']),
    'C18': dict(assumptions=[GAP, 'behaviour inside par/fold/new is not covered']),
    'C19': dict(assumptions=[GAP, 'quiescence of finished histories is not covered; dedup is a bounded native check']),
    'C21': dict(assumptions=['Ord for semver::Version is axiomatised as a strict total order; conformance of that axiom is a native check of a trusted dependency']),
    'C22': dict(assumptions=['"otherwise behaves exactly as an unlimited run" is covered only as: the flags are the only thing the check changes in execute_air_impl',
                             'the per-call-result check in make_exec_ctx (closure over HashMap::values) is outside the lifted text']),
    'C24': dict(assumptions=['JSON arrays/objects are opaque payloads with uninterpreted views (Rc<[JValue]>::get, BTreeMap::get external); canon-map key conversion (StreamMapKey::from_value*, try_scalar_ref_as_stream_map_key) is covered, canon stream first-index selection (iterator nth) is not']),
    'C25': dict(assumptions=['Verus: second sentence (verification accepts exactly matching pairs); cid parsing, Multihash and the digest functions are external with uninterpreted results',
                             'first sentence (the id does not depend on how the value was built) only by the bounded native job C25.canonical with real hashes on boundary JSON values']),
    'C27': dict(assumptions=['multiformat layer only; unsigned_varint encode/decode external with a round-trip spec and a canonical-length spec (F15 repaired: over-long / overflowing tags are rejected); rkyv + check_bytes and rmp_serde are trusted']),
}
for _k, _v in CLAIMED.items():
    _v.setdefault('level', 'proof')

# properties not claimed: reason (DESIGN.md section 3 / 6)
NOT_APPLICABLE = {
    'C03': 'relation over a whole output (trace x 5 CID stores x signature tracker x Ed25519); its only contract-sized part (handler appends a CID-bearing state => records the CID) fails on an input outside the property quantifier (F8), so a check would alarm on code where the property holds',
    'C04': 'protocol invariant over all interleavings of multi-peer histories; no single call has a pre/postcondition stating it',
    'C16': 'needs a reference semantics of AIR programs and a simulation relation (translation validation: another family)',
    'C17': 'provenance flows through dyn JValuable, Rc sharing and external String lens formatting that Verus cannot see through and Kani cannot bound',
    'C20': 'two-run (2-safety) statement whose only enemy is RandomState-dependent HashMap iteration order; Verus abstracts the map, Kani must fix the hasher keys',
    'C23': '9.6 kLOC generated table-driven LALR(1) driver over &str plus a HashMap<&str,Span> validator driven by generated actions: outside Verus, beyond CBMC bounds',
    'C26': 'serde_json printer/parser, ryu/itoa, f64 text and UTF-8 escaping: floating point and string reasoning where this family is silent',
    'C28': 'observable behaviour is bytes written through std::fmt macros; stating anything needs a model of the beautifier, not the beautifier',
}
# claimed in DESIGN.md but whose units are not registered yet (kept current as units land)
PENDING = {}
