"""Static per-property texts: what is claimed, what is assumed. Counts never live here."""

TRUSTED_BASE = [
    'Verus 0.2026.09.13 + Z3 (deductive back end); rustc',
    'the extractor (lib/extract.py): rules R1-R3, R7, RET, declared literal rewrites; drop report in coverage.extraction_drop_report',
    'machine arithmetic = the release profile (overflow-checks = true): overflow is a panic, i.e. a precondition',
]
STANDING_ASSUMPTIONS = [
    'hand-written type shims in units/*.rs stand for the real types (listed under coverage.trusted_base per unit)',
    'external_body functions are trusted to satisfy the contract written on them unless another obligation proves it',
    'termination is proved only where a decreases clause is given',
]

CLAIMED = {}
