"""Kani / native bounded jobs (secondary engines)."""

JOBS = []


def all_jobs():
    return JOBS


def jobs_for(prop, tier):
    return [j for j in JOBS if prop in j['props'] and (tier == 'thorough' or j.get('tier', 'quick') == 'quick')]


def run_job(job, wd, tier, seed, replay_input=None):
    return job['run'](job, wd, tier, seed, replay_input)
