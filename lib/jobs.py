"""Secondary engine: native checks of the *real* functions in a scratch copy of /repo.

A native job is a `#[cfg(test)]` module (native/<file>.rs) appended to one real source file of a
scratch copy, so that it can reach private items; the file under test is byte-identical to /repo's
up to the appended module. Two classes:

  proof    the harness enumerates a FINITE domain completely (e.g. every strum discriminant of an
           error enum): a complete decision for that obligation
  bounded  exhaustive enumeration inside a stated size bound: a stand-in, never counted as proved

All harness modules of a crate are always appended together (whatever property is being checked), so
the scratch source -- and with it cargo's build cache under /verif/.cache -- only changes when /repo does.
"""
import fcntl
import json
import os
import re
import shutil
import subprocess
import time

HERE = os.path.dirname(os.path.dirname(os.path.abspath(__file__)))
REPO = os.environ.get('VERIF_REPO', '/repo')
NATIVE_ROOT = '/var/tmp/aquavm-verif-native'
CACHE = os.path.join(HERE, '.cache')

# id, properties, class, bound, crate, file the module is appended to, harness file, test function
JOBS = []


def native(id, props, cls, bound, crate, target, harness, test, tier='quick', what='', pairs=()):
    JOBS.append(dict(id=id, props=props, engine='native', cls=cls, bound=bound, crate=crate, target_file=target,
                     harness=harness, test=test, tier=tier, what=what, run=run_native, pairs=list(pairs)))


def all_jobs():
    _load()
    return JOBS


def jobs_for(prop, tier):
    _load()
    return [j for j in JOBS if prop in j['props'] and (tier == 'thorough' or j.get('tier', 'quick') == 'quick')]


def run_job(job, wd, tier, seed, replay_input=None):
    return job['run'](job, wd, tier, seed, replay_input)


_loaded = [False]


def _load():
    if _loaded[0]:
        return
    _loaded[0] = True
    import native_jobs  # noqa: F401  (registers through native())
    import glob
    import importlib
    for f in sorted(glob.glob(os.path.join(HERE, 'lib', 'native_jobs_*.py'))):
        importlib.import_module(os.path.basename(f)[:-3])


# ------------------------------------------------------------------ native batch
_batch = {}


def _prepare_scratch():
    """rsync /repo's working tree to the scratch path and append every harness module; returns src dir"""
    src = os.path.join(NATIVE_ROOT, 'src')
    os.makedirs(NATIVE_ROOT, exist_ok=True)
    subprocess.run(['rsync', '-a', '--delete', '--exclude', '/target', '--exclude', '.git', REPO + '/', src + '/'],
                   check=True)
    # cargo decides freshness by mtime, rsync -a restores OLD mtimes: a file that differs in content from the one used for the
    # last build (in either direction: a change, or the change undone) must look new. Keep a content-hash book and touch
    # every source file whose hash changed since the last batch; unchanged files keep the mtime recorded for them.
    import hashlib
    book_path = os.path.join(CACHE, 'native-hashes.json')
    try:
        with open(book_path) as f:
            book = json.load(f)
    except Exception:
        book = {}
    now = time.time()
    appended = {}
    for j in all_jobs():
        if j['engine'] == 'native':
            appended.setdefault(j['target_file'], [])
            if j['harness'] not in appended[j['target_file']]:
                appended[j['target_file']].append(j['harness'])
    for target, harnesses in appended.items():
        p = os.path.join(src, target)
        with open(p) as f:
            text = f.read()
        for h in harnesses:
            with open(os.path.join(HERE, 'native', h)) as f:
                text += '\n' + f.read()
        with open(p, 'w') as f:
            f.write(text)
    seen = set()
    for root, dirs, files in os.walk(src):
        dirs[:] = [d for d in dirs if d not in ('target', '.git')]
        for fn in files:
            if not fn.endswith(('.rs', '.toml', '.lock', '.lalrpop', '.json')):
                continue
            p = os.path.join(root, fn)
            rel = os.path.relpath(p, src)
            seen.add(rel)
            with open(p, 'rb') as f:
                digest = hashlib.sha1(f.read()).hexdigest()
            ent = book.get(rel)
            if ent is None or ent[0] != digest:
                book[rel] = [digest, now]
            os.utime(p, (now, book[rel][1]))
    for rel in list(book):
        if rel not in seen:
            del book[rel]
    os.makedirs(CACHE, exist_ok=True)
    with open(book_path, 'w') as f:
        json.dump(book, f)
    return src


# tests wanted by the property being checked, per crate: a batch runs only those (all `verif_native` tests when nothing is set)
_wanted = {}


def set_wanted(joblist):
    _wanted.clear()
    for j in joblist:
        if j.get('engine') == 'native':
            _wanted.setdefault(j['crate'], [])
            if j['test'] not in _wanted[j['crate']]:
                _wanted[j['crate']].append(j['test'])


def run_native_batch(crates, filt='verif_native', timeout=3600, build_only=False, tier='quick'):
    """build + run all verif_native tests of the given crates; returns {crate: (rc, output, seconds)}"""
    os.makedirs(CACHE, exist_ok=True)
    os.makedirs(NATIVE_ROOT, exist_ok=True)
    out = {}
    with open(os.path.join(NATIVE_ROOT, 'lock'), 'w') as lock:
        fcntl.flock(lock, fcntl.LOCK_EX)
        try:
            src = _prepare_scratch()
            env = dict(os.environ, CARGO_TARGET_DIR=os.path.join(CACHE, 'native-target'), CARGO_NET_OFFLINE='true', RUST_BACKTRACE='0', VERIF_TIER=tier,
                       RUSTFLAGS=os.environ.get('RUSTFLAGS', ''))
            for crate in crates:
                t0 = time.time()
                cmd = ['cargo', 'test', '-p', crate, '--lib', '--offline']
                if build_only:
                    cmd += ['--no-run']
                else:
                    filters = _wanted.get(crate) or [filt]
                    cmd += ['--', '--show-output', '--test-threads', '1'] + filters
                try:
                    p = subprocess.run(cmd, cwd=src, env=env, stdout=subprocess.PIPE, stderr=subprocess.STDOUT, text=True,
                                       timeout=timeout)
                    out[crate] = (p.returncode, p.stdout, time.time() - t0, ' '.join(cmd))
                except subprocess.TimeoutExpired as e:
                    o = e.stdout.decode(errors='replace') if isinstance(e.stdout, bytes) else (e.stdout or '')
                    out[crate] = (-9, o, time.time() - t0, ' '.join(cmd))
        finally:
            shutil.rmtree(os.path.join(NATIVE_ROOT, 'src'), ignore_errors=True)
            fcntl.flock(lock, fcntl.LOCK_UN)
    return out


def _crate_result(crate, tier='quick'):
    key = (crate, os.getpid(), tier)
    if key not in _batch:
        _batch[key] = run_native_batch([crate], tier=tier)[crate]
    return _batch[key]


_crate_locks = {}


def run_native(job, wd, tier, seed, replay_input=None):
    import threading
    lk = _crate_locks.setdefault(job['crate'], threading.Lock())
    with lk:
        rc, output, secs, cmd = _crate_result(job['crate'], tier)
    res = dict(pairs=job.get('pairs', []), id=job['id'], engine='native (cargo test on a scratch copy of the real crate)', cls=job['cls'], bound=job['bound'],
               target=job['target_file'] + ' + native/' + job['harness'] + ' :: ' + job['test'], seconds=secs, cmd=cmd,
               trusted=['native job %s: rustc/cargo of the repository toolchain; harness native/%s' % (job['id'], job['harness'])])
    test_line = re.search(r'^test .*%s ... (\w+)' % re.escape(job['test']), output, re.M)
    if test_line is None:
        # a harness whose subject prints to the captured streams splits the `test .. ok` line: use the summary lists
        # (`--show-output` prints `successes:` / `failures:` followed by the indented test names)
        for word, section in (('ok', 'successes'), ('FAILED', 'failures')):
            if re.search(r'^%s:\n(?:    \S+\n)*?    %s$' % (section, re.escape(job['test'])), output, re.M):
                test_line = re.match(r'(\w+)', word)
                break
    cases = re.search(r'VERIF-JOB %s CASES (\d+)' % re.escape(job['id']), output)
    fail = re.search(r'VERIF-JOB %s FAIL (.*)' % re.escape(job['id']), output)
    if rc == -9:
        res.update(status='undecided', detail='native run timed out')
    elif test_line is None:
        tail = '\n'.join(output.strip().split('\n')[-25:])
        res.update(status='undecided', detail='test %s did not run (build error in the appended module or lost anchor):\n%s' % (job['test'], tail))
    elif test_line.group(1) == 'ok':
        if not cases or int(cases.group(1)) == 0:
            res.update(status='undecided', detail='harness reported no cases (vacuous)')
        else:
            res.update(status='discharged', checked=int(cases.group(1)), detail='%s cases' % cases.group(1))
    else:
        inp = fail.group(1).strip() if fail else None
        # the panic message of the failing test
        m = re.search(r"---- .*%s stdout ----\n(.*?)(?=\n---- |\nfailures:)" % re.escape(job['test']), output, re.S)
        res.update(status='failed', input=inp, site=(inp or '')[:200],
                   detail='native harness %s failed%s\n%s' % (job['test'], (' on input ' + inp) if inp else '', (m.group(1) if m else '')[-1500:]))
    return res
