"""Unit templates -> generated Verus file -> verdict per obligation.

A unit template (units/*.rs) is a Verus file whose trusted, hand-written part (type shims, spec
functions, lemmas) is plain text and whose verified part is pulled out of /repo on every run by
`//@ lift` blocks:

    //@ lift <file relative to /repo> :: <item path>
    //@ props C01 C09            properties this obligation serves
    //@ name alias               (optional) obligation name; default Type::fn
    //@ ret r                    name the result: `-> T` becomes `-> (r: T)`
    //@ spec                     following lines (until the next //@) go between header and body
    //@ loop 0                   following lines go before the body of the k-th loop
    //@ before "text" / after "text"   ghost lines before / after the source line containing text
    //@ rewrite 1 "from" => "to" literal rewrite inside the body, with expected count (JSON strings)
    //@ sig 1 "from" => "to"     same, inside the signature
    //@ end

    //@ lemma <name> props C07 C08     a hand-written proof fn counted as an obligation
    ...
    //@ end
"""
import json
import os
import re
import subprocess
import time

from extract import Lift, Lost, Source, lift_item, segments_to_lines, load_macro

REPO = os.environ.get('VERIF_REPO', '/repo')

CONTRACT_KINDS = (
    'postcondition not satisfied',
    'precondition not satisfied',
    'possible arithmetic underflow/overflow',
    'possible division by zero',
    'possible bit shift underflow/overflow',
    'invariant not satisfied before loop',
    'invariant not satisfied at end of loop body',
    'assertion failed',
    'decreases not satisfied',
    'recommendation not met',
    'possible truncation',
    'possible cast',
)


class Obligation:
    def __init__(self, unit, name, props, kind):
        self.unit, self.name, self.props, self.kind = unit, name, props, kind
        self.gen_range = None      # (first, last) generated line numbers
        self.lift = None
        self.report = {}
        self.info = {}
        self.errors = []           # classified verification errors
        self.has_spec = False
        self.canary_range = None
        self.canary_errors = []

    @property
    def id(self):
        return '%s:%s' % (self.unit, self.name)


def _parse_quoted_pair(rest, where):
    m = re.match(r'\s*(\d+)\s+("(?:[^"\\]|\\.)*")\s*=>\s*("(?:[^"\\]|\\.)*")\s*$', rest)
    if not m:
        raise Lost('bad rewrite directive at %s: %s' % (where, rest))
    return int(m.group(1)), json.loads(m.group(2)), json.loads(m.group(3))


def _parse_anchor(rest, where):
    m = re.match(r'\s*(?:#(\d+)\s+)?("(?:[^"\\]|\\.)*")\s*$', rest)
    if not m:
        raise Lost('bad anchor directive at %s: %s' % (where, rest))
    return json.loads(m.group(2)), int(m.group(1) or 0)


class Unit:
    def __init__(self, path):
        self.path = path
        self.name = os.path.basename(path)[:-3]
        self.chunks = []       # ('text', [lines]) | ('lift', Lift) | ('lemma', name, props, [lines])
        self.props = set()
        self.sources = {}
        self.obligations = []
        self.gen_lines = []    # (text, origin) origin = (file, line) | None
        self.drop_report = {}
        self.trusted = []      # external_body / assume_specification / assume( / admit( lines
        self.verus_flags = []
        self.imported = []
        self._parse()

    def _parse(self):
        cur_text = []
        lift = None
        section = None
        lemma = None
        with open(self.path) as f:
            lines = f.read().split('\n')
        for no, line in enumerate(lines, 1):
            where = '%s:%d' % (self.path, no)
            m = re.match(r'\s*//@\s*(\S+)\s*(.*)$', line)
            if not m:
                if lift is not None:
                    if section is None:
                        if line.strip():
                            raise Lost('stray text inside lift block at %s' % where)
                    else:
                        section.append(line)
                elif lemma is not None:
                    lemma[3].append(line)
                else:
                    cur_text.append(line)
                continue
            d, rest = m.group(1), m.group(2).strip()
            if d == 'unit':
                continue
            if d == 'verus-flags':
                self.verus_flags += rest.split()
                continue
            if d == 'lift':
                if lift is not None or lemma is not None:
                    raise Lost('nested lift at %s' % where)
                file, _, path = rest.partition(' :: ')
                lift = Lift(file.strip(), path.strip())
                lift.line = no
                section = None
                if cur_text:
                    self.chunks.append(('text', cur_text))
                    cur_text = []
                continue
            if d == 'stub':
                if lift is not None or lemma is not None:
                    raise Lost('stub inside a block at %s' % where)
                uname, _, oname = rest.partition(' :: ')
                if cur_text:
                    self.chunks.append(('text', cur_text))
                    cur_text = []
                self.chunks.append(('stub', uname.strip(), oname.strip(), where))
                continue
            if d == 'import-spec':
                if lift is not None or lemma is not None:
                    raise Lost('import-spec inside a block at %s' % where)
                uname, _, names = rest.partition(' :: ')
                if cur_text:
                    self.chunks.append(('text', cur_text))
                    cur_text = []
                self.chunks.append(('import', uname.strip(), names.split(), where))
                continue
            if d == 'lemma':
                mm = re.match(r'(\S+)\s+props\s+(.*)$', rest)
                if not mm:
                    raise Lost('bad lemma directive at %s' % where)
                if cur_text:
                    self.chunks.append(('text', cur_text))
                    cur_text = []
                lemma = ['lemma', mm.group(1), mm.group(2).split(), []]
                continue
            if d == 'end':
                if lift is not None:
                    self.chunks.append(('lift', lift))
                    self.props.update(lift.props)
                    lift = None
                    section = None
                elif lemma is not None:
                    self.chunks.append(tuple(lemma))
                    self.props.update(lemma[2])
                    lemma = None
                else:
                    raise Lost('stray end at %s' % where)
                continue
            if lift is None:
                raise Lost('directive %s outside a lift block at %s' % (d, where))
            if d == 'props':
                lift.props = rest.split()
            elif d == 'name':
                lift.alias = rest
            elif d == 'ret':
                lift.ret = rest
            elif d == 'spec':
                section = lift.spec
            elif d == 'loop':
                section = lift.loops.setdefault(int(rest), [])
            elif d == 'before':
                a, occ = _parse_anchor(rest, where)
                section = []
                lift.before.append((a, occ, section))
            elif d == 'after':
                a, occ = _parse_anchor(rest, where)
                section = []
                lift.after.append((a, occ, section))
            elif d == 'at-start':
                section = lift.at_start
            elif d == 'at-end':
                section = lift.at_end
            elif d == 'rewrite':
                lift.rewrites.append(_parse_quoted_pair(rest, where))
                section = None
            elif d == 'sig':
                lift.sig_rewrites.append(_parse_quoted_pair(rest, where))
                section = None
            elif d == 'expand':
                mname, mfile = rest.split()
                lift.expand_files = getattr(lift, 'expand_files', {})
                lift.expand_files[mname] = mfile
            elif d == 'pub-fields':
                lift.pub_fields = True
            elif d == 'fmt-shim':
                lift.fmt_shim = True
            elif d == 'no-canary':
                lift.no_canary = True
            elif d == 'derive':
                lift.derive = rest.split()
            elif d == 'body-only':
                lift.body_only = True
            else:
                raise Lost('unknown directive %s at %s' % (d, where))
        if lift is not None or lemma is not None:
            raise Lost('unterminated block in %s' % self.path)
        if cur_text:
            self.chunks.append(('text', cur_text))

    def source(self, rel):
        if rel not in self.sources:
            p = os.path.join(REPO, rel)
            try:
                with open(p) as f:
                    self.sources[rel] = Source(rel, f.read())
            except OSError as e:
                raise Lost('lost anchor: cannot read %s: %s' % (p, e))
        return self.sources[rel]

    def generate(self, canary=False):
        """build the generated file; returns text"""
        self.obligations = []
        self.gen_lines = []
        self.drop_report = {}
        self.imported = []
        # lifted functions that no longer exist in the source: their obligations cannot be decided, but the rest of the unit
        # still can (a change that deletes a helper and re-routes its caller must not hide the caller's failed contract)
        self.missing = []
        tpl = os.path.relpath(self.path, os.path.dirname(os.path.dirname(self.path)))

        def emit(text, origin):
            self.gen_lines.append((text, origin))

        for ch in self.chunks:
            if ch[0] == 'text':
                for l in ch[1]:
                    emit(l, None)
            elif ch[0] == 'import':
                # spec functions shared between a proving unit and a using unit are copied mechanically, never by hand
                opath = os.path.join(os.path.dirname(self.path), ch[1] + '.rs')
                try:
                    osrc = Source(ch[1] + '.rs', open(opath).read())
                except OSError as e:
                    raise Lost('import-spec at %s: %s' % (ch[3], e))
                from extract import scan_items
                from rustlex import match_close
                toks = osrc.toks
                vk = [k for k, t in enumerate(toks) if t.kind == 'ident' and t.text == 'verus'
                      and k + 2 < len(toks) and toks[k + 1].text == '!']
                if not vk:
                    raise Lost('import-spec at %s: no verus! block in %s' % (ch[3], opath))
                bo = vk[0] + 2
                while toks[bo].text != '{':
                    bo += 1
                top = list(scan_items(osrc, bo + 1, match_close(toks, bo)))
                items = [it for it in top if it['kind'] == 'fn']
                for nm in ch[2]:
                    if '::' in nm:
                        ty, fname = nm.rsplit('::', 1)
                        found = []
                        for imp in top:
                            if imp['kind'] == 'impl' and imp['body_open'] is not None and re.search(r'(^|[^A-Za-z0-9_])%s($|[^A-Za-z0-9_])' % re.escape(ty), imp['header'] or ''):
                                found += [it for it in scan_items(osrc, imp['body_open'] + 1, imp['end']) if it['kind'] == 'fn' and it['name'] == fname]
                    else:
                        found = [it for it in items if it['name'] == nm]
                    if len(found) != 1:
                        raise Lost('import-spec %s :: %s at %s: %d matches' % (ch[1], nm, ch[3], len(found)))
                    it = found[0]
                    st = it['kw']
                    while True:
                        q = st - 1
                        while q > 0 and toks[q].kind in ('ws', 'comment'):
                            q -= 1
                        if toks[q].kind == 'ident' and toks[q].text in ('pub', 'open', 'closed', 'spec', 'uninterp', 'broadcast'):
                            st = q
                        else:
                            break
                    text = osrc.text[toks[st].start:toks[it['end']].end]
                    if not re.search(r'\bspec\s+fn\b', text.split('{')[0]):
                        raise Lost('import-spec %s :: %s is not a spec fn' % (ch[1], nm))
                    emit('// spec fn imported mechanically from unit `%s`' % ch[1], None)
                    for l in text.split('\n'):
                        emit(l, None)
            elif ch[0] == 'stub':
                import copy
                other = Unit(os.path.join(os.path.dirname(self.path), ch[1] + '.rs'))
                found = [c[1] for c in other.chunks if c[0] == 'lift' and c[1].name == ch[2]]
                if len(found) != 1:
                    raise Lost('stub %s :: %s at %s: %d matching lifts' % (ch[1], ch[2], ch[3], len(found)))
                sl = copy.copy(found[0])
                if not sl.spec:
                    raise Lost('stub %s :: %s has no contract to import' % (ch[1], ch[2]))
                sl.stub = True
                sl.rewrites, sl.loops, sl.before, sl.after = [], {}, [], []
                for mname, mfile in getattr(sl, 'expand_files', {}).items():
                    sl.expand[mname] = load_macro(self.source(mfile), mname)
                src = self.source(sl.file)
                try:
                    segs, report, info = lift_item(src, sl)
                except Lost as e:
                    if str(e).endswith('not found') and ' :: fn ' in (' :: ' + sl.path):
                        self.missing.append((sl.name, [], 'stub %s :: %s: %s' % (ch[1], ch[2], e)))
                        continue
                    raise
                emit('// contract imported mechanically from unit `%s`, obligation `%s`, where it is proved on the lifted body' % (ch[1], ch[2]), None)
                for text, oline in segments_to_lines(segs, src):
                    emit(text, None)
                self.imported.append('%s: contract of %s imported from unit %s (proved there)' % (self.name, ch[2], ch[1]))
            elif ch[0] == 'lemma':
                ob = Obligation(self.name, ch[1], ch[2], 'lemma')
                first = len(self.gen_lines) + 1
                for l in ch[3]:
                    emit(l, None)
                ob.gen_range = (first, len(self.gen_lines))
                self.obligations.append(ob)
            else:
                lift = ch[1]
                src = self.source(lift.file)
                for mname, mfile in getattr(lift, 'expand_files', {}).items():
                    lift.expand[mname] = load_macro(self.source(mfile), mname)
                try:
                    segs, report, info = lift_item(src, lift)
                except Lost as e:
                    if str(e).endswith('not found') and ' :: fn ' in (' :: ' + lift.path) and lift.props:
                        self.missing.append((lift.name, list(lift.props), str(e)))
                        continue
                    raise
                lines = segments_to_lines(segs, src)
                first = len(self.gen_lines) + 1
                for text, oline in lines:
                    emit(text, (lift.file, oline) if oline else None)
                last = len(self.gen_lines)
                canary_range = None
                if canary and info['kind'] == 'fn' and lift.spec and not lift.no_canary:
                    # a copy of the function, renamed, with `ensures false`: it must fail to verify
                    cfirst = len(self.gen_lines) + 1
                    fname = lift.path.split(' :: ')[-1].split(' @ ')[0].strip().split(' ', 1)[1]
                    renamed = False
                    clines = []
                    for text, oline in _add_canary(lines, lift):
                        if not renamed and re.search(r'\bfn\s+%s\b' % re.escape(fname), text):
                            text = re.sub(r'\bfn\s+%s\b' % re.escape(fname), 'fn %s__canary' % fname, text, count=1)
                            renamed = True
                        clines.append((text, oline))
                    for text, oline in clines:
                        emit(text, None)
                    canary_range = (cfirst, len(self.gen_lines))
                if info['kind'] in ('fn', 'impl') and (info['kind'] == 'fn' or lift.props):
                    ob = Obligation(self.name, lift.name, lift.props, 'contract' if lift.spec else 'safety')
                    ob.gen_range = (first, last)
                    ob.canary_range = canary_range
                    ob.lift = lift
                    ob.report = report
                    ob.info = info
                    ob.has_spec = bool(lift.spec)
                    self.obligations.append(ob)
                self.drop_report['%s :: %s' % (lift.file, lift.path)] = report
        text = '\n'.join(t for t, _ in self.gen_lines) + '\n'
        self.trusted = ['%s: verus flag %s' % (self.name, f) for f in self.verus_flags]
        for no, (t, origin) in enumerate(self.gen_lines, 1):
            if re.match(r'\s*//', t):
                continue
            if re.search(r'external_body|assume_specification|\bassume\s*\(|\badmit\s*\(|external_type_specification|'
                         r'verifier::external\b|accept_recursive_types|reject_recursive_types|^\s*impl\b.*\b(PartialEq|PartialOrd)SpecImpl\b', t):
                shown = t.strip()
                if re.match(r'\s*#\[verifier::[a-z_]+\]\s*$', t):
                    for t2, _ in self.gen_lines[no:no + 3]:
                        if t2.strip():
                            shown += ' ' + t2.strip()
                            break
                if no >= 2 and 'contract imported mechanically' in self.gen_lines[no - 2][0]:
                    shown = '[contract imported from its proving unit] ' + shown
                self.trusted.append('%s: %s' % (self.name, shown[:200]))
        return text

    def owner(self, gen_line):
        for ob in self.obligations:
            if ob.gen_range[0] <= gen_line <= ob.gen_range[1]:
                return ob
        return None

    def canary_owner(self, gen_line):
        for ob in self.obligations:
            if ob.canary_range and ob.canary_range[0] <= gen_line <= ob.canary_range[1]:
                return ob
        return None


def _add_canary(lines, lift):
    """append `ensures false` to the contract of a lifted function (vacuity canary)"""
    out = []
    done = False
    if lift.spec:
        # add to the existing ensures clause: find the first line starting with `ensures`
        for text, o in lines:
            if not done and re.match(r'\s*ensures\b', text):
                text = re.sub(r'ensures\b', 'ensures false,', text, count=1)
                done = True
            out.append((text, o))
        if not done:
            # spec has only requires: insert `ensures false` after the last spec line
            out2 = []
            last_spec = lift.spec[-1]
            for text, o in out:
                out2.append((text, o))
                if not done and text == last_spec and o is None:
                    sep = '' if last_spec.rstrip().endswith(',') else ','
                    out2[-1] = (text + sep, o)
                    out2.append(('    ensures false,', None))
                    done = True
            out = out2
    return out if done else lines


def run_verus(gen_path, rlimit=None, threads=4, timeout=900, flags=()):
    cmd = ['verus', gen_path, '--output-json', '--time', '--error-format=json', '--multiple-errors', '8',
           '--num-threads', str(threads)] + list(flags)
    if rlimit:
        cmd += ['--rlimit', str(rlimit)]
    t0 = time.time()
    try:
        p = subprocess.run(cmd, stdout=subprocess.PIPE, stderr=subprocess.PIPE, text=True, timeout=timeout,
                           cwd=os.path.dirname(gen_path))
        out, err, rc = p.stdout, p.stderr, p.returncode
    except subprocess.TimeoutExpired as e:
        out, err, rc = (e.stdout or ''), (e.stderr or ''), -9
        if isinstance(out, bytes):
            out = out.decode(errors='replace')
        if isinstance(err, bytes):
            err = err.decode(errors='replace')
    wall = time.time() - t0
    res = dict(cmd=' '.join(cmd), rc=rc, wall_s=wall, json=None, diags=[], raw_err=err)
    try:
        res['json'] = json.loads(out)
    except Exception:
        res['json'] = None
    for l in err.split('\n'):
        l = l.strip()
        if l.startswith('{'):
            try:
                res['diags'].append(json.loads(l))
            except Exception:
                pass
    return res


def classify(unit, res, gen_file):
    """attach errors to obligations; returns (status, notes)
    status: 'ok' | 'failed' (verification errors) | 'undecided' (tool problem)"""
    notes = []
    j = res['json']
    base = os.path.basename(gen_file)
    if res['rc'] == -9:
        return 'undecided', ['verus timed out']
    vr = (j or {}).get('verification-results')
    errors = [d for d in res['diags'] if d.get('level') == 'error' and not d.get('message', '').startswith('aborting due')]
    if j is None or vr is None or vr.get('encountered-vir-error') or (vr.get('encountered-error') and vr.get('errors', 0) == 0 and not vr.get('success')):
        msgs = ['%s @ %s' % (d.get('message'), [(s['file_name'], s['line_start']) for s in d.get('spans', [])][:2]) for d in errors[:6]]
        return 'undecided', ['verus did not reach verification (compile / unsupported construct): ' + ' || '.join(msgs)]
    if vr.get('success') and not errors:
        return 'ok', notes
    status = 'failed'
    for d in errors:
        msg = d.get('message', '')
        spans = []
        for s0 in d.get('spans', []):
            chain = []
            s1 = s0
            while s1 is not None:
                if os.path.basename(s1['file_name']) == base:
                    chain.append(s1)
                s1 = (s1.get('expansion') or {}).get('span')
            # a VC inside a macro body lifted into this file: attribute it to the call site that an obligation owns
            pick = None
            for c in chain:
                if unit.owner(c['line_start']) is not None or unit.canary_owner(c['line_start']) is not None:
                    pick = c
                    break
            if pick is None and chain:
                pick = chain[0]
            if pick is not None:
                s2 = dict(pick)
                s2['is_primary'] = s0.get('is_primary')
                spans.append(s2)
        prim = [s for s in spans if s.get('is_primary')]
        owner = None
        site = None
        in_canary = None
        for s in prim + spans:
            ob = unit.canary_owner(s['line_start'])
            if ob is not None:
                in_canary = ob
                break
        if in_canary is not None:
            in_canary.canary_errors.append(msg)
            continue
        for s in prim + spans:
            ob = unit.owner(s['line_start'])
            if ob is not None:
                owner, site = ob, s
                break
        # for a failed precondition the violated clause lives in the callee; keep it as detail
        detail = []
        for s in d.get('spans', []):
            lab = s.get('label') or ''
            txt = (s.get('text') or [{}])[0].get('text', '').strip() if s.get('text') else ''
            detail.append('%s:%d %s %s' % (os.path.basename(s['file_name']), s['line_start'], lab, txt[:140]))
        kind = msg
        tool_limit = ('rlimit' in msg) or ('Resource limit' in msg) or ('timed out' in msg) or ('while loop: Resource' in msg)
        if site is not None:
            origin = unit.gen_lines[site['line_start'] - 1][1]
            site_text = unit.gen_lines[site['line_start'] - 1][0].strip()
        else:
            origin, site_text = None, ''
        e = dict(kind=kind, site_text=site_text, origin=origin, detail=detail, tool_limit=tool_limit,
                 gen_line=site['line_start'] if site else None, rendered=d.get('rendered', ''))
        if owner is None:
            notes.append('error outside every obligation: %s %s' % (msg, detail[:2]))
            status = 'undecided' if status != 'failed-shim' else status
            unit_err = e
            unit.__dict__.setdefault('stray_errors', []).append(unit_err)
        else:
            owner.errors.append(e)
    return status, notes


def function_times(res):
    """per-function smt results from --time"""
    out = []
    j = res.get('json') or {}
    for m in (((j.get('times-ms') or {}).get('smt') or {}).get('smt-run-module-times') or []):
        for f in m.get('function-breakdown') or []:
            out.append(f)
    return out
