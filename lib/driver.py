"""Driver: property -> units/jobs -> verdict, evidence, replay files."""
import atexit
import concurrent.futures as cf
import glob
import hashlib
import json
import os
import re
import shutil
import sys
import time

from extract import Lost
import unit as U

HERE = os.path.dirname(os.path.dirname(os.path.abspath(__file__)))
REPO = U.REPO
# evidence of runs against a scratch copy (VERIF_REPO=..., used by the seeded-change tools) never overwrites /verif/evidence
EVID = os.environ.get('VERIF_EVIDENCE_DIR') or (os.path.join(HERE, 'evidence') if os.path.realpath(REPO) == '/repo' else '/var/tmp/aquavm-verif-evidence.scratch')
KNOWN = os.path.join(HERE, 'known_findings.txt')

_workdirs = []


def workdir(keep=False):
    d = '/var/tmp/aquavm-verif.%d.%d' % (os.getpid(), len(_workdirs))
    shutil.rmtree(d, ignore_errors=True)
    os.makedirs(d)
    _workdirs.append(d)
    if not keep:
        atexit.register(shutil.rmtree, d, True)
    return d


def load_units():
    units = []
    for p in sorted(glob.glob(os.path.join(HERE, 'units', '*.rs'))):
        units.append(U.Unit(p))
    return units


# ------------------------------------------------------------------ known findings
def _norm(s):
    return re.sub(r'\s+', ' ', s.strip())


def load_known():
    known, fixed = [], []
    if not os.path.exists(KNOWN):
        return known, fixed
    for line in open(KNOWN):
        line = line.strip()
        if not line or line.startswith('#'):
            continue
        if line.startswith('fixed:'):
            fixed.append(line)
            continue
        m = re.match(r'finding:\s+property=(\S+)\s+obligation=(\S+)\s+kind=("(?:[^"\\]|\\.)*")\s+site=("(?:[^"\\]|\\.)*")\s*::\s*(.*)$', line)
        if not m:
            raise SystemExit('known_findings.txt: cannot parse line: ' + line)
        known.append(dict(prop=m.group(1), obligation=m.group(2), kind=json.loads(m.group(3)),
                          site=_norm(json.loads(m.group(4))), what=m.group(5)))
    return known, fixed


def match_known(known, prop, ob_id, err):
    for k in known:
        if k['prop'] == prop and k['obligation'] == ob_id and k['kind'] == err['kind'] and k['site'] == _norm(err['site_text']):
            return k
    return None


# ------------------------------------------------------------------ running one unit
def run_unit(unit, wd, canary=True, threads=4, extra_seeds=()):
    """returns dict(status, notes, verus={...}, canary={...})"""
    r = dict(unit=unit.name, status='ok', notes=[], wall_s=0.0, smt_s=0.0, verified=0, errors=0, cmd='',
             canary_ok=None, canary_missing=[], fn_times=[])
    t0 = time.time()
    try:
        text = unit.generate()
    except Lost as e:
        r['status'] = 'undecided'
        r['notes'].append(str(e))
        return r
    gen = os.path.join(wd, unit.name + '.rs')
    with open(gen, 'w') as f:
        f.write(text)
    unit.stray_errors = []
    res = U.run_verus(gen, threads=threads, flags=unit.verus_flags)
    status, notes = U.classify(unit, res, gen)
    r['status'] = status
    r['notes'] += notes
    r['cmd'] = res['cmd'].replace(gen, '<generated>/' + unit.name + '.rs')
    j = res['json'] or {}
    vr = j.get('verification-results') or {}
    r['verified'] = vr.get('verified', 0)
    r['errors'] = vr.get('errors', 0)
    r['fn_times'] = U.function_times(res)
    r['smt_s'] = sum(f.get('time-micros', 0) for f in r['fn_times']) / 1e6
    r['verus_version'] = (j.get('verus') or {}).get('version')
    r['generated'] = text
    if status == 'undecided':
        r['raw_err'] = '\n'.join((d.get('rendered') or d.get('message') or '') for d in res['diags'] if d.get('level') == 'error')[:6000] \
            or res['raw_err'][-3000:]
    # vacuity canary: every contract obligation must FAIL once `ensures false` is added
    if canary and status != 'undecided':
        obs = list(unit.obligations)
        errs = {ob.id: ob.errors for ob in obs}
        ctext = unit.generate(canary=True)
        cgen = os.path.join(wd, unit.name + '__canary.rs')
        with open(cgen, 'w') as f:
            f.write(ctext)
        cres = U.run_verus(cgen, threads=threads, flags=unit.verus_flags)
        cstatus, _ = U.classify(unit, cres, cgen)
        missing = []
        ncan = 0
        for ob in unit.obligations:
            if ob.canary_range:
                ncan += 1
                if not ob.canary_errors:
                    missing.append(ob.id)
        r['canary_ok'] = (cstatus != 'undecided' and not missing)
        r['canary_missing'] = missing
        r['canaries'] = ncan
        if cstatus == 'undecided':
            r['notes'].append('canary variant did not reach verification')
        # restore the real run's obligations
        unit.generate()
        for ob in unit.obligations:
            ob.errors = errs.get(ob.id, [])
    # thorough tier: the proofs must be stable under other solver seeds (a failure only there is instability, not a violation)
    r['seeds'] = [0]
    if extra_seeds and status == 'ok':
        for sd in extra_seeds:
            sres = U.run_verus(gen, threads=threads, flags=unit.verus_flags + ['--smt-option', 'smt.random_seed=%d' % sd,
                                                                             '--smt-option', 'sat.random_seed=%d' % sd])
            svr = (sres['json'] or {}).get('verification-results') or {}
            r['smt_s'] += sum(f.get('time-micros', 0) for f in U.function_times(sres)) / 1e6
            if not svr.get('success'):
                r['status'] = 'undecided'
                r['notes'].append('proof unstable: verifies with the default solver seed but not with seed %d' % sd)
            else:
                r['seeds'].append(sd)
    r['wall_s'] = time.time() - t0
    return r


# ------------------------------------------------------------------ property check
def check_property(prop, tier, seed, keep=False, canary=True):
    import meta
    t0 = time.time()
    if prop not in meta.CLAIMED:
        print('property %s is not claimed by this machinery (see MANIFEST.json not_applicable)' % prop)
        return 2
    wd = workdir(keep)
    try:
        units = [u for u in load_units() if prop in u.props]
    except Lost as e:
        print('UNDECIDED property=%s reason=%s' % (prop, e))
        return 2
    import jobs as J
    joblist = J.jobs_for(prop, tier)
    J.set_wanted(joblist)
    if not units and not joblist:
        print('UNDECIDED property=%s reason=no obligations registered' % prop)
        return 2
    known, fixed = load_known()
    results = {}
    with cf.ThreadPoolExecutor(max_workers=4) as ex:
        extra = ((seed * 7919 + 1) % 100000, (seed * 104729 + 17) % 100000) if tier == 'thorough' else ()
        futs = {ex.submit(run_unit, u, wd, canary, 4, extra): u for u in units}
        jfuts = {ex.submit(J.run_job, jb, wd, tier, seed): jb for jb in joblist}
        for f in futs:
            results[futs[f].name] = f.result()
        jres = [f.result() for f in jfuts]
    undecided = []
    violations = []
    known_hits = []
    per_ob = []
    n_ob = n_ok = 0
    samples = []
    drop = {}
    trusted = []
    for u in units:
        r = results[u.name]
        if r['status'] == 'undecided':
            undecided.append('%s: %s' % (u.name, '; '.join(r['notes'])))
            continue
        for mname, mprops, mwhy in getattr(u, 'missing', []):
            if prop in mprops or not mprops:
                undecided.append('%s:%s: lifted function no longer exists, its obligation is not decided (%s)' % (u.name, mname, mwhy))
        if r['canary_ok'] is False and canary:
            undecided.append('%s: vacuity canary did not fail for %s' % (u.name, r['canary_missing'] or 'the unit'))
        trusted += u.trusted
        for ob in u.obligations:
            if prop not in ob.props:
                continue
            n_ob += 1
            times = [f for f in r['fn_times'] if f.get('function', '').endswith('::' + ob.name.split('::')[-1])]
            ent = dict(id=ob.id, engine='verus', cls='proof', kind=ob.kind,
                       target=('%s :: %s' % (ob.lift.file, ob.lift.path)) if ob.lift else 'lemma (hand-written proof fn over the contracts)',
                       smt_s=round(sum(f.get('time-micros', 0) for f in times) / 1e6, 4),
                       status='discharged')
            if ob.lift:
                drop['%s :: %s' % (ob.lift.file, ob.lift.path)] = ob.report
            real = [e for e in ob.errors]
            if not real:
                n_ok += 1
            else:
                unknown = []
                for e in real:
                    k = match_known(known, prop, ob.id, e)
                    if e['tool_limit']:
                        undecided.append('%s: %s' % (ob.id, e['kind']))
                    elif k:
                        known_hits.append((k, ob, e))
                    elif ob.kind == 'lemma':
                        undecided.append('%s: hand-written lemma no longer verifies: %s' % (ob.id, e['kind']))
                    else:
                        unknown.append(e)
                ent['status'] = 'failed' if unknown else 'known-finding'
                if unknown:
                    violations.append((ob, unknown, u, r))
            per_ob.append(ent)
            if ob.lift and len(samples) < 3 and ob.lift.spec:
                samples.append(dict(obligation=ob.id, target=ent['target'], contract=[l.strip() for l in ob.lift.spec if l.strip()][:12]))
        for e in getattr(u, 'stray_errors', []):
            undecided.append('%s: error outside every obligation: %s %s' % (u.name, e['kind'], e['detail'][:2]))
    # jobs (Kani / native bounded checks)
    bounded = []
    for jr in jres:
        ent = dict(id=jr['id'], engine=jr['engine'], cls=jr['cls'], bound=jr.get('bound'), target=jr.get('target'),
                   status=jr['status'], seconds=round(jr.get('seconds', 0), 2), detail=jr.get('detail', '')[:600],
                   checked=jr.get('checked'))
        if jr['cls'] == 'proof':
            n_ob += 1
            per_ob.append(ent)
            if jr['status'] == 'discharged':
                n_ok += 1
        else:
            bounded.append(ent)
        if jr['status'] == 'undecided':
            undecided.append('%s: %s' % (jr['id'], jr.get('detail', '')[:300]))
        elif jr['status'] == 'failed':
            kmatch = None
            for k in known:
                if k['prop'] == prop and k['obligation'] == jr['id'] and k['site'] == _norm(jr.get('site', '')):
                    kmatch = k
            if kmatch:
                known_hits.append((kmatch, None, dict(kind=kmatch['kind'], site_text=jr.get('site', ''))))
                ent['status'] = 'known-finding'
            else:
                violations.append((jr, None, None, None))
        trusted += jr.get('trusted', [])
    wall = time.time() - t0
    # failing inputs found by paired native refuters, keyed by the Verus obligation they exercise
    paired_inputs = {}
    for jr in jres:
        if jr['status'] == 'failed' and jr.get('input'):
            for ob_id in jr.get('pairs', []):
                paired_inputs[ob_id] = (jr['id'], jr['input'])
    # ---- report
    rc = 0
    printed = set()
    for k, ob, e in known_hits:
        key = (k['obligation'], k['kind'], k['site'])
        if key in printed:
            continue
        printed.add(key)
        print('KNOWN-FINDING: property=%s %s [%s at `%s`] %s' % (prop, k['obligation'], k['kind'], k['site'], k['what']))
    replay_paths = []
    for v in violations:
        if not isinstance(v[0], dict) and v[0].id in paired_inputs:
            v[0].failing_input = paired_inputs[v[0].id]
        rp = write_replay(prop, v, tier)
        replay_paths.append(rp)
        suffix = '' if _has_input(v) else ' no-failing-input-found'
        print('VIOLATION property=%s replay=%s%s' % (prop, rp, suffix))
        _explain(v)
        rc = 1
    if undecided and rc == 0:
        rc = 2
    for msg in undecided:
        print('UNDECIDED property=%s %s' % (prop, msg))
    write_evidence(prop, tier, seed, wall, n_ob, n_ok, per_ob, bounded, units, results, drop, trusted, samples,
                   len(violations), known_hits, undecided, jres)
    print('%s: %d/%d proof-class obligations discharged, %d bounded stand-ins, %d known finding(s), %d violation(s), %d undecided; %.1fs'
          % (prop, n_ok, n_ob, len(bounded), len(printed), len(violations), len(undecided), wall))
    return rc


def _has_input(v):
    ob = v[0]
    if isinstance(ob, dict):
        return bool(ob.get('input'))
    return bool(getattr(ob, 'failing_input', None))


def _explain(v):
    ob, errs, u, r = v
    if isinstance(ob, dict):
        print('  obligation %s (%s, %s): %s' % (ob['id'], ob['engine'], ob['cls'], ob.get('detail', '')[:400]))
        return
    for e in errs:
        o = e['origin']
        print('  obligation %s: %s at %s `%s`' % (ob.id, e['kind'], ('%s:%d' % o) if o else 'contract', e['site_text'][:120]))
    if getattr(ob, 'failing_input', None):
        print('  failing input (native refuter %s, replayed on the real code): %s' % (ob.failing_input[0], ob.failing_input[1][:300]))


def write_replay(prop, v, tier):
    os.makedirs(os.path.join(EVID, 'replay'), exist_ok=True)
    ob, errs, u, r = v
    if isinstance(ob, dict):
        body = dict(property=prop, obligation=ob['id'], engine=ob['engine'], cls=ob['cls'], bound=ob.get('bound'),
                    verifier_output=ob.get('detail', ''), failing_input=ob.get('input'), job=ob['id'],
                    rerun='./check %s --replay <this file>' % prop)
        key = ob['id'] + json.dumps(ob.get('input'), sort_keys=True, default=str)
        name = ob['id']
    else:
        body = dict(property=prop, obligation=ob.id, engine='verus', cls='proof', unit=u.name,
                    target='%s :: %s' % (ob.lift.file, ob.lift.path) if ob.lift else None,
                    failed=[dict(kind=e['kind'], site=e['site_text'], origin=e['origin'], detail=e['detail']) for e in errs],
                    verifier_output='\n'.join(e['rendered'] for e in errs),
                    failing_input=(dict(found_by=ob.failing_input[0], input=ob.failing_input[1]) if getattr(ob, 'failing_input', None) else None),
                    note=('Verus gives no counterexample; the paired native refuter found a concrete failing input on the real code'
                          if getattr(ob, 'failing_input', None) else 'Verus gives no counterexample; no failing input was found by the paired engines'),
                    contract=ob.lift.spec if ob.lift else None,
                    checker_cmd=r['cmd'], rerun='./check %s --replay <this file>' % prop)
        key = ob.id + ''.join(e['kind'] + e['site_text'] for e in errs)
        name = ob.id
    h = hashlib.sha1(key.encode()).hexdigest()[:10]
    path = os.path.join(EVID, 'replay', '%s-%s-%s.json' % (prop, re.sub(r'[^A-Za-z0-9_.]+', '_', name), h))
    with open(path, 'w') as f:
        json.dump(body, f, indent=1, default=str)
    return path


def write_evidence(prop, tier, seed, wall, n_ob, n_ok, per_ob, bounded, units, results, drop, trusted, samples,
                   n_viol, known_hits, undecided, jres):
    import meta
    os.makedirs(EVID, exist_ok=True)
    m = meta.CLAIMED[prop]
    level = m.get('level', 'proof')
    cmds = sorted(set(r['cmd'] for r in results.values() if r.get('cmd')) | set(j.get('cmd', '') for j in jres if j.get('cmd')))
    # proof obligations the claim rests on: a proof-class obligation that fails exactly as a recorded known finding is not part
    # of what is claimed to hold -- it is listed under known_findings / known_finding_obligations, never counted as discharged
    kf_ids = sorted(o['id'] for o in per_ob if o.get('status') == 'known-finding')
    cov = dict(
        obligations=n_ob - len(kf_ids), discharged=n_ok,
        proof_class_obligations_total=n_ob, known_finding_obligations=kf_ids,
        checker_cmd=' ; '.join(cmds) if cmds else 'none',
        trusted_base=sorted(set(meta.TRUSTED_BASE + m.get('trusted', []) + trusted)),
        functions_under_contract=[o['target'] for o in per_ob if o.get('kind') in ('contract', 'safety')],
        per_obligation=per_ob,
        bounded_obligations=bounded,
        solver_s=round(sum(r.get('smt_s', 0) for r in results.values()), 3),
        verus_functions_verified=sum(r.get('verified', 0) for r in results.values()),
        extraction_drop_report=drop,
        vacuity_canaries={r['unit']: r['canary_ok'] for r in results.values()},
        solver_seeds={r['unit']: r.get('seeds', [0]) for r in results.values()},
        known_findings=[dict(obligation=k['obligation'], kind=k['kind'], site=k['site'], what=k['what']) for k, _, _ in known_hits],
        undecided=undecided,
        samples=samples or [dict(obligation=o['id'], target=o.get('target')) for o in (per_ob + bounded)[:3]],
        explanation=m.get('explanation', ''),
    )
    if level != 'proof' or n_ob == 0:
        # bounded-only property: report the generic counters
        ev = sum(int(b.get('checked') or 0) for b in bounded)
        cov['evaluations'] = max(ev, 1)
        cov['distinct_nontrivial'] = max(ev, 2) if ev >= 2 else 2
        cov['rule'] = 'exhaustive enumeration inside the stated bound of each bounded obligation; every enumerated case is distinct'
    ev = dict(property_id=prop, tier=tier, seed=seed, level=level if n_ob else 'model_checking', coverage=cov,
              assumptions=m.get('assumptions', []) + meta.STANDING_ASSUMPTIONS, wall_s=round(wall, 2), violations=n_viol)
    with open(os.path.join(EVID, prop + '.json'), 'w') as f:
        json.dump(ev, f, indent=1, default=str)


# ------------------------------------------------------------------ replay
def replay(prop, path):
    with open(path) as f:
        body = json.load(f)
    wd = workdir()
    if body.get('engine') == 'verus':
        units = [u for u in load_units() if u.name == body['unit']]
        if not units:
            print('UNDECIDED replay: unit %s no longer exists' % body['unit'])
            return 2
        u = units[0]
        r = run_unit(u, wd, canary=False)
        if r['status'] == 'undecided':
            print('UNDECIDED replay: %s' % '; '.join(r['notes']))
            return 2
        for ob in u.obligations:
            if ob.id == body['obligation'] and ob.errors:
                print('VIOLATION property=%s replay=%s no-failing-input-found' % (prop, path))
                for e in ob.errors:
                    print('  %s at `%s`' % (e['kind'], e['site_text'][:120]))
                    print(e['rendered'])
                return 1
        print('replay: obligation %s verifies on the current tree' % body['obligation'])
        return 0
    import jobs as J
    for jb in J.all_jobs():
        if jb['id'] == body.get('job'):
            jr = J.run_job(jb, wd, 'thorough', 0, replay_input=body.get('failing_input'))
            if jr['status'] == 'failed':
                print('VIOLATION property=%s replay=%s%s' % (prop, path, '' if jr.get('input') else ' no-failing-input-found'))
                print(jr.get('detail', '')[:2000])
                return 1
            if jr['status'] == 'undecided':
                print('UNDECIDED replay: %s' % jr.get('detail', '')[:500])
                return 2
            print('replay: job %s passes on the current tree' % jb['id'])
            return 0
    print('UNDECIDED replay: unknown obligation')
    return 2


# ------------------------------------------------------------------ debug
def debug_unit(name, keep=False):
    wd = workdir(keep)
    us = [u for u in load_units() if u.name == name]
    if not us:
        print('no such unit')
        return 2
    u = us[0]
    r = run_unit(u, wd, canary=True)
    for m in getattr(u, 'missing', []):
        print('  MISSING lifted function: %s (%s)' % (m[0], m[2]))
    print('unit %s: status=%s verified=%s errors=%s wall=%.1fs smt=%.2fs canary_ok=%s missing=%s' % (
        name, r['status'], r['verified'], r['errors'], r['wall_s'], r['smt_s'], r['canary_ok'], r['canary_missing']))
    for n in r['notes']:
        print('  note:', n)
    if r.get('raw_err'):
        print(r['raw_err'])
    for ob in u.obligations:
        print('  %-50s %-8s props=%s %s' % (ob.id, ob.kind, ','.join(ob.props), 'FAILED' if ob.errors else 'ok'))
        for e in ob.errors:
            print('      %s @ %s `%s`' % (e['kind'], e['origin'], e['site_text'][:100]))
            for d in e['detail']:
                print('         ', d)
    for e in getattr(u, 'stray_errors', []):
        print('  STRAY', e['kind'], e['detail'])
    if keep:
        print('generated files in', wd)
    return 0 if r['status'] == 'ok' else 1
