"""native jobs of property C14 (see jobs.py); registered through native()"""
from jobs import native

native('C14.verify_params', ['C14', 'C17'], 'bounded', 'every pair of tetraplets with the four components over 3 texts each (81 x 81) x 2 x 2 argument hashes (26244 cases)', 'aquavm-air',
       'air/src/execution_step/instructions/call/verifier.rs', 'verify_params.rs', 'verif_native_verify_params::verify_call_accepts_exactly_equal_parameters',
       what='real verify_call (refuter paired with the Verus obligation call_verifier:verify_call, and the stand-in when a refactoring takes the unit out of reach): '
            'Ok iff the argument hashes and all four tetraplet components are equal; a rejection is InstructionParametersMismatch naming the parameter',
       pairs=['call_verifier:verify_call'])

native('C14.verify_canon_params', ['C14', 'C11'], 'bounded', 'every pair of tetraplets with the four components over 3 texts each (81 x 81 = 6561 cases)', 'aquavm-air',
       'air/src/execution_step/instructions/canon_utils/mod.rs', 'verify_canon_params.rs', 'verif_native_verify_canon_params::verify_canon_accepts_exactly_equal_tetraplets',
       what='real verify_canon (refuter paired with the Verus obligation call_verifier:verify_canon): Ok iff all four tetraplet components are equal; '
            'a rejection is InstructionParametersMismatch naming "canon tetraplet"',
       pairs=['call_verifier:verify_canon'])
