"""native jobs of property C14 (see jobs.py); registered through native()"""
from jobs import native

native('C14.verify_params', ['C14', 'C17'], 'bounded', 'every pair of tetraplets with the four components over 3 texts each (81 x 81) x 2 x 2 argument hashes (26244 cases)', 'aquavm-air',
       'air/src/execution_step/instructions/call/verifier.rs', 'verify_params.rs', 'verif_native_verify_params::verify_call_accepts_exactly_equal_parameters',
       what='real verify_call (refuter paired with the Verus obligation call_verifier:verify_call, and the stand-in when a refactoring takes the unit out of reach): '
            'Ok iff the argument hashes and all four tetraplet components are equal; a rejection is InstructionParametersMismatch naming the parameter',
       pairs=['call_verifier:verify_call'])
