"""registry of native jobs (see jobs.py)"""
from jobs import native

native('C02.codes.prep', ['C02'], 'proof', None, 'aquavm-air', 'air/src/preparation_step/errors.rs', 'codes_prep.rs',
       'verif_native_codes_prep::code_ranges',
       what='every strum discriminant of PreparationError: PREPARATION_ERROR_START_ID + position lies in [1, 9999] (finite, exhaustive)')
native('C02.codes.exec', ['C02', 'C18'], 'proof', None, 'aquavm-air', 'air/src/execution_step/errors/execution_errors.rs', 'codes_exec.rs',
       'verif_native_codes_exec::code_ranges',
       what='every strum discriminant of Catchable/UncatchableError: START + position lies in [10000,19999] / [20000,29999]; '
            'to_error_code of constructed values = START + position; ExecutionError::is_catchable <=> Catchable(_), code = inner code')
native('C02.codes.farewell', ['C02', 'C06'], 'proof', None, 'aquavm-air', 'air/src/farewell_step/errors.rs', 'codes_farewell.rs',
       'verif_native_codes_farewell::code_ranges',
       what='FarewellError has the single code 30000 (finite, exhaustive)')
native('C19.dedup', ['C19'], 'bounded', 'vectors of length <= 5 (thorough: <= 7) over 3 distinct strings (364 / 3280 vectors)', 'aquavm-air',
       'air/src/farewell_step/outcome.rs', 'dedup.rs', 'verif_native_dedup::dedup_is_set',
       what='dedup(v): no duplicates, same element set as v')
native('C12.compactify', ['C12', 'C13', 'C10'], 'bounded',
       'every sequence of <= 4 (thorough: <= 5) operations out of {add Previous(g), add Current(g) for g in 0..=2, add New, open a new generation} (4681 / 37449 sequences)',
       'aquavm-air', 'air/src/execution_step/value_types/stream/stream_definition.rs', 'compactify.rs',
       'verif_native_compactify::compactify_renumbers_densely_in_order',
       what='real Stream<ValueAggregate> + real TraceHandler: iter()/slice_iter() equal the abstract view of unit streams; compactify writes '
            'generation k to every value of the k-th non-empty generation (previous < current < new), leaves no empty generation; '
            'this also discharges, inside the bound, the contracts assumed in unit streams for slice_iter, retain and update_generations')
native('C01.display', ['C01'], 'bounded', 'Fold states with 0..=2 sublores of 0..=3 descriptors each (12 shapes)', 'air-interpreter-data',
       'crates/air-lib/interpreter-data/src/executed_state/impls.rs', 'display_state.rs',
       'verif_native_display::display_is_total_on_malformed_fold',
       what='Display for ExecutedState (reached through KeeperError::NoStreamState\'s message) does not panic on a fold lore with a wrong number of descriptors (F9b)')
native('C15.merge', ['C15'], 'bounded', 'every pair of CID vectors of length <= 3 (thorough: <= 4) over 3 literals (1600 / 14641 pairs), one shared peer + one peer known to one side',
       'air-interpreter-data', 'crates/air-lib/interpreter-data/src/interpreter_data/verification.rs', 'multiset_merge.rs',
       'verif_native_multiset::merge_keeps_the_larger_multiset_or_rejects',
       what='real HashMap code: to_count_map = multiset of its argument (the link assumed by unit multisubset); is_multisubset <=> multiset '
            'inclusion; DataVerifier::merge = Err(MergeMismatch) <=> neither multiset contains the other, else the stored signature is the one '
            'that came with the larger multiset, and peers known to one side only are kept')
native('C13.cursor', ['C13'], 'bounded', 'initial stream of <= 3 (thorough: <= 4) values over {previous(0), previous(1), current(0), current(1)}, then <= 3 (thorough: <= 4) fold iterations appending 0..=2 new values each',
       'aquavm-air', 'air/src/execution_step/value_types/stream/recursive_stream.rs', 'cursor.rs',
       'verif_native_cursor::fold_visits_each_value_once',
       what='RecursiveStreamCursor::{met_fold_start, met_iteration_end} on the real Stream: the generations handed to the fold contain every stream value exactly once, including values appended while the fold runs')
native('C27.roundtrip', ['C27'], 'bounded', 'codec, expected over 18 values each (varint-length boundaries and the codecs in use 0x0200, 0x0201, 0x0202), 5 payload bytes (1620 triples)',
       'air-interpreter-sede', 'crates/air-lib/interpreter-sede/src/multiformat.rs', 'multiformat_rt.rs',
       'verif_native_multiformat::multiformat_round_trip_on_boundaries',
       what='real unsigned_varint: decode_multiformat(encode_multiformat(v, codec), expected) = Ok(v) iff codec == expected else Err(Codec(codec)); truncated input is an error (the varint round-trip axiom of unit multiformat, on the grid)')
native('C27.varint_all', ['C27'], 'bounded', 'every u32 tag (2^32, complete) x 3 tails (empty, [0x80,0x01], [0xff])',
       'air-interpreter-sede', 'crates/air-lib/interpreter-sede/src/multiformat.rs', 'multiformat_rt.rs',
       'verif_native_multiformat::varint_round_trip_every_u32', tier='thorough',
       what='real unsigned_varint: decode::u32(encode::u32(n) ++ rest) = (n, rest) for every n: the axiom unit multiformat assumes (axiom_varint_round_trip), complete in n, bounded in the tail')
native('C01.tracepos', ['C01', 'C09'], 'bounded', '9 x 9 boundary grid of u32 operands', 'air-interpreter-data',
       'crates/air-lib/interpreter-data/src/trace_pos.rs', 'tracepos_shim.rs', 'verif_native_tracepos::operators_match_the_shim',
       what='conformance of the trusted TracePos shim: the newtype_derive operators panic exactly on overflow/underflow, conversions are the identity')
native('C21.gate', ['C21'], 'bounded', '3 x 3 x 3 x 3 grid of versions around min_supported_version() (81 versions, all triples for transitivity)',
       'aquavm-air', 'air/src/preparation_step/preparation.rs', 'version_gate.rs', 'verif_native_version::gate_rejects_exactly_older_versions',
       what='the real semver::Version order is a strict total lexicographic order on the grid (the axiom of unit version) and the real check_version_compatibility rejects exactly versions < min with the right payload; empty data passes')
native('C01.collect_cids', ['C01', 'C03', 'C14'], 'proof', None, 'air-interpreter-data',
       'crates/air-lib/interpreter-data/src/interpreter_data/verification.rs', 'collect_cids.rs',
       'verif_native_collect_cids::data_verifier_new_is_total_on_dangling_trace_references',
       what='finite: each of the four store lookups of collect_peers_cids_from_trace (service result, its tetraplet, canon result, its tetraplet) '
            'with the referenced CID present or missing (16 combinations): DataVerifier::new returns, never panics (F5), and -- with the owner\'s key in the signature store -- fails with CidNotFound naming exactly the first missing CID, Ok only when all four are present (a dangling trace reference is never skipped)')
native('C01.raw_value', ['C01'], 'bounded', 'raw texts of length <= 2 over the alphabet {1 " [ ] x space} (43 texts)', 'air-interpreter-data',
       'crates/air-lib/interpreter-data/src/raw_value.rs', 'raw_value.rs', 'verif_native_raw_value::get_value_is_total',
       what='RawValue::get_value does not panic on a stored value that is not JSON (F4: it does -- known finding)')
native('C24.lens', ['C24'], 'bounded', 'JSON values of depth <= 2 over scalars {null, 7, "s"} and keys {a, b} (about 60 values) x paths of length <= 3 over {[0],[1],[2],.a,.b,.c} (259 paths)',
       'aquavm-air', 'air/src/execution_step/lambda_applier/applier.rs', 'lens.rs', 'verif_native_lens::lens_agrees_with_plain_json_navigation',
       what='the real select_by_path_from_scalar / .length on the real JValue agree with plain serde_json navigation and fail with a catchable error exactly when it is impossible (checks the opaque JValue shim of unit lambda)')
native('C22.limits', ['C22'], 'bounded', 'sizes {limit-1, limit, limit+1} (limit = 8) for script x data, and for one or two call results, in hard and soft mode (42 cases)',
       'aquavm-air', 'air/src/preparation_step/preparation.rs', 'size_limits.rs', 'verif_native_size_limits::limits_are_exact',
       what='real check_against_size_limits and the per-call-result check of make_exec_ctx (a closure over HashMap::values that Verus cannot take): '
            'hard mode rejects exactly when a size is above its limit with the matching error kind; soft mode raises exactly the matching flags')
native('C01.slider_grid', ['C01', 'C09'], 'bounded', 'traces of length 0..=3 x 9 x 9 boundary values of position / subtrace_len (324 cases)', 'air-trace-handler',
       'crates/air-lib/trace-handler/src/data_keeper/trace_slider.rs', 'slider_grid.rs', 'verif_native_slider_grid::slider_contracts_on_boundary_grid',
       what='executable reading of the TraceSlider contracts of unit slider on a boundary grid; paired refuter: a failing case is a concrete input replayed on the real code',
       pairs=['slider:TraceSlider::set_position_and_len', 'slider:TraceSlider::set_subtrace_len', 'slider:TraceSlider::next_state'])
native('C01.convolution_grid', ['C01'], 'bounded', 'fold lores of <= 3 records, generations over {g0, g1}, before/after lens over 7 boundary values (all 1- and 2-record lores, every 7th 3-record lore)', 'air-trace-handler',
       'crates/air-lib/trace-handler/src/merger/fold_merger/fold_lore_resolver.rs', 'convolution_grid.rs', 'verif_native_convolution_grid::convolution_matches_reference_and_never_panics',
       what='compute_lens_convolution never panics on hostile lens, errs exactly when the running total overflows u32, and otherwise equals a reference convolution computed in u64; paired refuter of unit convolution',
       pairs=['convolution:compute_lens_convolution', 'convolution:compute_before_lens'])
native('C25.canonical', ['C25'], 'bounded', 'about 50 boundary JSON values (integers at the i64/u64 edges, floats, escaped/unicode strings, nested arrays and objects) and all their pairs', 'air-interpreter-data',
       'crates/air-lib/interpreter-data/src/cid_store.rs', 'cid_canonical.rs', 'verif_native_cid_canonical::content_ids_are_canonical',
       what='real hashes: the id of a JValue equals the id of the same serde_json value and of its canonical text; key insertion order is irrelevant; '
            'verify_value(cid(v), w) is Ok exactly when v == w (the serialisation/digest functions are external in the Verus unit cid_verify)')

native('C01.parse_total', ['C01'], 'bounded',
       '11 seed scripts covering every instruction and argument form; at every char position: deletion, truncation, and replacement / insertion of each of 26 hostile chars (multi-byte letters and digits, NUL, quotes, brackets, sigils); thorough: plus a second hostile char three positions further',
       'aquavm-air-parser', 'crates/air-lib/air-parser/src/lib.rs', 'parse_total.rs', 'verif_native_parse_total::parse_never_panics',
       what='air_parser::parse (AIR lexer, lambda lexer and parser, generated LALR driver, validator) returns on every mutated script: Ok or Err, never a panic (bounded stand-in for the part of C01 that says script parsing is total; found F19)')

native('C13.cursor_nested', ['C13'], 'bounded', 'initial stream of 1..=2 values over {previous(0), current(0), current(1)}; <= 3 (thorough: <= 4) outer fold rounds, each running one complete inner fold over the SAME stream (appending 0..=1 values in its first round) before or after the outer body appends 0..=2 values',
       'aquavm-air', 'air/src/execution_step/value_types/stream/recursive_stream.rs', 'cursor.rs',
       'verif_native_cursor::nested_folds_visit_each_value_once',
       what='nested RecursiveStreamCursors over one real Stream: the outer fold and every inner fold visit each value present exactly once (F14, F14b and the empty-generation bookkeeping between folds)')

native('C25.adversarial_ids', ['C25', 'C14'], 'bounded', '5 JSON texts x {SHA2-256, BLAKE3-256} x (the genuine id, the digest cut to every length 0..=31, 1..=3 bytes appended, one bit flipped in each of the 32 bytes)',
       'air-interpreter-cid', 'crates/air-lib/interpreter-cid/src/verify.rs', 'cid_adversarial.rs',
       'verif_native_cid_adversarial::only_the_full_digest_verifies',
       what='real cid / multihash crates and real digests: verify_value and verify_raw_value accept the genuine id and reject every id whose digest is a proper prefix, an extension or a one-bit variation of the genuine digest (the digest comparison is an uninterpreted equality in the Verus unit cid_verify)')

native('C24.lens_text', ['C24', 'C01'], 'bounded', 'every lens of <= 2 (thorough: <= 3) accessors over 11 literal indices around u32::MAX and u64::MAX, 4 field names and 2 scalar names, with and without a trailing flattening sign (613 / about 10 000 lenses)',
       'air-lambda-parser', 'crates/air-lib/lambda/parser/src/lib.rs', 'lens_text.rs',
       'verif_native_lens_text::lens_text_denotes_its_path',
       what='air_lambda_parser::parse: the LambdaAST has exactly the accessors the text spells, in order, with the same numbers and names; a literal index above u32::MAX is a parse error, never another index (the lexer is string code outside Verus; unit lambda starts from the LambdaAST)')
