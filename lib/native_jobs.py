"""registry of native jobs (see jobs.py)"""
from jobs import native

native('C02.codes.prep', ['C02'], 'proof', None, 'aquavm-air', 'air/src/preparation_step/errors.rs', 'codes_prep.rs',
       'verif_native_codes_prep::code_ranges',
       what='every strum discriminant of PreparationError: PREPARATION_ERROR_START_ID + position lies in [1, 9999] (finite, exhaustive)')
native('C02.codes.exec', ['C02', 'C18'], 'proof', None, 'aquavm-air', 'air/src/execution_step/errors/execution_errors.rs', 'codes_exec.rs',
       'verif_native_codes_exec::code_ranges',
       what='every strum discriminant of Catchable/UncatchableError: START + position lies in [10000,19999] / [20000,29999]; '
            'to_error_code of constructed values = START + position; ExecutionError::is_catchable <=> Catchable(_), code = inner code')
native('C02.codes.farewell', ['C02', 'C06'], 'proof', None, 'aquavm-air', 'air/src/farewell_step/errors.rs', 'codes_farewell.rs',
       'verif_native_codes_farewell::code_ranges',
       what='FarewellError has the single code 30000 (finite, exhaustive)')
native('C19.dedup', ['C19'], 'bounded', 'vectors of length <= 5 over 3 distinct strings (364 vectors)', 'aquavm-air',
       'air/src/farewell_step/outcome.rs', 'dedup.rs', 'verif_native_dedup::dedup_is_set',
       what='dedup(v): no duplicates, same element set as v')
native('C12.compactify', ['C12', 'C13', 'C10'], 'bounded',
       'every sequence of <= 4 operations out of {add Previous(g), add Current(g) for g in 0..=2, add New, open a new generation} (4681 sequences)',
       'aquavm-air', 'air/src/execution_step/value_types/stream/stream_definition.rs', 'compactify.rs',
       'verif_native_compactify::compactify_renumbers_densely_in_order',
       what='real Stream<ValueAggregate> + real TraceHandler: iter()/slice_iter() equal the abstract view of unit streams; compactify writes '
            'generation k to every value of the k-th non-empty generation (previous < current < new), leaves no empty generation; '
            'this also discharges, inside the bound, the contracts assumed in unit streams for slice_iter, retain and update_generations')
native('C01.display', ['C01'], 'bounded', 'Fold states with 0..=2 sublores of 0..=3 descriptors each (12 shapes)', 'air-interpreter-data',
       'crates/air-lib/interpreter-data/src/executed_state/impls.rs', 'display_state.rs',
       'verif_native_display::display_is_total_on_malformed_fold',
       what='Display for ExecutedState (reached through KeeperError::NoStreamState\'s message) does not panic on a fold lore with a wrong number of descriptors (F9b)')
