"""native jobs of properties C05-C09 on the call join (see jobs.py); registered through native()"""
from jobs import native

native('C08.call_join_laws', ['C07', 'C08', 'C09', 'C05'], 'bounded', '14 call states (2 senders; scalar, unused, failed over 2 content ids; stream over 2 ids x 2 generations): 14 + 196 pairs + 2744 triples', 'air-trace-handler',
       'crates/air-lib/trace-handler/src/merger/call_merger.rs', 'call_join_laws.rs', 'verif_native_call_join_laws::merge_call_results_is_a_join',
       what='real merge_call_results (refuter paired with the Verus contract and the join lemmas of unit call_merger): idempotent, commutative and associative up to sender '
            'and generation, a result held by either side survives with its content id, a pending request never replaces a result',
       pairs=['call_merger:merge_call_results'])
