"""native jobs of properties C05-C09 on the call join (see jobs.py); registered through native()"""
from jobs import native

native('C08.call_join_laws', ['C07', 'C08', 'C09', 'C05'], 'bounded', '14 call states (2 senders; scalar, unused, failed over 2 content ids; stream over 2 ids x 2 generations): 14 + 196 pairs + 2744 triples', 'air-trace-handler',
       'crates/air-lib/trace-handler/src/merger/call_merger.rs', 'call_join_laws.rs', 'verif_native_call_join_laws::merge_call_results_is_a_join',
       what='real merge_call_results (refuter paired with the Verus contract and the join lemmas of unit call_merger): idempotent, commutative and associative up to sender '
            'and generation, a result held by either side survives with its content id, a pending request never replaces a result',
       pairs=['call_merger:merge_call_results'])

native('C11.canon_join_laws', ['C11', 'C07', 'C08', 'C09'], 'bounded', '5 canon states (requests of 2 peers, executed over 3 content ids): 5 + 25 pairs + 125 triples', 'air-trace-handler',
       'crates/air-lib/trace-handler/src/merger/canon_merger.rs', 'canon_join_laws.rs', 'verif_native_canon_join_laws::merge_canon_results_is_a_join',
       what='real merge_canon_results (refuter paired with the Verus contract and the canon join lemmas): an executed canon is never replaced by a request or by another id '
            '(two different ids are rejected in both orders), idempotent, commutative and associative up to the sender of a request',
       pairs=['canon_merger:merge_canon_results'])
