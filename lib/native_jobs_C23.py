"""native jobs of property C23 (imported automatically by jobs._load). Seven jobs, one enumeration (native/validator_scope.rs)."""
from jobs import native

_BOUND = ('every script of <= 3 (thorough: <= 4) instructions over the full alphabet (call with a variable in every triplet slot / argument / lens '
          'scalar / %last_error% lens and a scalar or stream output, ap, ap into a map, the three canon forms, fail, next, null, new, match, mismatch, '
          'fold over [] / scalar / canon stream / stream / map with iterators x and y, seq, par, xor; names x, y, $s, #c, %m, #%cm) and of <= 5 '
          '(thorough: <= 6) instructions over a reduced alphabet (25 948 + 117 931 scripts; thorough: 767 260 + 1 505 548)')
_SUBJECT = ('real lexer + generated parser + VariableValidator (the decision lines of air_parser::parse; the public parse is called on every accepted '
            'script and must agree) against an oracle written from the property statement, walking the generated tree in text order: ')


# the test path is spelled in full: the first test of the module does the enumeration, and the diagnostics `parse` prints to stderr for the
# sampled rejected scripts split its `test .. ok` line; the runner then looks the test up in the `successes:` / `failures:` lists by its full name
def _job(suffix, test, what):
    native('C23.scope.' + suffix, ['C23'], 'bounded', _BOUND, 'aquavm-air-parser', 'crates/air-lib/air-parser/src/parser/air_parser.rs',
           'validator_scope.rs', 'parser::air_parser::verif_native_validator_scope::' + test, what=_SUBJECT + what)


_job('undefined', 'scope_undefined',
     'no accepted script uses, in an operand the validator inspects, a name that no earlier operand defines and that is the iterator of no fold '
     'starting earlier (finding: MultiMap::iter yields the first span per name only, a later use of the same name is never checked)')
_job('next', 'scope_next',
     'every next of an accepted script names the iterator of an enclosing fold (finding: same MultiMap::iter in check_undefined_iterables)')
_job('iterator_after_fold', 'scope_iterator_after_fold',
     'no accepted script uses a fold iterator outside its fold in an operand the validator inspects (finding: contains_variable tests '
     '`fold span < use span`, not containment; passes only with that AND the MultiMap::iter finding repaired)')
_job('unrouted', 'scope_unrouted',
     'no accepted script uses an undefined name in an operand the validator never inspects, fail excepted (finding: peer of the three canon '
     'forms, value of ap into a map, scalar accessor of a %last_error% lens are not routed to met_variable_name)')
_job('unrouted_fail', 'scope_unrouted_fail',
     'no accepted script has a fail whose operand is not in scope (finding: met_fail_literal looks at the literal form only; `(fail x)` with x '
     'undefined is accepted; pinned upstream by two Display tests that parse `(fail x)`)')
_job('unrouted_iterator_after_fold', 'scope_unrouted_iterator_after_fold',
     'the cross term of iterator_after_fold and unrouted: a fold iterator used after its fold in an operand the validator never inspects, fail excepted (needs both repairs)')
_job('tree', 'scope_tree',
     'the tree of an accepted script has no Instruction::Error and the public parse agrees with the decision; also reports (does not fail on) '
     'well-scoped scripts that are rejected, by rejecting rule (iterator shadowing, new on an iterator, several next in one fold), and accepted '
     'scripts whose canon reads a stream / map that is not defined earlier (deliberately unchecked by the validator)')
