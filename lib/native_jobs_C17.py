"""native jobs of property C17 (see jobs.py); registered through native()"""
from jobs import native

native('C17.tetraplet_shim', ['C17'], 'bounded', 'the four components over 5 texts each, two successive add_lens over 5 x 5 texts (15625 cases)', 'aquavm-air',
       'air/src/execution_step/value_types/utils.rs', 'tetraplets_shim.rs', 'verif_native_tetraplet_shim::tetraplet_methods_match_the_shim',
       what='conformance of the trusted SecurityTetraplet shim of unit tetraplets with the registry crate marine-call-parameters: new stores its '
            'arguments, literal_tetraplet(p) = (p, "", "", ""), add_lens appends to the lens only, Clone / From<ResolvedTriplet> keep the texts')
