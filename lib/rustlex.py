"""Minimal Rust lexer used by the extractor.

Produces a flat token list (kind, text, start, end). It is only as precise as item location,
brace matching and statement-level rewriting need: comments, string/char literals, raw strings
and lifetimes are recognised so that braces inside them are never counted.
"""
import re

IDENT_START = re.compile(r'[A-Za-z_]')
IDENT = re.compile(r'[A-Za-z_][A-Za-z0-9_]*')
NUM = re.compile(r'[0-9][0-9A-Za-z_]*(\.[0-9][0-9A-Za-z_]*)?')
PUNCT3 = ('<<=', '>>=', '...', '..=')
PUNCT2 = ('->', '=>', '::', '==', '!=', '<=', '>=', '&&', '||', '+=', '-=', '*=', '/=', '%=', '^=', '&=',
          '|=', '<<', '>>', '..')


class Tok:
    __slots__ = ('kind', 'text', 'start', 'end')

    def __init__(self, kind, text, start, end):
        self.kind, self.text, self.start, self.end = kind, text, start, end

    def __repr__(self):
        return 'Tok(%s,%r)' % (self.kind, self.text)


class LexError(Exception):
    pass


def lex(src):
    toks = []
    i, n = 0, len(src)
    while i < n:
        c = src[i]
        if c.isspace():
            j = i + 1
            while j < n and src[j].isspace():
                j += 1
            toks.append(Tok('ws', src[i:j], i, j))
            i = j
            continue
        if src.startswith('//', i):
            j = src.find('\n', i)
            if j < 0:
                j = n
            toks.append(Tok('comment', src[i:j], i, j))
            i = j
            continue
        if src.startswith('/*', i):
            depth, j = 1, i + 2
            while j < n and depth:
                if src.startswith('/*', j):
                    depth += 1
                    j += 2
                elif src.startswith('*/', j):
                    depth -= 1
                    j += 2
                else:
                    j += 1
            toks.append(Tok('comment', src[i:j], i, j))
            i = j
            continue
        # raw strings r"..", r#".."#, br#".."#
        m = re.match(r'b?r(#*)"', src[i:i + 40])
        if m:
            hashes = m.group(1)
            endpat = '"' + hashes
            j = src.find(endpat, i + m.end())
            if j < 0:
                raise LexError('unterminated raw string at %d' % i)
            j += len(endpat)
            toks.append(Tok('str', src[i:j], i, j))
            i = j
            continue
        if c == '"' or (c == 'b' and i + 1 < n and src[i + 1] == '"'):
            j = i + (2 if c == 'b' else 1)
            while j < n and src[j] != '"':
                j += 2 if src[j] == '\\' else 1
            j += 1
            toks.append(Tok('str', src[i:j], i, j))
            i = j
            continue
        if c == "'" or (c == 'b' and i + 1 < n and src[i + 1] == "'"):
            k = i + (1 if c == 'b' else 0)
            # char literal or lifetime
            m = re.match(r"'(\\.[^']*|[^\\'])'", src[k:k + 16])
            if m:
                j = k + m.end()
                toks.append(Tok('char', src[i:j], i, j))
                i = j
                continue
            m = re.match(r"'[A-Za-z_][A-Za-z0-9_]*", src[k:k + 64])
            if m:
                j = k + m.end()
                toks.append(Tok('lifetime', src[i:j], i, j))
                i = j
                continue
            raise LexError('bad quote at %d' % i)
        if IDENT_START.match(c):
            m = IDENT.match(src, i)
            toks.append(Tok('ident', m.group(0), i, m.end()))
            i = m.end()
            continue
        if c.isdigit():
            m = NUM.match(src, i)
            # do not swallow the range operator in `0..n`
            text = m.group(0)
            if '.' in text and src.startswith('..', i + text.index('.')):
                text = text[:text.index('.')]
            toks.append(Tok('num', text, i, i + len(text)))
            i += len(text)
            continue
        for p in PUNCT3:
            if src.startswith(p, i):
                toks.append(Tok('punct', p, i, i + 3))
                i += 3
                break
        else:
            for p in PUNCT2:
                if src.startswith(p, i):
                    toks.append(Tok('punct', p, i, i + 2))
                    i += 2
                    break
            else:
                toks.append(Tok('punct', c, i, i + 1))
                i += 1
    return toks


def code_indices(toks):
    """indices of tokens that are neither whitespace nor comments"""
    return [k for k, t in enumerate(toks) if t.kind not in ('ws', 'comment')]


OPEN = {'(': ')', '[': ']', '{': '}'}
CLOSE = {')': '(', ']': '[', '}': '{'}


def match_close(toks, k):
    """toks[k] is an opening bracket; return index of its matching closer"""
    assert toks[k].kind == 'punct' and toks[k].text in OPEN, toks[k]
    depth = 0
    for j in range(k, len(toks)):
        t = toks[j]
        if t.kind != 'punct':
            continue
        if t.text in OPEN:
            depth += 1
        elif t.text in CLOSE:
            depth -= 1
            if depth == 0:
                return j
    raise LexError('unbalanced bracket at offset %d' % toks[k].start)
