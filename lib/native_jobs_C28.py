"""native jobs of property C28 (beautifier); registered through jobs.native(), imported by jobs._load()"""
from jobs import native

native('C28.render', ['C28'], 'bounded',
       'every leaf instruction of a 23-element list (all operand kinds) and 10 hop-on shaped scripts; each of 16 compound forms over '
       '(leaf x 3 leaves); compounds over compounds/hop-on patterns to depth 2 (thorough: all pairs, and depth 3): 2801 scripts '
       '(thorough: 36689), all accepted by the parser; indent steps {0, 1, 4}; try_hopon on and off; for the first 81 scripts a '
       'sink failing after k bytes, every k',
       'air-beautifier', 'crates/beautifier/src/lib.rs', 'beautifier_render.rs',
       'verif_native_beautifier::output_is_render_of_the_ast',
       what='real parser + real Beautifier + real std::fmt: the bytes written equal an executable reading of render(ast, 0, step, hopon) '
            'of unit beautifier (checks the unit\'s one trusted assumption -- format_args!/write_fmt/`{:w$}` semantics and rule R5\'s cutting '
            'of the literals -- and the itertools join); every simple instruction\'s line, put back between parentheses, parses to an '
            'instruction that prints the same line (operand texts, uninterpreted in the unit, are script text); with a failing sink the '
            'result is Err and what was written is a prefix of the full text')
