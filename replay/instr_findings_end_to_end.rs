// Findings of unit fold_exec (F13, F14, F14b): end-to-end regression tests through air::execute_air with the repository's native runner.
// All are REPAIRED in /repo (F14: 4f12881, F13: dc04e6f, F14b: 181c0bf): the tests FAILED on the tree before those commits (F13 by
// a panic inside the interpreter, F14 and F14b by a wrong canon) and PASS after them. Run with tools/e2e_replay.sh (filter
// `verif_instr`), i.e. appended to air/tests/test_module/negative_tests/uncatchable_trace_related.rs in a scratch copy and
//   CARGO_TARGET_DIR=/var/tmp/aquavm-e2e-target cargo test -p aquavm-air --features air-test-utils/test_with_native_code --offline \
//       --test test_module verif_instr -- --test-threads 1 --nocapture
//
// F13 (C01, crash): `next i` of a STREAM fold placed in the body of an inner fold is executed once per inner iteration. The parser
//   accepts it (one textual `next` per iterator; `(par (next j) (next i))` passes the after-next check). Before the fix the second
//   execution called TraceHandler::meet_back_iterator with the back traversal already started and the cursor at 1:
//   FoldFSM::meet_back_iterator -> SubTraceLoreCtorQueue::traverse_back (pos 1 -> 0) -> current(): `self.queue[self.back_traversal_pos - 1]`
//   => panic "attempt to subtract with overflow" at crates/air-lib/trace-handler/src/state_automata/fold_fsm/lore_ctor_queue.rs:37.
//   After it `current()` returns None and the run ends with the uncatchable trace error NoFoldIterationStarted.
//   Verus: obligation fold_exec:Next::execute/any-script (no call-order precondition) failed the preconditions `can_end_iteration` /
//   `can_go_back` of the trace handler's fold calls before the fix and verifies after it.
#[tokio::test]
async fn verif_instr_f13_next_of_outer_stream_fold_in_inner_fold() {
    let vm_peer_id = "vm_peer_id";
    let mut vm = create_avm(echo_call_service(), vm_peer_id).await;
    let script = format!(
        r#"
        (seq
            (seq
                (ap 1 $s)
                (seq
                    (ap 1 $t)
                    (seq
                        (ap 2 $t)
                        (canon "{vm_peer_id}" $t #t)
                    )
                )
            )
            (fold $s i
                (fold #t j
                    (par
                        (next j)
                        (next i)
                    )
                )
            )
        )
            "#
    );
    // panicked inside the interpreter before the fix; now: an outcome carrying an error code (the uncatchable trace error)
    let result = call_vm!(vm, <_>::default(), script, "", "");
    println!("VERIF ret_code = {} err = {}", result.ret_code, result.error_message);
    assert_ne!(result.ret_code, 0, "a next executed with no iteration to return to is an error, not a success");
    assert!(result.error_message.contains("no started iteration"), "the error is NoFoldIterationStarted: {}", result.error_message);
}

// F14 (C13, wrong result): a recursive fold over a stream that was already folded over missed the values appended during its first
//   round. RecursiveStreamCursor::met_iteration_end always left an empty generation in `new_values` (recursive_stream.rs:76), also
//   when it reported Exhausted; the next fold's met_fold_start takes `stream.cursor()` = RAW generation counts (recursive_stream.rs:57)
//   while `slice_iter` skips among NON-EMPTY generations (values_matrix.rs:62), so the cursor pointed one generation too far.
//   Observable before the fix: the same fold `(fold $s j ..)` that appends 2 to $s when it sees 1 visited [1,2] when it was the first
//   fold over $s and only [1] (in the run that performs the append) when another fold over $s ran before it. After it: [1,2] both times.
//   Verus: obligation fold_exec:RecursiveStreamCursor::met_iteration_end/leaves-dense failed before the fix and verifies after it;
//   lemma cursor_visits_each_value_once needs `new_values` without an empty generation when a fold starts, which a finished fold now
//   re-establishes.
async fn verif_instr_recursive_fold(with_first_fold: bool) -> String {
    let vm_peer_id = "vm_peer_id";
    let mut vm = create_avm(echo_call_service(), vm_peer_id).await;
    let first = if with_first_fold { "(fold $s i (seq (null) (next i)) (null))" } else { "(null)" };
    let script = format!(
        r#"
        (seq
            (ap 1 $s)
            (seq
                {first}
                (seq
                    (fold $s j
                        (seq
                            (seq
                                (ap j $visited)
                                (xor
                                    (match j 1
                                        (ap 2 $s)
                                    )
                                    (null)
                                )
                            )
                            (next j)
                        )
                        (null)
                    )
                    (seq
                        (canon "{vm_peer_id}" $visited #visited)
                        (call "{vm_peer_id}" ("" "") [#visited] out)
                    )
                )
            )
        )
            "#
    );
    let result = call_vm!(vm, <_>::default(), script, "", "");
    println!("VERIF with_first_fold={} ret_code = {} err = {}", with_first_fold, result.ret_code, result.error_message);
    let data = data_from_result(&result);
    let values = format!("{:?}", data.cid_info.value_store);
    println!("VERIF value_store = {values}");
    values
}

#[tokio::test]
async fn verif_instr_f14_second_recursive_fold_visits_appended_value() {
    let alone = verif_instr_recursive_fold(false).await;
    let after = verif_instr_recursive_fold(true).await;
    // the canon of the visited values, as handed to the service: [1,2] in both scripts
    assert!(alone.contains("raw: \"[1,2]\""), "a single recursive fold visits 1 and the appended 2");
    assert!(after.contains("raw: \"[1,2]\""), "the same fold after another fold over $s must visit 2 as well");
    assert!(!after.contains("raw: \"[1]\""), "no canon holding only [1]");
}

// F14b (C13, residual of F14; repaired by 181c0bf: ValuesMatrix::slice_iter skips `cursor` generations BEFORE it drops the empty
//   ones). Before it, a fold that starts INSIDE an iteration of another fold over the same stream while that fold's open generation
//   is still empty took a cursor (raw generation count, which includes that empty generation) that overshot among the non-empty
//   generations, and missed the values appended during its own first round: here the inner fold of the first outer iteration appends
//   2 and visited only [1] (the canon handed to the service was [1]). Now it visits [1,2]. Verus: with the old cursor model lemma
//   fold_exec:cursor_visits_each_value_once needed "`new_values` has no empty generation when the fold starts"; with the new one
//   (`non_empty(view.skip(cursor))`) it holds with no requirement on empty generations.
#[tokio::test]
async fn verif_instr_f14b_nested_fold_over_the_same_stream_visits_appended_value() {
    let vm_peer_id = "vm_peer_id";
    let mut vm = create_avm(echo_call_service(), vm_peer_id).await;
    let script = format!(
        r#"
        (seq
            (ap 1 $s)
            (fold $s i
                (seq
                    (seq
                        (fold $s j
                            (seq
                                (seq
                                    (ap j $visited)
                                    (xor (match j 1 (xor (match i 1 (ap 2 $s)) (null))) (null))
                                )
                                (next j)
                            )
                            (null)
                        )
                        (seq
                            (canon "{vm_peer_id}" $visited #visited)
                            (call "{vm_peer_id}" ("" "") [#visited] $out)
                        )
                    )
                    (next i)
                )
                (null)
            )
        )
            "#
    );
    let result = call_vm!(vm, <_>::default(), script, "", "");
    println!("VERIF ret_code = {} err = {}", result.ret_code, result.error_message);
    let data = data_from_result(&result);
    let values = format!("{:?}", data.cid_info.value_store);
    println!("VERIF value_store = {values}");
    assert_eq!(result.ret_code, 0);
    // after the inner fold of the first outer iteration the visited values are [1,2] (they were [1] before the fix)
    assert!(values.contains("raw: \"[1,2]\""), "the inner fold must visit the value it appended in its first round");
    assert!(!values.contains("raw: \"[1]\""), "no canon holding only [1]");
}
