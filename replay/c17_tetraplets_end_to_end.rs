// appended to air/tests/test_module/negative_tests/uncatchable_trace_related.rs in a scratch copy;
// run: tools/e2e_replay.sh verif_c17      (cargo test ... --test test_module verif_c17 -- --test-threads 1)
// C17 findings of unit tetraplets. a2 (F17) and b (F18) are repaired in /repo: their tests assert the tetraplet the property statement
// asks for (they failed before 9ae9eb1 / 472df6b). a1 (F16) is a recorded known finding: its test demonstrates the defect.
//   a1  `#canon.$.[0].field`: the element's tetraplet, lens = element.lens ++ ".field" (the convention of the canon-map sibling
//       select_by_path_from_canon_map_stream); observed: lens ""
//   a2  `#canon.length`: (current peer, "", "", ".length") like select_by_functor_from_canon_map; observed: (current peer, ".length", "", "")
//   b   `%last_error%.$.message`: the failed call's tetraplet with the lens recorded; observed: lens ""
#[tokio::test]
async fn verif_known_c17_f16_canon_stream_lens_body_is_not_recorded() {
    let vm_peer_id = "vm_peer_id";
    let (call_service, tetraplets) = tetraplet_host_function(set_variable_call_service(json!({"field": [1, 2, 3]})));
    let mut vm = create_avm(call_service, vm_peer_id).await;
    let script = format!(
        r#"
        (seq
            (call "{vm_peer_id}" ("svc" "fn") [] $stream)
            (seq
                (canon "{vm_peer_id}" $stream #canon)
                (call "{vm_peer_id}" ("" "") [#canon.$.[0].field])))
        "#
    );
    let _ = checked_call_vm!(vm, <_>::default(), &script, "", "");
    let actual = tetraplets.borrow().clone();
    println!("VERIF C17 a1 observed = {:?}", actual);
    // F16 is a recorded, unrepaired finding (known_findings.txt): this replay DEMONSTRATES it, so it asserts what the current tree
    // delivers; what the property statement asks for is the lens ".field" (the commented assertion passes with c17-fix-a1)
    let correct = vec![vec![SecurityTetraplet::new(vm_peer_id, "svc", "fn", ".field")]];
    let observed_on_the_pinned_tree = vec![vec![SecurityTetraplet::new(vm_peer_id, "svc", "fn", "")]];
    assert_ne!(actual, correct, "F16 seems repaired: turn this replay into an assertion of the correct tetraplet and mark the finding fixed");
    assert_eq!(actual, observed_on_the_pinned_tree, "C17 F16: the lens applied to the canon stream element is not in the tetraplet");
}

#[tokio::test]
async fn verif_c17_a2_canon_stream_length_functor_slots() {
    let vm_peer_id = "vm_peer_id";
    let (call_service, tetraplets) = tetraplet_host_function(set_variable_call_service(json!(1)));
    let mut vm = create_avm(call_service, vm_peer_id).await;
    let script = format!(
        r#"
        (seq
            (call "{vm_peer_id}" ("svc" "fn") [] $stream)
            (seq
                (canon "{vm_peer_id}" $stream #canon)
                (call "{vm_peer_id}" ("" "") [#canon.length])))
        "#
    );
    let _ = checked_call_vm!(vm, <_>::default(), &script, "", "");
    let actual = tetraplets.borrow().clone();
    println!("VERIF C17 a2 observed = {:?}", actual);
    let expected = vec![vec![SecurityTetraplet::new(vm_peer_id, "", "", ".length")]];
    assert_eq!(actual, expected, "C17 a2: the functor text is in the service_id slot");
}

#[tokio::test]
async fn verif_c17_b_error_lens_is_recorded() {
    let fallible_peer_id = "fallible_peer_id";
    let mut fallible_vm = create_avm(fallible_call_service("fallible_call_service"), fallible_peer_id).await;
    let local_peer_id = "local_peer_id";
    let (call_service, tetraplets) = tetraplet_host_function(echo_call_service());
    let mut local_vm = create_avm(call_service, local_peer_id).await;
    let script = format!(
        r#"
        (xor
            (call "{fallible_peer_id}" ("fallible_call_service" "") [""])
            (call "{local_peer_id}" ("" "") [%last_error%.$.message]))
        "#
    );
    let result = checked_call_vm!(fallible_vm, <_>::default(), &script, "", "");
    let _ = checked_call_vm!(local_vm, <_>::default(), &script, "", result.data);
    let actual = tetraplets.borrow().clone();
    println!("VERIF C17 b observed = {:?}", actual);
    let expected = vec![vec![SecurityTetraplet::new(fallible_peer_id, "fallible_call_service", "", ".$.message")]];
    assert_eq!(actual, expected, "C17 b: the lens applied to %last_error% is not in the tetraplet");
}
