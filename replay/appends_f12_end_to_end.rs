// F12 (unit appends, obligations Streams::add_stream_value/nothing-lost and StreamMaps::add_stream_map_value/nothing-lost):
// end-to-end regression tests through air::execute_air with the repository's native runner. Append to
// air/tests/test_module/negative_tests/uncatchable_trace_related.rs in a scratch copy and run
//   cargo test -p aquavm-air --features air-test-utils/test_with_native_code --offline --test test_module verif_appends -- --test-threads 1
// All three FAIL on the tree before the F12 fix and PASS after it. Before the fix:
//   verif_appends_new_next_global_lost         two `ap`s to the global $s are executed (two Ap states in the trace), the canon of $s
//                                              holds only [1]: the value 2 is lost
//   verif_appends_new_next_global_map_lost     same for a stream map: the canon holds one element
//   verif_appends_new_next_restricted_replaced ret_code 20013 (StreamSizeLimitExceeded): the restricted stream dropped by the
//                                              replacement is never compactified, its Ap state keeps the stub generation
//                                              0xCAFEBABE (3405691582) in the peer's own data, which the next invocation rejects
#[tokio::test]
async fn verif_appends_new_next_global_lost() {
    let set_variable_peer_id = "set_variable_peer_id";
    let vm_peer_id = "vm_peer_id";
    let mut set_variable_vm = create_avm(set_variable_call_service(json!([1, 2])), set_variable_peer_id).await;
    let mut vm = create_avm(echo_call_service(), vm_peer_id).await;
    let script = format!(
        r#"
        (seq
            (call "{set_variable_peer_id}" ("" "") [] iterable)
            (seq
                (fold iterable x
                    (seq
                        (new $s
                            (next x)
                        )
                        (ap x $s)
                    )
                )
                (seq
                    (canon "{vm_peer_id}" $s #canon_s)
                    (call "{vm_peer_id}" ("" "") [#canon_s] out)
                )
            )
        )
            "#
    );
    let result = checked_call_vm!(set_variable_vm, <_>::default(), &script, "", "");
    let result = call_vm!(vm, <_>::default(), script, "", result.data);
    println!("VERIF ret_code = {} err = {}", result.ret_code, result.error_message);
    let actual_trace = trace_from_result(&result);
    for (i, s) in actual_trace.iter().enumerate() {
        println!("VERIF trace[{}] = {:?}", i, s);
    }
    let data = data_from_result(&result);
    let elements = format!("{:?}", data.cid_info.canon_element_store);
    let values = format!("{:?}", data.cid_info.value_store);
    println!("VERIF canon_result_store = {:?}", data.cid_info.canon_result_store);
    println!("VERIF canon_element_store = {elements}");
    println!("VERIF value_store = {values}");
    assert_eq!(result.ret_code, 0);
    // both appends to the global $s (ap 2 $s in the second iteration, ap 1 $s in the first) are in its canon
    assert_eq!(elements.matches("CanonCidAggregate {").count(), 2, "canon of $s must hold two elements");
    assert!(values.contains("raw: \"[2,1]\""), "the canon of $s passed to the service must be [2,1]");
}

#[tokio::test]
async fn verif_appends_new_next_restricted_replaced() {
    let set_variable_peer_id = "set_variable_peer_id";
    let vm_peer_id = "vm_peer_id";
    let mut set_variable_vm = create_avm(set_variable_call_service(json!([1, 2])), set_variable_peer_id).await;
    let mut vm = create_avm(echo_call_service(), vm_peer_id).await;
    let script = format!(
        r#"
        (seq
            (call "{set_variable_peer_id}" ("" "") [] iterable)
            (fold iterable x
                (seq
                    (new $s
                        (seq
                            (ap x $s)
                            (seq
                                (next x)
                                (seq
                                    (canon "{vm_peer_id}" $s #canon_s)
                                    (call "{vm_peer_id}" ("" "") [x #canon_s] out)
                                )
                            )
                        )
                    )
                    (ap x $s)
                )
            )
        )
            "#
    );
    let result = checked_call_vm!(set_variable_vm, <_>::default(), &script, "", "");
    for (i, s) in trace_from_result(&result).iter().enumerate() {
        println!("VERIF2 first-peer trace[{}] = {:?}", i, s);
    }
    let result = call_vm!(vm, <_>::default(), script, "", result.data);
    println!("VERIF2 ret_code = {} err = {}", result.ret_code, result.error_message);
    let trace = format!("{:?}", trace_from_result(&result));
    println!("VERIF2 trace = {trace}");
    // call_vm! re-invokes the interpreter with its own data until no call requests are left: every invocation must accept it
    assert_eq!(result.ret_code, 0, "{}", result.error_message);
    // no Ap state keeps the stub generation 0xCAFEBABE
    assert!(!trace.contains("3405691582"), "stub generation left in the trace");
}

#[tokio::test]
async fn verif_appends_new_next_global_map_lost() {
    let set_variable_peer_id = "set_variable_peer_id";
    let vm_peer_id = "vm_peer_id";
    let mut set_variable_vm = create_avm(set_variable_call_service(json!([1, 2])), set_variable_peer_id).await;
    let mut vm = create_avm(echo_call_service(), vm_peer_id).await;
    let script = format!(
        r#"
        (seq
            (call "{set_variable_peer_id}" ("" "") [] iterable)
            (seq
                (fold iterable x
                    (seq
                        (new %m
                            (next x)
                        )
                        (ap ("k" x) %m)
                    )
                )
                (seq
                    (canon "{vm_peer_id}" %m #%canon_m)
                    (call "{vm_peer_id}" ("" "") [#%canon_m] out)
                )
            )
        )
            "#
    );
    let result = checked_call_vm!(set_variable_vm, <_>::default(), &script, "", "");
    let result = call_vm!(vm, <_>::default(), script, "", result.data);
    println!("VERIF3 ret_code = {} err = {}", result.ret_code, result.error_message);
    let actual_trace = trace_from_result(&result);
    for (i, s) in actual_trace.iter().enumerate() {
        println!("VERIF3 trace[{}] = {:?}", i, s);
    }
    let data = data_from_result(&result);
    let elements = format!("{:?}", data.cid_info.canon_element_store);
    println!("VERIF3 canon_result_store = {:?}", data.cid_info.canon_result_store);
    println!("VERIF3 canon_element_store = {elements}");
    println!("VERIF3 value_store = {:?}", data.cid_info.value_store);
    assert_eq!(result.ret_code, 0);
    // both key/value pairs appended to the global %m are in its canon
    assert_eq!(elements.matches("CanonCidAggregate {").count(), 2, "canon of %m must hold two elements");
    let values = format!("{:?}", data.cid_info.value_store);
    assert!(values.contains(r#"{\"k\":[2,1]}"#), "the canon of %m passed to the service must be {{\"k\":[2,1]}}");
}
