// F4 (known finding, native job C01.raw_value): end-to-end replay through air::execute_air with the repository's native runner.
// A malicious peer sends data whose value store holds an entry that hashes to its CID but is not JSON; the receiving peer
// panics in RawValue::get_value (`expect("TODO handle error")`) when it replays the call. Expected on the current tree: PANIC
// (this test is a demonstration of a recorded, unrepaired finding; it is not part of any check).
#[tokio::test]
async fn verif_known_f4_non_json_stored_value_replay() {
    use air_interpreter_data::RawValue;
    let vm_peer_id = "vm_peer_id";
    let other_peer_id = "other_peer_id";
    let mut vm = create_avm(echo_call_service(), vm_peer_id).await;
    let script = format!(r#"(seq (call "{other_peer_id}" ("srv" "fn") [] x) (call "{vm_peer_id}" ("" "") [x] y))"#);

    let mut cid_state = ExecutionCidState::new();
    // serde(transparent) over the raw text: any string becomes a RawValue, JSON or not
    let not_json: RawValue = serde_json::from_value(json!("definitely not json")).unwrap();
    let value_cid = cid_state.value_tracker.track_raw_value(not_json);
    let tetraplet = SecurityTetraplet::new(other_peer_id, "srv", "fn", "");
    let tetraplet_cid = cid_state.tetraplet_tracker.track_value(tetraplet).unwrap();
    let args_hash = air_interpreter_cid::value_to_json_cid(&json!([])).unwrap().get_inner();
    let aggregate = ServiceResultCidAggregate::new(value_cid, args_hash, tetraplet_cid);
    let service_cid = cid_state.service_result_agg_tracker.track_value(aggregate).unwrap();
    let trace = vec![ExecutedState::Call(CallResult::Executed(ValueRef::Scalar(service_cid)))];
    let hostile_data = raw_data_from_trace(trace, cid_state);

    let outcome = std::panic::AssertUnwindSafe(async { call_vm!(vm, <_>::default(), &script, "", hostile_data) });
    let result = futures::FutureExt::catch_unwind(outcome).await;
    match result {
        Err(_) => println!("VERIF F4 REPRODUCED: execute_air panicked on a stored value that is not JSON"),
        Ok(r) => println!("VERIF F4 not reproduced: ret_code = {} {}", r.ret_code, r.error_message),
    }
}
