// appended to air/tests/test_module/negative_tests/uncatchable_trace_related.rs in a scratch copy (tools/e2e_replay.sh).
//
// F8 (property C03, unit cid_record, obligation `try_to_service_result`): a host answer with ret_code 0 whose text the
// interpreter cannot parse as JSON makes `try_to_service_result` (call/prev_result_handler.rs) track a CallServiceFailed
// aggregate under the CURRENT peer's tetraplet and push `Failed(cid)` into the trace WITHOUT `record_call_cid`. The failure is
// catchable, so the run goes on and returns new data (ret_code 0 under a `xor`). The data's own signature for the producing
// peer does not cover that cid, and every receiver rejects the data in the verification step.
//
// The tests ASSERT THE CORRECT BEHAVIOUR (C03: "another peer accepts the data as current data without a preparation error"):
// they FAIL on the defective tree and PASS once `exec_ctx.record_call_cid(&tetraplet.peer_pk, &service_result_agg_cid);` is
// added before `meet_call_end` in the `Err(e)` arm of `try_to_service_result`.
//
// Signature VERIFICATION is compiled in only with the cargo feature `check_signatures` of aquavm-air (a default of the shipped
// air-interpreter crate; NOT enabled by `--features air-test-utils/test_with_native_code` alone, which is what tools/e2e_replay.sh
// passes). Signing itself always happens (farewell_step::sign_result is not feature-gated). Run:
//   cargo test -p aquavm-air --features air-test-utils/test_with_native_code,gen_signatures,check_signatures \
//       --offline --test test_module verif_f8 -- --test-threads 1 --nocapture
// Without `check_signatures` the receiving peer checks nothing and only the `verif_f8_skipped_...` marker below runs.

#[cfg(not(feature = "check_signatures"))]
#[tokio::test]
async fn verif_f8_skipped_needs_feature_check_signatures() {
    println!("VERIF F8 SKIPPED: built without the cargo feature check_signatures, received data is not verified at all");
}

#[cfg(feature = "check_signatures")]
mod verif_f8 {
    use air_interpreter_interface::CallResultsRepr;
    use air_interpreter_interface::CallServiceResult as RawCallServiceResult;
    use air_interpreter_interface::RunParameters;
    use air_interpreter_sede::ToSerialized;
    use air_test_utils::key_utils::derive_dummy_keypair;
    use air_test_utils::prelude::*;

    const PARTICLE_ID: &str = "verif-f8-particle";

    fn script(a_id: &str, b_id: &str) -> String {
        format!(
            r#"
        (xor
            (call "{a_id}" ("srv" "f") [] x)
            (call "{b_id}" ("" "") [] y)
        )"#
        )
    }

    fn verification_failure(outcome: &RawAVMOutcome) -> bool {
        let m = &outcome.error_message;
        m.contains("signature") || m.contains("Signature") || m.contains("DataVerifier") || m.contains("verif")
    }

    // what C03 demands of data produced by an honest peer A, checked by an honest peer B
    fn assert_accepted(who: &str, outcome: &RawAVMOutcome) {
        println!(
            "VERIF F8 {who}: ret_code = {} error_message = {:?}",
            outcome.ret_code, outcome.error_message
        );
        assert!(
            !verification_failure(outcome),
            "C03 violated: {who} rejects the data an honest peer produced: ret_code = {} {}",
            outcome.ret_code,
            outcome.error_message
        );
        assert_eq!(outcome.ret_code, 0, "{}", outcome.error_message);
    }

    fn failed_states_of(outcome_data: &[u8]) -> usize {
        let env = InterpreterDataEnvelope::try_from_slice(outcome_data).expect("A's data decodes");
        let data = InterpreterData::try_from_slice(&env.inner_data).expect("A's data decodes");
        data.trace
            .iter()
            .filter(|s| matches!(s, ExecutedState::Call(CallResult::Failed(_))))
            .count()
    }

    // The host of peer A answers the call with ret_code 0 and the text `not json`
    // (air_interpreter_interface::CallServiceResult carries the result as a String; nothing on the way checks it).
    #[tokio::test]
    async fn verif_f8_unsigned_failed_cid_not_json_replay() {
        let (a_keypair, a_id) = derive_dummy_keypair("verif_f8_peer_a");
        let (b_keypair, b_id) = derive_dummy_keypair("verif_f8_peer_b");
        let script = script(&a_id, &b_id);

        // --- peer A, first run: the call is addressed to A, a call request goes to A's host
        let mut a_vm =
            create_avm_with_key::<NativeAirRunner>(a_keypair.clone(), unit_call_service(), <_>::default()).await;
        let a1 = a_vm
            .call_single(&script, "", "", a_id.clone(), 0, 0, None, <_>::default(), PARTICLE_ID)
            .await
            .unwrap();
        assert_eq!(a1.ret_code, 0, "{}", a1.error_message);
        assert_eq!(a1.call_requests.len(), 1);
        let call_id = *a1.call_requests.keys().next().unwrap();

        // --- peer A, second run: the host's answer is ret_code 0 + a text that is not JSON
        let mut raw_call_results = air_interpreter_interface::CallResults::new();
        raw_call_results.insert(
            call_id.to_string(),
            RawCallServiceResult {
                ret_code: 0,
                result: "not json".into(),
            },
        );
        let raw_call_results = CallResultsRepr.serialize(&raw_call_results).unwrap();
        let a_fluence_keypair = a_keypair.clone().into_inner();
        let a2 = air::execute_air(
            script.clone(),
            a1.data.clone(),
            vec![],
            RunParameters {
                init_peer_id: a_id.clone(),
                current_peer_id: a_id.clone(),
                timestamp: 0,
                ttl: 0,
                key_format: a_fluence_keypair.key_format().into(),
                secret_key_bytes: a_fluence_keypair.secret().unwrap(),
                particle_id: PARTICLE_ID.to_string(),
                air_size_limit: u64::MAX,
                particle_size_limit: u64::MAX,
                call_result_size_limit: u64::MAX,
                hard_limit_enabled: false,
            },
            raw_call_results,
        );
        let a2 = RawAVMOutcome::from_interpreter_outcome(a2).unwrap();
        println!(
            "VERIF F8 A (not json): ret_code = {} error_message = {:?} next_peer_pks = {:?} failed states = {}",
            a2.ret_code,
            a2.error_message,
            a2.next_peer_pks,
            failed_states_of(&a2.data)
        );
        // the failure is catchable: the xor goes to its right branch, the run succeeds and forwards NEW data to B
        assert_eq!(a2.ret_code, 0, "{}", a2.error_message);
        assert_eq!(a2.next_peer_pks, vec![b_id.clone()]);
        assert_eq!(failed_states_of(&a2.data), 1);

        // --- peer B receives A's data as current data
        let mut b_vm = create_avm_with_key::<NativeAirRunner>(b_keypair, unit_call_service(), <_>::default()).await;
        let b = b_vm
            .call(
                &script,
                "",
                a2.data.clone(),
                TestRunParameters::from_init_peer_id(&a_id).with_particle_id(PARTICLE_ID),
            )
            .await
            .unwrap();
        assert_accepted("B <- A (not json)", &b);

        // --- and A itself must accept its own data as previous data on its next run
        let a3 = a_vm
            .call_single(&script, a2.data, "", a_id.clone(), 0, 0, None, <_>::default(), PARTICLE_ID)
            .await
            .unwrap();
        assert_accepted("A <- A (not json, own previous data)", &a3);
    }

    // The same through the unmodified avm-server conversion (avm_interface::CallServiceResult{result: serde_json::Value}
    // -> `into_raw` -> `result.to_string()`): a perfectly valid JSON value nested deeper than serde_json's parsing recursion
    // limit (128) is serialized fine by the host side and is then "not JSON" for `serde_json::from_str` in the interpreter.
    #[tokio::test]
    async fn verif_f8_unsigned_failed_cid_deep_json_replay() {
        let (a_keypair, a_id) = derive_dummy_keypair("verif_f8_peer_a");
        let (b_keypair, b_id) = derive_dummy_keypair("verif_f8_peer_b");
        let script = script(&a_id, &b_id);

        let deep_call_service: CallServiceClosure<'static> = Box::new(|_| {
            use futures::FutureExt;
            async {
                let mut v = serde_json::json!(1);
                for _ in 0..200 {
                    v = serde_json::Value::Array(vec![v]);
                }
                CallServiceResult::ok(v)
            }
            .boxed_local()
        });
        let mut a_vm = create_avm_with_key::<NativeAirRunner>(a_keypair, deep_call_service, <_>::default()).await;
        let params = TestRunParameters::from_init_peer_id(&a_id).with_particle_id(PARTICLE_ID);
        let a = a_vm.call(&script, "", "", params.clone()).await.unwrap();
        println!(
            "VERIF F8 A (deep json): ret_code = {} error_message = {:?} next_peer_pks = {:?} failed states = {}",
            a.ret_code,
            a.error_message,
            a.next_peer_pks,
            failed_states_of(&a.data)
        );
        assert_eq!(a.ret_code, 0, "{}", a.error_message);
        assert_eq!(failed_states_of(&a.data), 1, "the deep value was expected to be refused by serde_json::from_str");

        let mut b_vm = create_avm_with_key::<NativeAirRunner>(b_keypair, unit_call_service(), <_>::default()).await;
        let b = b_vm.call(&script, "", a.data, params).await.unwrap();
        assert_accepted("B <- A (deep json)", &b);
    }
}
