// Findings of units fold_exec (F13, F14): end-to-end demonstrations through air::execute_air with the repository's native runner.
// NOT FIXED in /repo: both tests FAIL on the current tree (that is the finding). Their names start with `pending_instr_` so that
// tools/e2e_replay.sh's default filter `verif_` does not pick them up. To run: append this file to
// air/tests/test_module/negative_tests/uncatchable_trace_related.rs in a scratch copy and
//   CARGO_TARGET_DIR=/var/tmp/aquavm-e2e-target cargo test -p aquavm-air --features air-test-utils/test_with_native_code --offline \
//       --test test_module pending_instr_ -- --test-threads 1 --nocapture
//
// F13 (C01, crash): `next i` of a STREAM fold placed in the body of an inner fold is executed once per inner iteration. The parser
//   accepts it (one textual `next` per iterator; `(par (next j) (next i))` passes the after-next check). The second execution calls
//   TraceHandler::meet_back_iterator with the back traversal already started and the cursor at 1:
//   FoldFSM::meet_back_iterator -> SubTraceLoreCtorQueue::traverse_back (pos 1 -> 0) -> current(): `self.queue[self.back_traversal_pos - 1]`
//   => panic "attempt to subtract with overflow" at crates/air-lib/trace-handler/src/state_automata/fold_fsm/lore_ctor_queue.rs:37.
//   Verus: obligation fold_exec:Next::execute/any-script fails the precondition `can_end_iteration` / `can_go_back` of the trace handler
//   (the call-order facts unit fold_fsm assumes).
#[tokio::test]
async fn pending_instr_f13_next_of_outer_stream_fold_in_inner_fold() {
    let vm_peer_id = "vm_peer_id";
    let mut vm = create_avm(echo_call_service(), vm_peer_id).await;
    let script = format!(
        r#"
        (seq
            (seq
                (ap 1 $s)
                (seq
                    (ap 1 $t)
                    (seq
                        (ap 2 $t)
                        (canon "{vm_peer_id}" $t #t)
                    )
                )
            )
            (fold $s i
                (fold #t j
                    (par
                        (next j)
                        (next i)
                    )
                )
            )
        )
            "#
    );
    // panics inside the interpreter on the unfixed tree; any outcome (an error code) is fine
    let result = call_vm!(vm, <_>::default(), script, "", "");
    println!("VERIF ret_code = {} err = {}", result.ret_code, result.error_message);
}

// F14 (C13, wrong result): a recursive fold over a stream that was already folded over misses the values appended during its first
//   round. RecursiveStreamCursor::met_iteration_end always leaves an empty generation in `new_values` (recursive_stream.rs:76), also
//   when it reports Exhausted; the next fold's met_fold_start takes `stream.cursor()` = RAW generation counts (recursive_stream.rs:57)
//   while `slice_iter` skips among NON-EMPTY generations (values_matrix.rs:62), so the cursor points one generation too far.
//   Observable: the same fold `(fold $s j ..)` that appends 2 to $s when it sees 1 visits [1,2] when it is the first fold over $s and
//   only [1] (in the run that performs the append) when another fold over $s ran before it; the canon of the visited values differs.
//   Verus: obligation fold_exec:RecursiveStreamCursor::met_iteration_end/leaves-dense fails; lemma cursor_visits_each_value_once
//   needs the precondition `dense(stream)` which the previous fold does not re-establish.
async fn pending_instr_recursive_fold(with_first_fold: bool) -> String {
    let vm_peer_id = "vm_peer_id";
    let mut vm = create_avm(echo_call_service(), vm_peer_id).await;
    let first = if with_first_fold { "(fold $s i (seq (null) (next i)) (null))" } else { "(null)" };
    let script = format!(
        r#"
        (seq
            (ap 1 $s)
            (seq
                {first}
                (seq
                    (fold $s j
                        (seq
                            (seq
                                (ap j $visited)
                                (xor
                                    (match j 1
                                        (ap 2 $s)
                                    )
                                    (null)
                                )
                            )
                            (next j)
                        )
                        (null)
                    )
                    (seq
                        (canon "{vm_peer_id}" $visited #visited)
                        (call "{vm_peer_id}" ("" "") [#visited] out)
                    )
                )
            )
        )
            "#
    );
    let result = call_vm!(vm, <_>::default(), script, "", "");
    println!("VERIF with_first_fold={} ret_code = {} err = {}", with_first_fold, result.ret_code, result.error_message);
    let data = data_from_result(&result);
    let values = format!("{:?}", data.cid_info.value_store);
    println!("VERIF value_store = {values}");
    values
}

#[tokio::test]
async fn pending_instr_f14_second_recursive_fold_misses_appended_value() {
    let alone = pending_instr_recursive_fold(false).await;
    let after = pending_instr_recursive_fold(true).await;
    assert!(alone.contains("raw: \"[1,2]\""), "a single recursive fold visits 1 and the appended 2");
    assert!(after.contains("raw: \"[1,2]\""), "the same fold after another fold over $s must visit 2 as well");
}
