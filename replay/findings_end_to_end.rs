// appended to air/tests/test_module/negative_tests/uncatchable_trace_related.rs in a scratch copy;
// run: cargo test -p aquavm-air --features air-test-utils/test_with_native_code --offline --test test_module verif_f -- --test-threads 1
// every test below makes air::execute_air panic on the pinned tree (F1, F2, F3, F6, F7, F9a, F9b);
// verif_f3b must be run under `ulimit -v 8000000`: it aborts with "memory allocation of 103079215080 bytes failed"
#[tokio::test]
async fn verif_f1_slider_overflow_replay() {
    let vm_peer_id_1 = "vm_peer_id_1";
    let arg = json!([42, 43]);
    let mut peer_vm_1 = create_avm(set_variable_call_service(arg), vm_peer_id_1).await;
    let script = format!(
        r#"
        (par
            (call "vm_peer_id_1" ("" "") [] $s)
            (fold $s i
                (call "vm_peer_id_2" ("" "") [] a)
                (next i)
            )
        )
    "#
    );
    let mut cid_state = ExecutionCidState::new();
    let trace = vec![
        executed_state::par(1, 2),
        stream_tracked!(json!([42, 43]), 0, cid_state, peer = vm_peer_id_1),
        executed_state::fold(vec![executed_state::subtrace_lore(
            1,
            subtrace_desc(4294967295u32, 1),
            subtrace_desc(4, 0),
        )]),
        request_sent_by("vm_peer_id_1"),
    ];
    let wrong_data = raw_data_from_trace(trace, cid_state);
    let result = call_vm!(peer_vm_1, <_>::default(), script, wrong_data, "");
    println!("ret_code = {}", result.ret_code);
}


#[tokio::test]
async fn verif_f3_generation_overflow_replay() {
    let vm_peer_id_1 = "vm_peer_id_1";
    let arg = json!([42, 43]);
    let mut peer_vm_1 = create_avm(set_variable_call_service(arg), vm_peer_id_1).await;
    let script = r#"(call "vm_peer_id_1" ("" "") [] $s)"#.to_string();
    let mut cid_state = ExecutionCidState::new();
    let trace = vec![
        stream_tracked!(json!([42, 43]), 4294967295u32, cid_state, peer = vm_peer_id_1),
    ];
    let wrong_data = raw_data_from_trace(trace, cid_state);
    let result = call_vm!(peer_vm_1, <_>::default(), script, wrong_data, "");
    println!("ret_code = {}", result.ret_code);
}


#[tokio::test]
async fn verif_f2_slider_underflow_replay() {
    let vm_peer_id_1 = "vm_peer_id_1";
    let arg = json!([42, 43]);
    let mut peer_vm_1 = create_avm(set_variable_call_service(arg), vm_peer_id_1).await;
    let script = format!(
        r#"
        (par
            (call "vm_peer_id_1" ("" "") [] $s)
            (fold $s i
                (par
                    (call "vm_peer_id_2" ("" "") [] a)
                    (next i)
                )
            )
        )
    "#
    );
    let mut cid_state = ExecutionCidState::new();
    let trace = vec![
        executed_state::par(1, 1),
        stream_tracked!(json!([42, 43]), 0, cid_state, peer = vm_peer_id_1),
        executed_state::fold(vec![executed_state::subtrace_lore(
            1,
            subtrace_desc(4294967295u32, 0),
            subtrace_desc(4294967295u32, 0),
        )]),
    ];
    let wrong_data = raw_data_from_trace(trace, cid_state);
    let result = call_vm!(peer_vm_1, <_>::default(), script, wrong_data, "");
    println!("ret_code = {} {}", result.ret_code, result.error_message);
}


#[tokio::test]
async fn verif_f6_unresolved_args_executed_state_replay() {
    let vm_peer_id_1 = "vm_peer_id_1";
    let mut peer_vm_1 = create_avm(unit_call_service(), vm_peer_id_1).await;
    // x is defined in the text but not at run time (the call that sets it is remote and pending):
    // argument resolution of the second call is joinable, but the data claims it was executed
    let script = r#"
        (seq
            (par
                (call "other_peer" ("" "") [] x)
                (null)
            )
            (call "vm_peer_id_1" ("" "") [x] y)
        )"#.to_string();
    let mut cid_state = ExecutionCidState::new();
    let trace = vec![
        executed_state::par(1, 0),
        request_sent_by("vm_peer_id_1"),
        scalar_tracked!(json!("v"), cid_state, peer = vm_peer_id_1),
    ];
    let wrong_data = raw_data_from_trace(trace, cid_state);
    let result = call_vm!(peer_vm_1, <_>::default(), script, wrong_data, "");
    println!("ret_code = {} {}", result.ret_code, result.error_message);
}

#[tokio::test]
async fn verif_f7_scalar_and_iterator_same_name_replay() {
    let vm_peer_id_1 = "vm_peer_id_1";
    let mut peer_vm_1 = create_avm(set_variable_call_service(json!([1, 2])), vm_peer_id_1).await;
    let script = r#"
        (seq
            (call "vm_peer_id_1" ("" "") [] i)
            (fold i i
                (seq
                    (call "vm_peer_id_1" ("" "") [i] z)
                    (next i)
                )
            )
        )"#.to_string();
    let result = call_vm!(peer_vm_1, <_>::default(), script, "", "");
    println!("ret_code = {} {}", result.ret_code, result.error_message);
}


#[tokio::test]
async fn verif_f9_empty_ap_generations_replay() {
    use air::interpreter_data::ApResult;
    use air::interpreter_data::ExecutedState;
    let vm_peer_id_1 = "vm_peer_id_1";
    let mut peer_vm_1 = create_avm(set_variable_call_service(json!(1)), vm_peer_id_1).await;
    let script = r#"
        (seq
            (call "vm_peer_id_1" ("" "") [] $s)
            (fold $s i
                (seq
                    (ap i $s2)
                    (next i)
                )
            )
        )"#.to_string();
    let mut cid_state = ExecutionCidState::new();
    let trace = vec![
        stream_tracked!(json!(1), 0, cid_state, peer = vm_peer_id_1),
        executed_state::fold(vec![executed_state::subtrace_lore(
            2,
            subtrace_desc(2, 1),
            subtrace_desc(3, 0),
        )]),
        ExecutedState::Ap(ApResult { res_generations: vec![] }),
    ];
    let wrong_data = raw_data_from_trace(trace, cid_state);
    let result = call_vm!(peer_vm_1, <_>::default(), script, wrong_data, "");
    println!("ret_code = {} {}", result.ret_code, result.error_message);
}


#[tokio::test]
async fn verif_f9b_display_fold_without_descriptors_replay() {
    use air::interpreter_data::ExecutedState;
    use air::interpreter_data::FoldResult;
    use air::interpreter_data::FoldSubTraceLore;
    let vm_peer_id_1 = "vm_peer_id_1";
    let mut peer_vm_1 = create_avm(set_variable_call_service(json!(1)), vm_peer_id_1).await;
    let script = r#"
        (seq
            (call "vm_peer_id_1" ("" "") [] $s)
            (fold $s i
                (seq
                    (ap i $s2)
                    (next i)
                )
            )
        )"#.to_string();
    let mut cid_state = ExecutionCidState::new();
    let trace = vec![
        stream_tracked!(json!(1), 0, cid_state, peer = vm_peer_id_1),
        executed_state::fold(vec![executed_state::subtrace_lore(
            2,
            subtrace_desc(2, 1),
            subtrace_desc(3, 0),
        )]),
        ExecutedState::Fold(FoldResult { lore: vec![FoldSubTraceLore { value_pos: 0.into(), subtraces_desc: vec![] }] }),
    ];
    let wrong_data = raw_data_from_trace(trace, cid_state);
    let result = call_vm!(peer_vm_1, <_>::default(), script, wrong_data, "");
    println!("ret_code = {} {}", result.ret_code, result.error_message);
}


#[tokio::test]
async fn verif_f3b_generation_resize_oom_replay() {
    let vm_peer_id_1 = "vm_peer_id_1";
    let arg = json!([42, 43]);
    let mut peer_vm_1 = create_avm(set_variable_call_service(arg), vm_peer_id_1).await;
    let script = r#"(call "vm_peer_id_1" ("" "") [] $s)"#.to_string();
    let mut cid_state = ExecutionCidState::new();
    let trace = vec![
        stream_tracked!(json!([42, 43]), 4294967294u32, cid_state, peer = vm_peer_id_1),
    ];
    let wrong_data = raw_data_from_trace(trace, cid_state);
    let result = call_vm!(peer_vm_1, <_>::default(), script, wrong_data, "");
    println!("ret_code = {}", result.ret_code);
}

// F19: a non-ASCII letter in a lens made the lambda lexer slice inside a char (lambda_ast_lexer.rs:126): the whole interpreter
// panicked on a script alone. After the fix the script is executed (the letter is a legal field name) or rejected, never a panic.
#[tokio::test]
async fn verif_f19_non_ascii_letter_in_lens_replay() {
    let vm_peer_id_1 = "vm_peer_id_1";
    let mut peer_vm_1 = create_avm(set_variable_call_service(json!({"é": 1})), vm_peer_id_1).await;
    let script = r#"
        (seq
            (call "vm_peer_id_1" ("" "") [] x)
            (call "vm_peer_id_1" ("" "") [x.$.é] y)
        )"#.to_string();
    let result = call_vm!(peer_vm_1, <_>::default(), script, "", "");
    println!("ret_code = {} {}", result.ret_code, result.error_message);
}
