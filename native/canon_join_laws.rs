// appended to crates/air-lib/trace-handler/src/merger/canon_merger.rs
// native job C11.canon_join_laws (bounded; refuter paired with the Verus obligation canon_merger:merge_canon_results and its lemmas):
// the real merge_canon_results over every pair and triple of canon states from {RequestSentBy over 2 peers, Executed over 3 content
// ids}. Laws taken from the property statements: C11 an executed canon is never replaced (not by a request, not by another id: two
// different ids are an error in both orders); C07 merge(x, x) = x; C08 commutative / associative up to the sender of a request.
#[cfg(test)]
mod verif_native_canon_join_laws {
    use super::*;
    use air_interpreter_cid::CID;

    fn universe() -> Vec<CanonResult> {
        let mut u = vec![];
        for p in ["peer_a", "peer_b"] {
            u.push(CanonResult::RequestSentBy(std::rc::Rc::new(p.to_string())));
        }
        for c in ["cid_1", "cid_2", "cid_3"] {
            u.push(CanonResult::Executed(CID::new(c)));
        }
        u
    }

    // what a state knows: None = still pending, Some(id) = the canonical value
    fn knowledge(c: &CanonResult) -> Option<String> {
        match c {
            CanonResult::RequestSentBy(_) => None,
            CanonResult::Executed(cid) => Some(cid.get_inner().to_string()),
        }
    }

    fn merge(a: &CanonResult, b: &CanonResult) -> Option<CanonResult> {
        merge_canon_results(a.clone(), b.clone()).ok()
    }

    fn fail(law: &str, detail: String) -> ! {
        println!("VERIF-JOB C11.canon_join_laws FAIL {law}: {detail}");
        panic!("{law}");
    }

    #[test]
    fn merge_canon_results_is_a_join() {
        let u = universe();
        let mut cases = 0u64;
        for x in &u {
            if merge(x, x).as_ref() != Some(x) {
                fail("idempotence (C07)", format!("merge({x:?}, {x:?}) = {:?}", merge(x, x)));
            }
            cases += 1;
        }
        for a in &u {
            for b in &u {
                let (ab, ba) = (merge(a, b), merge(b, a));
                if ab.as_ref().map(knowledge) != ba.as_ref().map(knowledge) {
                    fail("commutativity (C08)", format!("merge({a:?}, {b:?}) = {ab:?} but merge({b:?}, {a:?}) = {ba:?}"));
                }
                match (knowledge(a), knowledge(b)) {
                    (Some(x), Some(y)) if x != y => {
                        if ab.is_some() {
                            fail("a canon value is fixed (C11)", format!("merge({a:?}, {b:?}) = {ab:?}: two different canonical values must be rejected"));
                        }
                    }
                    (ka, kb) => {
                        let expected = ka.or(kb);
                        if ab.as_ref().map(knowledge) != Some(expected.clone()) {
                            fail("a canon value is fixed (C11) / growth (C09)", format!("merge({a:?}, {b:?}) = {ab:?}, expected knowledge {expected:?}"));
                        }
                    }
                }
                cases += 1;
                for c in &u {
                    let left = ab.as_ref().and_then(|m| merge(m, c));
                    let right = merge(b, c).as_ref().and_then(|m| merge(a, m));
                    if left.as_ref().map(knowledge) != right.as_ref().map(knowledge) {
                        fail("associativity (C08)", format!("a={a:?} b={b:?} c={c:?}: (a.b).c = {left:?}, a.(b.c) = {right:?}"));
                    }
                    cases += 1;
                }
            }
        }
        println!("VERIF-JOB C11.canon_join_laws CASES {cases}");
    }
}
