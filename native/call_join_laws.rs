// appended to crates/air-lib/trace-handler/src/merger/call_merger.rs
// native job C08.call_join_laws (bounded; refuter paired with the Verus obligation call_merger:merge_call_results and the join lemmas):
// the real merge_call_results over every pair (and, for associativity, triple) of call states from a universe of 14 states --
// RequestSentBy over 2 senders, Executed(Scalar) / Executed(Unused) / Failed over 2 content ids, Executed(Stream) over 2 ids x 2
// generations. The laws are the ones the property statements give, not the code's table:
//   C07 idempotence      merge(x, x) = x
//   C08 commutativity    merge(a, b) fails iff merge(b, a) fails; both give the same knowledge (kind of result + content id)
//   C08 associativity    merge(merge(a, b), c) and merge(a, merge(b, c)) fail together and give the same knowledge
//   C09 growth           a result (executed or failed) held by either side is in the merge with the same content id
//   C05 no resurrection  a pending request never replaces a result
#[cfg(test)]
mod verif_native_call_join_laws {
    use super::*;
    use air_interpreter_cid::CID;
    use air_interpreter_data::{Sender, ValueRef};

    #[derive(Debug, Clone, PartialEq, Eq)]
    enum Knowledge {
        Pending,
        Scalar(String),
        Stream(String),
        Unused(String),
        Failed(String),
    }

    fn knowledge(c: &CallResult) -> Knowledge {
        match c {
            CallResult::RequestSentBy(_) => Knowledge::Pending,
            CallResult::Executed(ValueRef::Scalar(cid)) => Knowledge::Scalar(cid.get_inner().to_string()),
            CallResult::Executed(ValueRef::Stream { cid, .. }) => Knowledge::Stream(cid.get_inner().to_string()),
            CallResult::Executed(ValueRef::Unused(cid)) => Knowledge::Unused(cid.get_inner().to_string()),
            CallResult::Failed(cid) => Knowledge::Failed(cid.get_inner().to_string()),
        }
    }

    fn universe() -> Vec<CallResult> {
        let mut u = vec![];
        for p in ["peer_a", "peer_b"] {
            u.push(CallResult::RequestSentBy(Sender::PeerId(std::rc::Rc::new(p.to_string()))));
        }
        for c in ["cid_1", "cid_2"] {
            u.push(CallResult::Executed(ValueRef::Scalar(CID::new(c))));
            u.push(CallResult::Executed(ValueRef::Unused(CID::new(c))));
            u.push(CallResult::Failed(CID::new(c)));
            for g in [0usize, 1] {
                u.push(CallResult::Executed(ValueRef::Stream { cid: CID::new(c), generation: g.into() }));
            }
        }
        u
    }

    fn merge(a: &CallResult, b: &CallResult) -> Option<CallResult> {
        merge_call_results(a.clone(), b.clone()).ok().map(|(m, _)| m)
    }

    fn fail(law: &str, detail: String) -> ! {
        println!("VERIF-JOB C08.call_join_laws FAIL {law}: {detail}");
        panic!("{law}");
    }

    #[test]
    fn merge_call_results_is_a_join() {
        let u = universe();
        let mut cases = 0u64;
        for x in &u {
            if merge(x, x).as_ref() != Some(x) {
                fail("idempotence (C07)", format!("merge({x:?}, {x:?}) = {:?}", merge(x, x)));
            }
            cases += 1;
        }
        for a in &u {
            for b in &u {
                let (ab, ba) = (merge(a, b), merge(b, a));
                if ab.as_ref().map(knowledge) != ba.as_ref().map(knowledge) {
                    fail("commutativity (C08)", format!("merge({a:?}, {b:?}) = {ab:?} but merge({b:?}, {a:?}) = {ba:?}"));
                }
                if let Some(m) = &ab {
                    for side in [a, b] {
                        if knowledge(side) != Knowledge::Pending && knowledge(m) != knowledge(side) {
                            fail("growth (C09) / no resurrection (C05)", format!("merge({a:?}, {b:?}) = {m:?} loses {side:?}"));
                        }
                    }
                }
                cases += 1;
                for c in &u {
                    let left = ab.as_ref().and_then(|m| merge(m, c));
                    let right = merge(b, c).as_ref().and_then(|m| merge(a, m));
                    if left.as_ref().map(knowledge) != right.as_ref().map(knowledge) {
                        fail("associativity (C08)", format!("a={a:?} b={b:?} c={c:?}: (a.b).c = {left:?}, a.(b.c) = {right:?}"));
                    }
                    cases += 1;
                }
            }
        }
        println!("VERIF-JOB C08.call_join_laws CASES {cases}");
    }
}
