// appended to crates/air-lib/lambda/parser/src/lib.rs
// native job C24.lens_text (bounded): the text of a lens denotes the path it spells. For every path of <= 3 accessors over
// {literal index from a boundary set, field name, scalar name, flattening sign} the parsed LambdaAST has exactly those accessors in
// that order with exactly those numbers and names; a literal index above u32::MAX (no JSON array position the interpreter can hold)
// is a parse error, never another index; `.length` parses to the functor only when it is the whole lens.
#[cfg(test)]
mod verif_native_lens_text {
    use crate::{parse, Functor, LambdaAST, ValueAccessor};

    #[derive(Clone, Debug)]
    enum Acc { Idx(u128), Field(&'static str), Scalar(&'static str) }

    fn text(path: &[Acc], flatten_at: Option<usize>) -> String {
        let mut s = String::from(".$");
        for (k, a) in path.iter().enumerate() {
            match a {
                Acc::Idx(n) => s.push_str(&format!(".[{n}]")),
                Acc::Field(f) => s.push_str(&format!(".{f}")),
                Acc::Scalar(x) => s.push_str(&format!(".[{x}]")),
            }
            if flatten_at == Some(k) { s.push('!'); }
        }
        s
    }

    #[test]
    fn lens_text_denotes_its_path() {
        let idx: [u128; 11] = [0, 1, 9, 10, 4294967294, 4294967295, 4294967296, 4294967297, 8589934593, u64::MAX as u128, u64::MAX as u128 + 2];
        let mut alphabet: Vec<Acc> = idx.iter().map(|n| Acc::Idx(*n)).collect();
        alphabet.extend([Acc::Field("a"), Acc::Field("field_1"), Acc::Field("length"), Acc::Field("x-y"), Acc::Scalar("x"), Acc::Scalar("idx_1")]);
        let thorough = std::env::var("VERIF_TIER").map(|v| v == "thorough").unwrap_or(false);
        let max_len = if thorough { 3usize } else { 2 };
        let mut cases = 0u64;
        let fail = |what: String| -> ! { println!("VERIF-JOB C24.lens_text FAIL {what}"); panic!("{what}") };
        for len in 1..=max_len {
            for mut code in 0..alphabet.len().pow(len as u32) {
                let mut path = vec![];
                for _ in 0..len { path.push(alphabet[code % alphabet.len()].clone()); code /= alphabet.len(); }
                for flatten_at in [None, Some(len - 1)] {
                    let t = text(&path, flatten_at);
                    let too_big = path.iter().any(|a| matches!(a, Acc::Idx(n) if *n > u32::MAX as u128));
                    match parse(&t) {
                        Ok(LambdaAST::ValuePath(accessors)) => {
                            if too_big { fail(format!("{t}: an index above u32::MAX is accepted as {accessors:?}")); }
                            let got: Vec<&ValueAccessor<'_>> = accessors.iter().collect();
                            if got.len() != path.len() { fail(format!("{t}: {} accessors parsed, {} written", got.len(), path.len())); }
                            for (g, w) in got.iter().zip(path.iter()) {
                                let same = match (g, w) {
                                    (ValueAccessor::ArrayAccess { idx }, Acc::Idx(n)) => *idx as u128 == *n,
                                    (ValueAccessor::FieldAccessByName { field_name }, Acc::Field(f)) => field_name == f,
                                    (ValueAccessor::FieldAccessByScalar { scalar_name }, Acc::Scalar(x)) => scalar_name == x,
                                    _ => false,
                                };
                                if !same { fail(format!("{t}: parsed accessor {g:?} where {w:?} is written")); }
                            }
                        }
                        Ok(other) => fail(format!("{t}: parsed as {other:?}")),
                        Err(e) => { if !too_big { fail(format!("{t}: rejected: {e:?}")); } }
                    }
                    cases += 1;
                }
            }
        }
        match parse(".length") { Ok(LambdaAST::Functor(Functor::Length)) => {}, other => fail(format!(".length: {other:?}")) }
        cases += 1;
        println!("VERIF-JOB C24.lens_text CASES {cases}");
    }
}
