// appended to air/src/execution_step/instructions/call/verifier.rs
// native job C14.verify_params (bounded; refuter paired with the Verus obligation call_verifier:verify_call): the real verify_call over
// every pair of tetraplets whose four components range over 3 texts each (81 x 81 pairs) x 2 x 2 argument hashes:
// Ok exactly when the argument hashes are equal and ALL FOUR components (peer, service, function, lens) are equal; every rejection is
// InstructionParametersMismatch naming the parameter that differs first (argument hash before tetraplet).
#[cfg(test)]
mod verif_native_verify_params {
    use super::*;

    #[test]
    fn verify_call_accepts_exactly_equal_parameters() {
        let texts = ["", "a", "b"];
        let mut tets = vec![];
        for p in texts {
            for s in texts {
                for f in texts {
                    for l in texts {
                        tets.push(SecurityTetraplet::new(p, s, f, l));
                    }
                }
            }
        }
        let hashes = ["h1", "h2"];
        let mut cases = 0u64;
        for e in &tets {
            for st in &tets {
                for eh in hashes {
                    for sh in hashes {
                        let same_tet = e.peer_pk == st.peer_pk && e.service_id == st.service_id && e.function_name == st.function_name && e.lens == st.lens;
                        let r = verify_call(eh, e, sh, st);
                        let ok = match &r {
                            Ok(()) => eh == sh && same_tet,
                            Err(UncatchableError::InstructionParametersMismatch { param, .. }) => {
                                if eh != sh { *param == "call argument_hash" } else { !same_tet && *param == "call tetraplet" }
                            }
                            Err(_) => false,
                        };
                        if !ok {
                            println!("VERIF-JOB C14.verify_params FAIL verify_call(expected hash {eh:?}, expected {e:?}, stored hash {sh:?}, stored {st:?}) = {:?}", r.map_err(|e| e.to_string()));
                            panic!("verify_call");
                        }
                        cases += 1;
                    }
                }
            }
        }
        println!("VERIF-JOB C14.verify_params CASES {cases}");
    }
}
