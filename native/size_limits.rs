// appended to air/src/preparation_step/preparation.rs
// native job C22.limits (bounded grid): the real check_against_size_limits and the per-call-result check of make_exec_ctx
// for sizes {limit - 1, limit, limit + 1} in hard and soft mode
#[cfg(test)]
mod verif_native_size_limits {
    use super::*;
    use crate::preparation_step::check_against_size_limits;
    use crate::preparation_step::errors::SizeLimitsExceded;
    use air_interpreter_interface::CallResults;
    use air_interpreter_interface::CallServiceResult;
    use air_interpreter_sede::ToSerialized;

    fn params(limit: u64, hard: bool) -> RunParameters {
        RunParameters::new("init".into(), "me".into(), 0, 0, 0, vec![], "particle".into(), limit, limit, limit, hard)
    }
    fn fail(what: String) -> ! { println!("VERIF-JOB C22.limits FAIL {what}"); panic!("{what}") }

    #[test]
    fn limits_are_exact() {
        let mut cases = 0u64;
        let limit = 8u64;
        let sizes = [limit - 1, limit, limit + 1];
        for hard in [false, true] {
            let p = params(limit, hard);
            // script and current data
            for air_len in sizes { for data_len in sizes {
                let air = "x".repeat(air_len as usize);
                let data = vec![0u8; data_len as usize];
                let (ao, po) = (air_len > limit, data_len > limit);
                match check_against_size_limits(&p, &air, &data) {
                    Ok(f) => if (hard && (ao || po)) || f.air_size_limit_exceeded != ao || f.particle_size_limit_exceeded != po || f.call_result_size_limit_exceeded {
                        fail(format!("hard={hard} air={air_len} data={data_len}: Ok({f:?})"));
                    },
                    Err(PreparationError::SizeLimitsExceded(e)) => {
                        let kind_ok = if ao { matches!(e, SizeLimitsExceded::Air(..)) } else { matches!(e, SizeLimitsExceded::Particle(..)) };
                        if !(hard && (ao || po)) || !kind_ok { fail(format!("hard={hard} air={air_len} data={data_len}: Err({e})")); }
                    }
                    Err(e) => fail(format!("unexpected error {e}")),
                }
                cases += 1;
            }}
            // call results: one or two results of the given sizes
            for a in sizes { for b in [0u64, limit - 1, limit, limit + 1] {
                let mut results = CallResults::new();
                results.insert("1".into(), CallServiceResult { ret_code: 0, result: "r".repeat(a as usize) });
                if b > 0 { results.insert("2".into(), CallServiceResult { ret_code: 0, result: "r".repeat(b as usize) }); }
                let over = a > limit || b > limit;
                let raw = CallResultsRepr.serialize(&results).unwrap();
                let ing = || ExecCtxIngredients { last_call_request_id: 3, cid_info: <_>::default() };
                let mut flags = SoftLimitsTriggering::default();
                let r = make_exec_ctx(ing(), ing(), &raw, <_>::default(), &p, &mut flags);
                match r {
                    Ok(ctx) => if (hard && over) || flags.call_result_size_limit_exceeded != over || flags.air_size_limit_exceeded || flags.particle_size_limit_exceeded
                        || ctx.last_call_request_id != 3 || ctx.call_results.len() != results.len() {
                        fail(format!("hard={hard} results=({a},{b}): Ok, flags {flags:?}"));
                    },
                    Err(PreparationError::SizeLimitsExceded(SizeLimitsExceded::CallResult(_))) => if !(hard && over) {
                        fail(format!("hard={hard} results=({a},{b}): rejected although no result exceeds the limit"));
                    },
                    Err(e) => fail(format!("unexpected error {e}")),
                }
                cases += 1;
            }}
        }
        println!("VERIF-JOB C22.limits CASES {cases}");
    }
}
