// appended to air/src/execution_step/value_types/stream/recursive_stream.rs
// native job C13.cursor (bounded): RecursiveStreamCursor visits every stream value exactly once, including the
// values appended while the fold runs. Scenarios: an initial stream of <= 3 values placed in
// {previous(0), previous(1), current(0), current(1)}, then <= 3 fold iterations each appending 0..=2 new values.
#[cfg(test)]
mod verif_native_cursor {
    use super::IterableValue;
    use super::RecursiveCursorState;
    use super::RecursiveStreamCursor;
    use super::Stream;
    use super::ValueAggregate;
    use crate::execution_step::Generation;
    use crate::execution_step::ServiceResultAggregate;
    use crate::JValue;

    use air_interpreter_cid::CID;
    use air_interpreter_data::TracePos;

    fn value_at(pos: u32) -> ValueAggregate {
        ValueAggregate::from_service_result(
            ServiceResultAggregate::new(JValue::from(pos as i64), <_>::default(), TracePos::from(pos)),
            CID::new("some fake cid").into(),
        )
    }

    fn drain(iterables: Vec<IterableValue>, seen: &mut Vec<u32>) {
        for mut it in iterables {
            loop {
                let pos = it.peek().map(|item| u32::from(item.pos()));
                match pos {
                    Some(p) => seen.push(p),
                    None => break,
                }
                if !it.next() { break; }
            }
        }
    }

    fn scenario(initial: &[usize], appends: &[usize]) -> Result<(), String> {
        let mut stream: Stream<ValueAggregate> = Stream::new();
        let mut cursor = RecursiveStreamCursor::new();
        let mut next_id = 0u32;
        for slot in initial {
            let generation = match slot { 0 => Generation::previous(0), 1 => Generation::previous(1), 2 => Generation::current(0), _ => Generation::current(1) };
            stream.add_value(value_at(next_id), generation).map_err(|e| e.to_string())?;
            next_id += 1;
        }
        let mut seen: Vec<u32> = vec![];
        let mut state = cursor.met_fold_start(&mut stream);
        let mut round = 0usize;
        loop {
            match state {
                RecursiveCursorState::Exhausted => break,
                RecursiveCursorState::Continue(iterables) => {
                    if iterables.is_empty() { return Err("Continue with no iterables".into()); }
                    drain(iterables, &mut seen);
                }
            }
            // the fold body runs: it may append new values to the stream
            let n = if round < appends.len() { appends[round] } else { 0 };
            for _ in 0..n {
                stream.add_value(value_at(next_id), Generation::new()).map_err(|e| e.to_string())?;
                next_id += 1;
            }
            round += 1;
            if round > 10 { return Err("cursor does not terminate".into()); }
            state = cursor.met_iteration_end(&mut stream);
        }
        let mut sorted = seen.clone();
        sorted.sort_unstable();
        let expected: Vec<u32> = (0..next_id).collect();
        // appended in rounds after the cursor was exhausted are legitimately unseen: only rounds that ran count
        if sorted != expected {
            return Err(format!("visited {seen:?}, expected each of {expected:?} exactly once"));
        }
        Ok(())
    }

    // one complete inner fold over the same stream, run from inside the body of an outer fold; `appends_in_first_round` values are
    // appended by the inner body in its first round. Returns what the inner fold visited.
    fn inner_fold(stream: &mut Stream<ValueAggregate>, next_id: &mut u32, appends_in_first_round: usize) -> Result<Vec<u32>, String> {
        let mut cursor = RecursiveStreamCursor::new();
        let mut seen = vec![];
        let mut state = cursor.met_fold_start(stream);
        let mut round = 0usize;
        loop {
            match state {
                RecursiveCursorState::Exhausted => break,
                RecursiveCursorState::Continue(iterables) => drain(iterables, &mut seen),
            }
            if round == 0 {
                for _ in 0..appends_in_first_round {
                    stream.add_value(value_at(*next_id), Generation::new()).map_err(|e| e.to_string())?;
                    *next_id += 1;
                }
            }
            round += 1;
            if round > 10 { return Err("inner cursor does not terminate".into()); }
            state = cursor.met_iteration_end(stream);
        }
        Ok(seen)
    }

    // nested folds over ONE stream (F14, F14b and their relatives): per outer round the body runs a complete inner fold
    // (appending `inner` values in its first round) before or after appending `outer` values itself.
    fn nested_scenario(initial: &[usize], rounds: &[(usize, usize, bool)]) -> Result<(), String> {
        let mut stream: Stream<ValueAggregate> = Stream::new();
        let mut next_id = 0u32;
        for slot in initial {
            let generation = match slot { 0 => Generation::previous(0), 1 => Generation::current(0), _ => Generation::current(1) };
            stream.add_value(value_at(next_id), generation).map_err(|e| e.to_string())?;
            next_id += 1;
        }
        let mut cursor = RecursiveStreamCursor::new();
        let mut seen: Vec<u32> = vec![];
        let mut state = cursor.met_fold_start(&mut stream);
        let mut round = 0usize;
        loop {
            match state {
                RecursiveCursorState::Exhausted => break,
                RecursiveCursorState::Continue(iterables) => {
                    if iterables.is_empty() { return Err("Continue with no iterables".into()); }
                    drain(iterables, &mut seen);
                }
            }
            if let Some(&(inner, outer, inner_first)) = rounds.get(round) {
                let run_inner = |stream: &mut Stream<ValueAggregate>, next_id: &mut u32| -> Result<(), String> {
                    let present = *next_id;
                    let visited = inner_fold(stream, next_id, inner)?;
                    let mut sorted = visited.clone();
                    sorted.sort_unstable();
                    let expected: Vec<u32> = (0..*next_id).collect();
                    if sorted != expected {
                        return Err(format!("inner fold of outer round {round} (stream had {present} values, appended {inner}) visited {visited:?}, expected each of {expected:?} once"));
                    }
                    Ok(())
                };
                if inner_first { run_inner(&mut stream, &mut next_id)?; }
                for _ in 0..outer {
                    stream.add_value(value_at(next_id), Generation::new()).map_err(|e| e.to_string())?;
                    next_id += 1;
                }
                if !inner_first { run_inner(&mut stream, &mut next_id)?; }
            }
            round += 1;
            if round > 12 { return Err("outer cursor does not terminate".into()); }
            state = cursor.met_iteration_end(&mut stream);
        }
        let mut sorted = seen.clone();
        sorted.sort_unstable();
        let expected: Vec<u32> = (0..next_id).collect();
        if sorted != expected {
            return Err(format!("outer fold visited {seen:?}, expected each of {expected:?} exactly once"));
        }
        Ok(())
    }

    #[test]
    fn nested_folds_visit_each_value_once() {
        let mut cases = 0u64;
        let deep = std::env::var("VERIF_TIER").map(|v| v == "thorough").unwrap_or(false);
        let max_rounds = if deep { 4usize } else { 3 };
        // a round: (values appended by the inner fold 0..=1, values appended by the outer body 0..=2, inner fold first?)
        let mut kinds = vec![];
        for inner in 0..=1usize { for outer in 0..=2usize { for first in [true, false] { kinds.push((inner, outer, first)); } } }
        for n_initial in 1..=2usize {
            for mut code in 0..3usize.pow(n_initial as u32) {
                let mut initial = vec![];
                for _ in 0..n_initial { initial.push(code % 3); code /= 3; }
                for n_rounds in 1..=max_rounds {
                    for mut rcode in 0..kinds.len().pow(n_rounds as u32) {
                        let mut rounds = vec![];
                        for _ in 0..n_rounds { rounds.push(kinds[rcode % kinds.len()]); rcode /= kinds.len(); }
                        // a round only runs if the previous one appended something (otherwise the outer fold is exhausted)
                        let mut effective = vec![];
                        for r in &rounds { effective.push(*r); if r.0 + r.1 == 0 { break; } }
                        if let Err(e) = nested_scenario(&initial, &effective) {
                            println!("VERIF-JOB C13.cursor_nested FAIL initial={initial:?} rounds(inner appends, outer appends, inner first)={effective:?}: {e}");
                            panic!("{e}");
                        }
                        cases += 1;
                    }
                }
            }
        }
        println!("VERIF-JOB C13.cursor_nested CASES {cases}");
    }

    #[test]
    fn fold_visits_each_value_once() {
        let mut cases = 0u64;
        let deep = std::env::var("VERIF_TIER").map(|v| v == "thorough").unwrap_or(false);
        let (max_initial, max_rounds) = if deep { (4usize, 4usize) } else { (3, 3) };
        for n_initial in 0..=max_initial {
            for mut code in 0..4usize.pow(n_initial as u32) {
                let mut initial = vec![];
                for _ in 0..n_initial { initial.push(code % 4); code /= 4; }
                for n_rounds in 0..=max_rounds {
                    for mut acode in 0..3usize.pow(n_rounds as u32) {
                        let mut appends = vec![];
                        for _ in 0..n_rounds { appends.push(acode % 3); acode /= 3; }
                        // a round only runs if the previous one produced something: trailing appends after an empty
                        // round never happen in a real fold, so cut the scenario there
                        let mut effective = vec![];
                        let mut alive = !initial.is_empty();
                        for a in &appends { if !alive { break; } effective.push(*a); alive = *a > 0; }
                        if let Err(e) = scenario(&initial, &effective) {
                            println!("VERIF-JOB C13.cursor FAIL initial={initial:?} appends={effective:?}: {e}");
                            panic!("{e}");
                        }
                        cases += 1;
                    }
                }
            }
        }
        println!("VERIF-JOB C13.cursor CASES {cases}");
    }
}
