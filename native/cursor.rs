// appended to air/src/execution_step/value_types/stream/recursive_stream.rs
// native job C13.cursor (bounded): RecursiveStreamCursor visits every stream value exactly once, including the
// values appended while the fold runs. Scenarios: an initial stream of <= 3 values placed in
// {previous(0), previous(1), current(0), current(1)}, then <= 3 fold iterations each appending 0..=2 new values.
#[cfg(test)]
mod verif_native_cursor {
    use super::IterableValue;
    use super::RecursiveCursorState;
    use super::RecursiveStreamCursor;
    use super::Stream;
    use super::ValueAggregate;
    use crate::execution_step::Generation;
    use crate::execution_step::ServiceResultAggregate;
    use crate::JValue;

    use air_interpreter_cid::CID;
    use air_interpreter_data::TracePos;

    fn value_at(pos: u32) -> ValueAggregate {
        ValueAggregate::from_service_result(
            ServiceResultAggregate::new(JValue::from(pos as i64), <_>::default(), TracePos::from(pos)),
            CID::new("some fake cid").into(),
        )
    }

    fn drain(iterables: Vec<IterableValue>, seen: &mut Vec<u32>) {
        for mut it in iterables {
            loop {
                let pos = it.peek().map(|item| u32::from(item.pos()));
                match pos {
                    Some(p) => seen.push(p),
                    None => break,
                }
                if !it.next() { break; }
            }
        }
    }

    fn scenario(initial: &[usize], appends: &[usize]) -> Result<(), String> {
        let mut stream: Stream<ValueAggregate> = Stream::new();
        let mut cursor = RecursiveStreamCursor::new();
        let mut next_id = 0u32;
        for slot in initial {
            let generation = match slot { 0 => Generation::previous(0), 1 => Generation::previous(1), 2 => Generation::current(0), _ => Generation::current(1) };
            stream.add_value(value_at(next_id), generation).map_err(|e| e.to_string())?;
            next_id += 1;
        }
        let mut seen: Vec<u32> = vec![];
        let mut state = cursor.met_fold_start(&mut stream);
        let mut round = 0usize;
        loop {
            match state {
                RecursiveCursorState::Exhausted => break,
                RecursiveCursorState::Continue(iterables) => {
                    if iterables.is_empty() { return Err("Continue with no iterables".into()); }
                    drain(iterables, &mut seen);
                }
            }
            // the fold body runs: it may append new values to the stream
            let n = if round < appends.len() { appends[round] } else { 0 };
            for _ in 0..n {
                stream.add_value(value_at(next_id), Generation::new()).map_err(|e| e.to_string())?;
                next_id += 1;
            }
            round += 1;
            if round > 10 { return Err("cursor does not terminate".into()); }
            state = cursor.met_iteration_end(&mut stream);
        }
        let mut sorted = seen.clone();
        sorted.sort_unstable();
        let expected: Vec<u32> = (0..next_id).collect();
        // appended in rounds after the cursor was exhausted are legitimately unseen: only rounds that ran count
        if sorted != expected {
            return Err(format!("visited {seen:?}, expected each of {expected:?} exactly once"));
        }
        Ok(())
    }

    #[test]
    fn fold_visits_each_value_once() {
        let mut cases = 0u64;
        let deep = std::env::var("VERIF_TIER").map(|v| v == "thorough").unwrap_or(false);
        let (max_initial, max_rounds) = if deep { (4usize, 4usize) } else { (3, 3) };
        for n_initial in 0..=max_initial {
            for mut code in 0..4usize.pow(n_initial as u32) {
                let mut initial = vec![];
                for _ in 0..n_initial { initial.push(code % 4); code /= 4; }
                for n_rounds in 0..=max_rounds {
                    for mut acode in 0..3usize.pow(n_rounds as u32) {
                        let mut appends = vec![];
                        for _ in 0..n_rounds { appends.push(acode % 3); acode /= 3; }
                        // a round only runs if the previous one produced something: trailing appends after an empty
                        // round never happen in a real fold, so cut the scenario there
                        let mut effective = vec![];
                        let mut alive = !initial.is_empty();
                        for a in &appends { if !alive { break; } effective.push(*a); alive = *a > 0; }
                        if let Err(e) = scenario(&initial, &effective) {
                            println!("VERIF-JOB C13.cursor FAIL initial={initial:?} appends={effective:?}: {e}");
                            panic!("{e}");
                        }
                        cases += 1;
                    }
                }
            }
        }
        println!("VERIF-JOB C13.cursor CASES {cases}");
    }
}
