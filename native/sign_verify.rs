// appended to crates/air-lib/interpreter-data/src/interpreter_data/verification.rs
// native job C03.sign_verify (bounded): the real signer (PeerCidTracker::register + gen_signature, real Ed25519) and the real
// verifier (DataVerifier::new + verify) agree on every trace of <= 3 (thorough: <= 4) CID-bearing states drawn from 6 kinds over two
// peers, REPEATED CIDs included (the signed object is the sorted MULTISET of a peer's CIDs): data signed the way the interpreter
// signs it is accepted; the same data with one of the signer's states removed or duplicated after signing, or under another salt,
// is rejected.
#[cfg(test)]
mod verif_native_sign_verify {
    use super::*;
    use crate::{CallResult, CanonResultCidAggregate, CidTracker, ServiceResultCidAggregate, ValueRef};
    use air_interpreter_signatures::{KeyFormat, KeyPair, PeerCidTracker, SignatureStore};
    use polyplets::SecurityTetraplet;

    struct World {
        states: Vec<(ExecutedState, usize, Rc<CidRef>)>, // state, owning peer, its cid
        cid_info: CidInfo,
    }

    fn world(peers: &[String; 2]) -> World {
        let mut tetraplets = CidTracker::<SecurityTetraplet>::new();
        let mut services = CidTracker::<ServiceResultCidAggregate>::new();
        let mut canons = CidTracker::<CanonResultCidAggregate>::new();
        let mut states = vec![];
        for (owner, peer) in peers.iter().enumerate() {
            let tet = tetraplets.track_value(SecurityTetraplet::new(peer.clone(), "srv", "fn", "")).unwrap();
            let mk = |services: &mut CidTracker<ServiceResultCidAggregate>, v: &str| {
                services
                    .track_value(ServiceResultCidAggregate { value_cid: CID::new(v), argument_hash: "h".into(), tetraplet_cid: tet.clone() })
                    .unwrap()
            };
            let a = mk(&mut services, "value-a");
            let b = mk(&mut services, "value-b");
            let canon = canons.track_value(CanonResultCidAggregate { tetraplet: tet.clone(), values: vec![] }).unwrap();
            states.push((ExecutedState::Call(CallResult::Executed(ValueRef::Scalar(a.clone()))), owner, a.get_inner()));
            if owner == 0 {
                states.push((ExecutedState::Call(CallResult::Executed(ValueRef::Stream { cid: a.clone(), generation: 0.into() })), owner, a.get_inner()));
                states.push((ExecutedState::Call(CallResult::Failed(b.clone())), owner, b.get_inner()));
                states.push((ExecutedState::Canon(CanonResult::Executed(canon.clone())), owner, canon.get_inner()));
            } else {
                states.push((ExecutedState::Canon(CanonResult::Executed(canon.clone())), owner, canon.get_inner()));
            }
        }
        let cid_info = CidInfo {
            tetraplet_store: tetraplets.into(),
            service_result_store: services.into(),
            canon_result_store: canons.into(),
            ..<_>::default()
        };
        World { states, cid_info }
    }

    fn check(data: &InterpreterData, salt: &str) -> Result<(), String> {
        DataVerifier::new(data, salt).map_err(|e| e.to_string())?.verify().map_err(|e| e.to_string())
    }

    #[test]
    fn signer_and_verifier_agree_on_cid_multisets() {
        let thorough = std::env::var("VERIF_TIER").map(|v| v == "thorough").unwrap_or(false);
        let keys = [
            KeyPair::from_secret_key(vec![1u8; 32], KeyFormat::Ed25519).unwrap(),
            KeyPair::from_secret_key(vec![2u8; 32], KeyFormat::Ed25519).unwrap(),
        ];
        let peers = [keys[0].public().to_peer_id().unwrap(), keys[1].public().to_peer_id().unwrap()];
        let w = world(&peers);
        let kinds = w.states.len();
        let salt = "particle-id";
        let max_len = if thorough { 4usize } else { 3 };
        let mut cases = 0u64;
        let fail = |what: String| -> ! {
            println!("VERIF-JOB C03.sign_verify FAIL {what}");
            panic!("{what}");
        };
        for len in 0..=max_len {
            for mut code in 0..kinds.pow(len as u32) {
                let mut picks = vec![];
                for _ in 0..len { picks.push(code % kinds); code /= kinds; }
                // the producers sign what they registered, state by state, exactly as the interpreter does
                let mut trackers = [PeerCidTracker::new(peers[0].clone()), PeerCidTracker::new(peers[1].clone())];
                for &k in &picks {
                    let (_, owner, cid) = &w.states[k];
                    for t in trackers.iter_mut() {
                        t.register(&peers[*owner], &CID::<()>::new(&**cid));
                    }
                }
                let mut signatures = SignatureStore::new();
                for (i, t) in trackers.iter().enumerate() {
                    signatures.put(keys[i].public(), t.gen_signature(salt, &keys[i]).unwrap());
                }
                let trace_of = |ps: &[usize]| ExecutionTrace::from(ps.iter().map(|&k| w.states[k].0.clone()).collect::<Vec<_>>());
                let data = InterpreterData { trace: trace_of(&picks), last_call_request_id: 0, cid_info: w.cid_info.clone(), signatures: signatures.clone() };
                let shape: Vec<String> = picks.iter().map(|&k| format!("{}@peer{}", match &w.states[k].0 { ExecutedState::Call(CallResult::Failed(_)) => "failed", ExecutedState::Call(CallResult::Executed(ValueRef::Stream { .. })) => "stream", ExecutedState::Call(_) => "scalar", _ => "canon" }, w.states[k].1)).collect();
                if let Err(e) = check(&data, salt) {
                    fail(format!("honestly signed trace {shape:?} is rejected: {e}"));
                }
                cases += 1;
                if check(&data, "another-particle").is_ok() && !picks.is_empty() {
                    fail(format!("trace {shape:?} verifies under a salt it was not signed with"));
                }
                cases += 1;
                // tamper: drop / duplicate one state after signing (changes the owner's multiset)
                for at in 0..picks.len() {
                    let mut dropped = picks.clone();
                    dropped.remove(at);
                    let d = InterpreterData { trace: trace_of(&dropped), last_call_request_id: 0, cid_info: w.cid_info.clone(), signatures: signatures.clone() };
                    if check(&d, salt).is_ok() {
                        fail(format!("trace {shape:?} with state {at} removed after signing is accepted"));
                    }
                    let mut doubled = picks.clone();
                    doubled.insert(at, picks[at]);
                    let d = InterpreterData { trace: trace_of(&doubled), last_call_request_id: 0, cid_info: w.cid_info.clone(), signatures: signatures.clone() };
                    if check(&d, salt).is_ok() {
                        fail(format!("trace {shape:?} with state {at} duplicated after signing is accepted"));
                    }
                    cases += 2;
                }
            }
        }
        println!("VERIF-JOB C03.sign_verify CASES {cases}");
    }
}
