// appended to air/src/execution_step/lambda_applier/applier.rs
// native job C24.lens (bounded): select_by_path_from_scalar / select_by_functor_from_scalar on the real JValue agree with plain
// serde_json navigation, and fail with a *catchable* error exactly when that navigation is impossible.
// Values: scalars {null, 7, "s"}, arrays of <= 2 of them, objects over keys {a, b}, one more level of nesting;
// paths of length <= 3 over {[0], [1], [2], .a, .b, .c}.
#[cfg(test)]
mod verif_native_lens {
    use super::*;
    use crate::execution_step::execution_context::ExecCtxIngredients;
    use air_interpreter_interface::RunParameters;
    use serde_json::json;
    use serde_json::Value;

    fn ctx() -> ExecutionCtx<'static> {
        let ing = || ExecCtxIngredients { last_call_request_id: 0, cid_info: <_>::default() };
        let params = RunParameters::new("init".into(), "me".into(), 0, 0, 0, vec![], "particle".into(), u64::MAX, u64::MAX, u64::MAX, false);
        ExecutionCtx::new(ing(), ing(), <_>::default(), <_>::default(), &params)
    }

    fn values() -> Vec<Value> {
        let scalars = vec![json!(null), json!(7), json!("s")];
        let mut level1: Vec<Value> = scalars.clone();
        level1.push(json!([]));
        level1.push(json!({}));
        for a in &scalars { level1.push(json!([a])); level1.push(json!({"a": a})); for b in &scalars { level1.push(json!([a, b])); level1.push(json!({"a": a, "b": b})); } }
        let mut out = level1.clone();
        for a in level1.iter().step_by(3) { out.push(json!([a])); out.push(json!({"b": a})); out.push(json!([7, a])); out.push(json!({"a": 7, "b": a})); }
        out
    }

    fn plain<'v>(v: &'v Value, path: &[ValueAccessor<'_>]) -> Option<&'v Value> {
        let mut cur = v;
        for acc in path {
            cur = match acc {
                ValueAccessor::ArrayAccess { idx } => cur.as_array()?.get(*idx as usize)?,
                ValueAccessor::FieldAccessByName { field_name } => cur.as_object()?.get(*field_name)?,
                _ => return None,
            };
        }
        Some(cur)
    }

    #[test]
    fn lens_agrees_with_plain_json_navigation() {
        let exec_ctx = ctx();
        let accessors = vec![
            ValueAccessor::ArrayAccess { idx: 0 }, ValueAccessor::ArrayAccess { idx: 1 }, ValueAccessor::ArrayAccess { idx: 2 },
            ValueAccessor::FieldAccessByName { field_name: "a" }, ValueAccessor::FieldAccessByName { field_name: "b" },
            ValueAccessor::FieldAccessByName { field_name: "c" },
        ];
        let mut paths: Vec<Vec<ValueAccessor<'_>>> = vec![vec![]];
        for a in &accessors { paths.push(vec![a.clone()]); for b in &accessors { paths.push(vec![a.clone(), b.clone()]); for c in &accessors { paths.push(vec![a.clone(), b.clone(), c.clone()]); } } }
        let mut cases = 0u64;
        for v in values() {
            let jv = JValue::from(&v);
            for path in &paths {
                let got = select_by_path_from_scalar(&jv, path.iter(), &exec_ctx);
                let want = plain(&v, path);
                let ok = match (&got, want) {
                    (Ok(g), Some(w)) => *g == JValue::from(w),
                    (Err(ExecutionError::Catchable(_)), None) => true,
                    _ => false,
                };
                if !ok {
                    println!("VERIF-JOB C24.lens FAIL value={v} path={path:?}: got {:?}, plain navigation gives {want:?}", got.as_ref().map(|g| g.to_string()).map_err(|e| e.to_string()));
                    panic!("lens mismatch");
                }
                cases += 1;
            }
            // .length: arrays only
            let len = select_by_functor_from_scalar(&jv, &Functor::Length);
            let ok = match (&len, v.as_array()) {
                (Ok(l), Some(arr)) => *l == JValue::from(arr.len()),
                (Err(ExecutionError::Catchable(_)), None) => true,
                _ => false,
            };
            if !ok { println!("VERIF-JOB C24.lens FAIL value={v} .length"); panic!(".length mismatch"); }
            cases += 1;
        }
        println!("VERIF-JOB C24.lens CASES {cases}");
    }
}
