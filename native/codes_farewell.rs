// appended to air/src/farewell_step/errors.rs (native job C02.codes.farewell)
#[cfg(test)]
mod verif_native_codes_farewell {
    use super::FarewellErrorDiscriminants;
    use crate::utils::FAREWELL_ERRORS_START_ID;
    use strum::IntoEnumIterator;

    #[test]
    fn code_ranges() {
        let mut cases = 0u64;
        for (pos, d) in FarewellErrorDiscriminants::iter().enumerate() {
            let code = FAREWELL_ERRORS_START_ID + pos as i64;
            if code != 30000 {
                println!("VERIF-JOB C02.codes.farewell FAIL FarewellError::{d:?} has code {code}, expected 30000");
                panic!("code out of range");
            }
            cases += 1;
        }
        println!("VERIF-JOB C02.codes.farewell CASES {cases}");
    }
}
