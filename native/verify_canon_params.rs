// appended to air/src/execution_step/instructions/canon_utils/mod.rs
// native job C14.verify_canon_params (bounded; refuter paired with the Verus obligation call_verifier:verify_canon): the real verify_canon
// over every pair of tetraplets whose four components range over 3 texts each (81 x 81 pairs): Ok exactly when ALL FOUR components are
// equal; every rejection is InstructionParametersMismatch { param: "canon tetraplet", .. }.
#[cfg(test)]
mod verif_native_verify_canon_params {
    use super::*;

    #[test]
    fn verify_canon_accepts_exactly_equal_tetraplets() {
        let texts = ["", "a", "b"];
        let mut tets = vec![];
        for p in texts {
            for s in texts {
                for f in texts {
                    for l in texts {
                        tets.push(SecurityTetraplet::new(p, s, f, l));
                    }
                }
            }
        }
        let mut cases = 0u64;
        for e in &tets {
            for st in &tets {
                let same_tet = e.peer_pk == st.peer_pk && e.service_id == st.service_id && e.function_name == st.function_name && e.lens == st.lens;
                let r = verify_canon(e, st);
                let ok = match &r {
                    Ok(()) => same_tet,
                    Err(UncatchableError::InstructionParametersMismatch { param, .. }) => !same_tet && *param == "canon tetraplet",
                    Err(_) => false,
                };
                if !ok {
                    println!("VERIF-JOB C14.verify_canon_params FAIL verify_canon(expected {e:?}, stored {st:?}) = {:?}", r.map_err(|e| e.to_string()));
                    panic!("verify_canon");
                }
                cases += 1;
            }
        }
        println!("VERIF-JOB C14.verify_canon_params CASES {cases}");
    }
}
