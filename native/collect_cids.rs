// appended to crates/air-lib/interpreter-data/src/interpreter_data/verification.rs
// native job C01.collect_cids (finite: the four reference kinds x {present, dangling}): DataVerifier::new is total on data
// whose TRACE refers to CIDs missing from the stores -- CidInfo::verify() does not cover trace -> store references (F5) -- and
// reports exactly the first missing CID (C03 / C14: a dangling reference is never skipped)
#[cfg(test)]
mod verif_native_collect_cids {
    use super::*;
    use crate::{CanonResultCidAggregate, CidTracker, ServiceResultCidAggregate, ValueRef, CallResult};
    use polyplets::SecurityTetraplet;
    use std::panic::{catch_unwind, AssertUnwindSafe};

    #[test]
    fn data_verifier_new_is_total_on_dangling_trace_references() {
        let mut cases = 0u64;
        // which links exist: (service result in store, its tetraplet in store, canon result in store, its tetraplet in store)
        for mask in 0..16u32 {
            let has = |bit: u32| mask & (1 << bit) != 0;
            let mut tetraplets = CidTracker::<SecurityTetraplet>::new();
            let mut services = CidTracker::<ServiceResultCidAggregate>::new();
            let mut canons = CidTracker::<CanonResultCidAggregate>::new();
            let tetraplet = SecurityTetraplet::new("peer", "srv", "fn", "");
            let tet_cid = if has(1) { tetraplets.track_value(tetraplet.clone()).unwrap() } else { CID::new("dangling-tetraplet") };
            let canon_tet_cid = if has(3) { tetraplets.track_value(tetraplet.clone()).unwrap() } else { CID::new("dangling-tetraplet-2") };
            let service = ServiceResultCidAggregate { value_cid: CID::new("v"), argument_hash: "h".into(), tetraplet_cid: tet_cid };
            let service_cid = if has(0) { services.track_value(service).unwrap() } else { CID::new("dangling-service-result") };
            let canon = CanonResultCidAggregate { tetraplet: canon_tet_cid, values: vec![] };
            let canon_cid = if has(2) { canons.track_value(canon).unwrap() } else { CID::new("dangling-canon-result") };
            let trace = ExecutionTrace::from(vec![
                ExecutedState::Call(CallResult::Executed(ValueRef::Scalar(service_cid.clone()))),
                ExecutedState::Call(CallResult::Failed(service_cid)),
                ExecutedState::Canon(CanonResult::Executed(canon_cid)),
            ]);
            let cid_info = CidInfo {
                tetraplet_store: tetraplets.into(),
                service_result_store: services.into(),
                canon_result_store: canons.into(),
                ..<_>::default()
            };
            let data = InterpreterData { trace, last_call_request_id: 0, cid_info, signatures: <_>::default() };
            let outcome = catch_unwind(AssertUnwindSafe(|| DataVerifier::new(&data, "salt").map(|_| ())));
            if outcome.is_err() {
                println!("VERIF-JOB C01.collect_cids FAIL DataVerifier::new panics on a trace reference missing from the CID stores");
                panic!("DataVerifier::new panicked (mask {mask:#06b})");
            }
            cases += 1;
            // C03 / C14: a CID the trace refers to that is missing from the stores is an ERROR naming that CID -- it is never skipped
            // (a skipped state would be attributed to no peer and covered by no signature). Same data, now with the owner's key
            // in the signature store, so that every lookup is reached.
            let key = air_interpreter_signatures::KeyPair::from_secret_key(vec![7u8; 32], air_interpreter_signatures::KeyFormat::Ed25519).unwrap();
            let owner = key.public().to_peer_id().unwrap();
            let mut tetraplets = CidTracker::<SecurityTetraplet>::new();
            let mut services = CidTracker::<ServiceResultCidAggregate>::new();
            let mut canons = CidTracker::<CanonResultCidAggregate>::new();
            let tetraplet = SecurityTetraplet::new(owner.clone(), "srv", "fn", "");
            let canon_tetraplet = SecurityTetraplet::new(owner.clone(), "", "", "");
            let tet_cid = if has(1) { tetraplets.track_value(tetraplet.clone()).unwrap() } else { CID::new("dangling-tetraplet") };
            let canon_tet_cid = if has(3) { tetraplets.track_value(canon_tetraplet.clone()).unwrap() } else { CID::new("dangling-tetraplet-2") };
            let service = ServiceResultCidAggregate { value_cid: CID::new("v"), argument_hash: "h".into(), tetraplet_cid: tet_cid.clone() };
            let service_cid = if has(0) { services.track_value(service).unwrap() } else { CID::new("dangling-service-result") };
            let canon = CanonResultCidAggregate { tetraplet: canon_tet_cid.clone(), values: vec![] };
            let canon_cid = if has(2) { canons.track_value(canon).unwrap() } else { CID::new("dangling-canon-result") };
            let trace = ExecutionTrace::from(vec![
                ExecutedState::Call(CallResult::Executed(ValueRef::Scalar(service_cid.clone()))),
                ExecutedState::Call(CallResult::Failed(service_cid.clone())),
                ExecutedState::Canon(CanonResult::Executed(canon_cid.clone())),
            ]);
            let cid_info = CidInfo {
                tetraplet_store: tetraplets.into(),
                service_result_store: services.into(),
                canon_result_store: canons.into(),
                ..<_>::default()
            };
            let mut signatures = air_interpreter_signatures::SignatureStore::new();
            signatures.put(key.public(), key.sign(b"anything").unwrap());
            let data = InterpreterData { trace, last_call_request_id: 0, cid_info, signatures };
            let expected: Option<Rc<CidRef>> = if !has(0) { Some(service_cid.get_inner()) }
                else if !has(1) { Some(tet_cid.get_inner()) }
                else if !has(2) { Some(canon_cid.get_inner()) }
                else if !has(3) { Some(canon_tet_cid.get_inner()) }
                else { None };
            let got = DataVerifier::new(&data, "salt").map(|_| ());
            let ok = match (&expected, &got) {
                (None, Ok(())) => true,
                (Some(c), Err(DataVerifierError::CidNotFound(e))) => c == e,
                _ => false,
            };
            if !ok {
                println!("VERIF-JOB C01.collect_cids FAIL links present (service result, its tetraplet, canon result, its tetraplet) = {:?}: expected {} got {:?}",
                    [has(0), has(1), has(2), has(3)], match &expected { Some(c) => format!("CidNotFound({c})"), None => "Ok".to_string() }, got.as_ref().map_err(|e| e.to_string()));
                panic!("DataVerifier::new: a dangling trace reference must be reported, never skipped (mask {mask:#06b})");
            }
            cases += 1;
        }
        println!("VERIF-JOB C01.collect_cids CASES {cases}");
    }
}
