// appended to crates/air-lib/air-parser/src/lib.rs (native job C01.parse_total): bounded stand-in for "script parsing is total"
// (the generated LALR driver, the two lexers and the validator are outside Verus). Every seed script, every char position,
// every replacement / insertion out of a small alphabet of hostile chars (multi-byte letters and digits, quotes, brackets, NUL,
// the lambda and stream sigils, signs and dots that start numbers): `parse` must return, never panic.
#[cfg(test)]
mod verif_native_parse_total {
    const SEEDS: &[&str] = &[
        r#"(call "p" ("s" "f") [x.$.field.[0]! y #c.$.[1] #%m.$.key.[0] $s] z)"#,
        r#"(call %init_peer_id% ("s" x.$.f) [%timestamp% %ttl% 12 -1 1.5 true [] "lit" %last_error%.$.message :error:.$.error_code] $out)"#,
        r#"(seq (ap x.$.a.[1] $s) (ap ("k" x.$.v) %m))"#,
        r#"(fold x.$.items i (seq (call i.$.peer ("s" "f") [i] y) (next i)) (null))"#,
        r#"(fold $s i (par (canon "p" $s #c) (next i)))"#,
        r#"(fold %m i (seq (canon "p" %m #%cm) (seq (canon "p" #%cm sc) (next i))))"#,
        r#"(xor (match x.$.a y.$.b (null)) (mismatch #c.length 3 (fail %last_error%)))"#,
        r#"(new $s (new #c (seq (canon x.$.peer $s #c) (fail 1337 "message"))))"#,
        r#"(par (never) (fail :error:))"#,
        r#"(ap #c.$.[x] y) ; comment é"#,
        r#"(call "p" ("" "") [x.$.[1].[2].a-b_c!])"#,
    ];
    const CHARS: &[char] = &['é', 'ß', '𝄞', '٣', 'Ⅷ', '\u{0}', '"', '\\', '(', ')', '[', ']', '.', '$', '#', '%', '!', '-', '+', '9', ' ', ';', ':', 'a', '_', '\n'];

    fn probe(text: &str, cases: &mut u64) {
        let owned = text.to_string();
        let r = std::panic::catch_unwind(|| {
            let _ = crate::parse(&owned);
        });
        if r.is_err() {
            println!("VERIF-JOB C01.parse_total FAIL {:?}", text);
            panic!("air_parser::parse panicked on {:?}", text);
        }
        *cases += 1;
    }

    #[test]
    fn parse_never_panics() {
        let thorough = std::env::var("VERIF_TIER").map(|v| v == "thorough").unwrap_or(false);
        let mut cases = 0u64;
        for seed in SEEDS {
            probe(seed, &mut cases);
            let idx: Vec<(usize, char)> = seed.char_indices().collect();
            for (k, &(pos, old)) in idx.iter().enumerate() {
                let after = pos + old.len_utf8();
                // deletion and truncation
                probe(&format!("{}{}", &seed[..pos], &seed[after..]), &mut cases);
                probe(&seed[..pos], &mut cases);
                for &c in CHARS {
                    // replacement, insertion
                    probe(&format!("{}{}{}", &seed[..pos], c, &seed[after..]), &mut cases);
                    probe(&format!("{}{}{}", &seed[..pos], c, &seed[pos..]), &mut cases);
                    if thorough {
                        // a second hostile char a few positions further
                        if let Some(&(pos2, old2)) = idx.get(k + 3) {
                            let after2 = pos2 + old2.len_utf8();
                            for &c2 in &['é', '"', ')', '.', '9'] {
                                probe(&format!("{}{}{}{}{}", &seed[..pos], c, &seed[after..pos2], c2, &seed[after2..]), &mut cases);
                            }
                        }
                    }
                }
            }
        }
        println!("VERIF-JOB C01.parse_total CASES {cases}");
    }
}
