// appended to air/src/execution_step/value_types/utils.rs (a leaf of the build: appending to the polyplets crate would rebuild every dependent)
// native job C17.tetraplet_shim (bounded): the three methods of marine_call_parameters::SecurityTetraplet (a registry crate, outside
// /repo) behave as the trusted shim of units/tetraplets.rs says: `new` stores its four arguments, `literal_tetraplet(p)` is
// (p, "", "", ""), `add_lens` appends to the lens and touches nothing else, Clone and `From<ResolvedTriplet>` keep the texts.
#[cfg(test)]
mod verif_native_tetraplet_shim {
    use super::*;
    use polyplets::ResolvedTriplet;

    #[test]
    fn tetraplet_methods_match_the_shim() {
        let texts = ["", "a", ".$.field.[1]", "12D3KooWPeer", ".length"];
        let mut cases = 0u64;
        let fail = |what: String| -> ! { println!("VERIF-JOB C17.tetraplet_shim FAIL {what}"); panic!("{what}") };
        for p in texts {
            let lit = SecurityTetraplet::literal_tetraplet(p);
            if lit.peer_pk != p || !lit.service_id.is_empty() || !lit.function_name.is_empty() || !lit.lens.is_empty() {
                fail(format!("literal_tetraplet({p:?}) = {lit:?}"));
            }
            let lit_owned = SecurityTetraplet::literal_tetraplet(p.to_string());
            if lit_owned != lit { fail(format!("literal_tetraplet(String {p:?})")); }
            for s in texts {
                for f in texts {
                    let from: SecurityTetraplet = ResolvedTriplet { peer_pk: p.to_string(), service_id: s.to_string(), function_name: f.to_string() }.into();
                    if from.peer_pk != p || from.service_id != s || from.function_name != f || !from.lens.is_empty() {
                        fail(format!("From<ResolvedTriplet>({p:?}, {s:?}, {f:?}) = {from:?}"));
                    }
                    for l in texts {
                        let t = SecurityTetraplet::new(p, s.to_string(), f, l.to_string());
                        if t.peer_pk != p || t.service_id != s || t.function_name != f || t.lens != l {
                            fail(format!("new({p:?}, {s:?}, {f:?}, {l:?}) = {t:?}"));
                        }
                        if t.clone() != t { fail(format!("clone of {t:?}")); }
                        for x in texts {
                            for y in texts {
                                let mut u = t.clone();
                                u.add_lens(x);
                                u.add_lens(y);
                                let want = format!("{l}{x}{y}");
                                if u.peer_pk != p || u.service_id != s || u.function_name != f || u.lens != want {
                                    fail(format!("add_lens({x:?}) add_lens({y:?}) on {t:?} = {u:?}"));
                                }
                                cases += 1;
                            }
                        }
                    }
                }
            }
        }
        println!("VERIF-JOB C17.tetraplet_shim CASES {cases}");
    }
}
