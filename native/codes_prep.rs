// appended to air/src/preparation_step/errors.rs (native job C02.codes.prep): finite, exhaustive over every discriminant
#[cfg(test)]
mod verif_native_codes_prep {
    use super::PreparationErrorDiscriminants;
    use crate::utils::PREPARATION_ERROR_START_ID;
    use strum::IntoEnumIterator;

    #[test]
    fn code_ranges() {
        let mut cases = 0u64;
        for (pos, d) in PreparationErrorDiscriminants::iter().enumerate() {
            let code = PREPARATION_ERROR_START_ID + pos as i64;
            if !(1..=9999).contains(&code) {
                println!("VERIF-JOB C02.codes.prep FAIL PreparationError::{d:?} has code {code} outside 1..=9999");
                panic!("code out of range");
            }
            cases += 1;
        }
        println!("VERIF-JOB C02.codes.prep CASES {cases}");
    }
}
