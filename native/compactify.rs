// appended to air/src/execution_step/value_types/stream/stream_definition.rs
// native job C12.compactify (bounded): every sequence of <= 4 operations out of
//   add Previous(g), add Current(g) (g in 0..=2), add New, open a new generation
// then compactify on the real TraceHandler; checks the generation written for every value, the iteration
// order, and slice_iter against the abstract view used by the Verus unit `streams`.
#[cfg(test)]
mod verif_native_compactify {
    use super::Generation;
    use super::StreamCursor;
    use super::TraceHandler;
    use crate::execution_step::ServiceResultAggregate;
    use crate::execution_step::ValueAggregate;
    use crate::JValue;

    use air_interpreter_cid::CID;
    use air_interpreter_data::ApResult;
    use air_interpreter_data::ExecutedState;
    use air_interpreter_data::ExecutionTrace;
    use air_interpreter_data::TracePos;

    type Stream = super::Stream<ValueAggregate>;

    fn value_at(pos: u32) -> ValueAggregate {
        ValueAggregate::from_service_result(
            ServiceResultAggregate::new(JValue::from(pos as i64), <_>::default(), TracePos::from(pos)),
            CID::new("some fake cid").into(),
        )
    }

    #[derive(Clone, Copy, Debug)]
    enum Op { Prev(u32), Cur(u32), New, Open }

    fn run(ops: &[Op]) -> Result<(), String> {
        let mut stream = Stream::new();
        // model: three matrices of generations of value ids
        let mut prev: Vec<Vec<u32>> = vec![];
        let mut cur: Vec<Vec<u32>> = vec![];
        let mut new: Vec<Vec<u32>> = vec![];
        let mut next_id = 0u32;
        for op in ops {
            match *op {
                Op::Prev(g) => {
                    stream.add_value(value_at(next_id), Generation::previous(g)).map_err(|e| format!("{e}"))?;
                    while prev.len() <= g as usize { prev.push(vec![]); }
                    prev[g as usize].push(next_id);
                    next_id += 1;
                }
                Op::Cur(g) => {
                    stream.add_value(value_at(next_id), Generation::current(g)).map_err(|e| format!("{e}"))?;
                    while cur.len() <= g as usize { cur.push(vec![]); }
                    cur[g as usize].push(next_id);
                    next_id += 1;
                }
                Op::New => {
                    stream.add_value(value_at(next_id), Generation::New).map_err(|e| format!("{e}"))?;
                    if new.is_empty() { new.push(vec![]); }
                    new.last_mut().unwrap().push(next_id);
                    next_id += 1;
                }
                Op::Open => {
                    stream.new_values().add_new_empty_generation();
                    new.push(vec![]);
                }
            }
        }
        let ids = |v: &ValueAggregate| -> u32 { u32::from(super::TracePosOperate::get_trace_pos(v)) };
        // C13: iteration order = previous, current, new, each in generation order
        let expected_flat: Vec<u32> = prev.iter().chain(cur.iter()).chain(new.iter()).flatten().cloned().collect();
        let actual_flat: Vec<u32> = stream.iter().map(ids).collect();
        if actual_flat != expected_flat { return Err(format!("iter() = {actual_flat:?}, expected {expected_flat:?}")); }
        // slice_iter from the empty cursor = the non-empty generations in order
        let ne = |m: &Vec<Vec<u32>>| -> Vec<Vec<u32>> { m.iter().filter(|g| !g.is_empty()).cloned().collect() };
        let expected_slices: Vec<Vec<u32>> = ne(&prev).into_iter().chain(ne(&cur)).chain(ne(&new)).collect();
        let actual_slices: Vec<Vec<u32>> = stream.slice_iter(StreamCursor::empty()).map(|s| s.iter().map(ids).collect()).collect();
        if actual_slices != expected_slices { return Err(format!("slice_iter = {actual_slices:?}, expected {expected_slices:?}")); }
        // slice_iter from ANY cursor: a cursor counts raw generations (empty ones included), so the generations it hands out are the
        // non-empty ones among those at or after the cursor, per matrix
        for a in 0..=prev.len() { for b in 0..=cur.len() { for c in 0..=new.len() {
            let cursor = StreamCursor::new(a.into(), b.into(), c.into());
            let want: Vec<Vec<u32>> = ne(&prev[a..].to_vec()).into_iter().chain(ne(&cur[b..].to_vec())).chain(ne(&new[c..].to_vec())).collect();
            let got: Vec<Vec<u32>> = stream.slice_iter(cursor).map(|s| s.iter().map(ids).collect()).collect();
            if got != want { return Err(format!("slice_iter(cursor {a},{b},{c}) = {got:?}, expected {want:?}")); }
        }}}
        // compactify on the real trace handler: one Ap state per value, at the value's trace position
        let trace = ExecutionTrace::from(vec![]);
        let mut trace_ctx = TraceHandler::from_trace(trace.clone(), trace);
        for _ in 0..next_id { trace_ctx.meet_ap_end(ApResult::stub()); }
        stream.compactify(&mut trace_ctx).map_err(|e| format!("compactify failed: {e}"))?;
        let result = trace_ctx.into_result_trace();
        // C12: dense renumbering, previous < current < new, order inside each kept
        let mut expected_gen = vec![0u32; next_id as usize];
        for (k, g) in expected_slices.iter().enumerate() { for id in g { expected_gen[*id as usize] = k as u32; } }
        for id in 0..next_id {
            match &result[TracePos::from(id)] {
                ExecutedState::Ap(ap) => {
                    let expected = vec![air_interpreter_data::GenerationIdx::from(expected_gen[id as usize] as usize)];
                    if ap.res_generations != expected {
                        return Err(format!("value {id}: generation {:?}, expected {expected:?}", ap.res_generations));
                    }
                }
                s => return Err(format!("state {id} is {s:?}")),
            }
        }
        // after compactify: the same values in the same order, no empty generation left
        let after: Vec<u32> = stream.iter().map(ids).collect();
        if after != expected_flat { return Err(format!("iter() after compactify = {after:?}, expected {expected_flat:?}")); }
        let c = stream.cursor();
        let counts = (usize::from(c.previous_start_idx), usize::from(c.current_start_idx), usize::from(c.new_start_idx));
        if counts != (ne(&prev).len(), ne(&cur).len(), ne(&new).len()) { return Err(format!("generation counts {counts:?}")); }
        Ok(())
    }

    #[test]
    fn compactify_renumbers_densely_in_order() {
        let alphabet = [Op::Prev(0), Op::Prev(1), Op::Prev(2), Op::Cur(0), Op::Cur(1), Op::Cur(2), Op::New, Op::Open];
        let mut cases = 0u64;
        let max_len = if std::env::var("VERIF_TIER").map(|v| v == "thorough").unwrap_or(false) { 5usize } else { 4 };
        for len in 0..=max_len {
            let total = alphabet.len().pow(len as u32);
            for mut code in 0..total {
                let mut ops = vec![];
                for _ in 0..len { ops.push(alphabet[code % alphabet.len()]); code /= alphabet.len(); }
                if let Err(e) = run(&ops) {
                    println!("VERIF-JOB C12.compactify FAIL {ops:?}: {e}");
                    panic!("{ops:?}: {e}");
                }
                cases += 1;
            }
        }
        println!("VERIF-JOB C12.compactify CASES {cases}");
    }
}
