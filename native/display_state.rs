// appended to crates/air-lib/interpreter-data/src/executed_state/impls.rs
// native job C01.display (bounded): Display for ExecutedState is total on every Fold whose sublores carry 0..=3 descriptors
#[cfg(test)]
mod verif_native_display {
    use super::*;

    #[test]
    fn display_is_total_on_malformed_fold() {
        let mut cases = 0u64;
        for n_lores in 0..=2usize {
            for n_desc in 0..=3usize {
                let descs: Vec<SubTraceDesc> = (0..n_desc).map(|k| SubTraceDesc::new(TracePos::from(k as u32), k)).collect();
                let lore: Vec<FoldSubTraceLore> = (0..n_lores)
                    .map(|k| FoldSubTraceLore { value_pos: TracePos::from(k as u32), subtraces_desc: descs.clone() })
                    .collect();
                let state = ExecutedState::Fold(FoldResult { lore });
                let shown = std::panic::catch_unwind(std::panic::AssertUnwindSafe(|| format!("{state}")));
                if shown.is_err() {
                    println!("VERIF-JOB C01.display FAIL fold with {n_lores} sublore(s) of {n_desc} descriptor(s)");
                    panic!("Display panicked");
                }
                cases += 1;
            }
        }
        println!("VERIF-JOB C01.display CASES {cases}");
    }
}
