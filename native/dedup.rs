// appended to air/src/farewell_step/outcome.rs (native job C19.dedup): bounded exhaustive
#[cfg(test)]
mod verif_native_dedup {
    use super::dedup;
    use std::collections::BTreeSet;

    #[test]
    fn dedup_is_set() {
        let alphabet = ["a", "b", "c"];
        let mut cases = 0u64;
        let max_len = if std::env::var("VERIF_TIER").map(|v| v == "thorough").unwrap_or(false) { 7usize } else { 5 };
        for len in 0..=max_len {
            let total = alphabet.len().pow(len as u32);
            for mut code in 0..total {
                let mut v: Vec<String> = Vec::new();
                for _ in 0..len {
                    v.push(alphabet[code % alphabet.len()].to_string());
                    code /= alphabet.len();
                }
                let out = dedup(v.clone());
                let set_in: BTreeSet<_> = v.iter().cloned().collect();
                let set_out: BTreeSet<_> = out.iter().cloned().collect();
                if set_in != set_out || out.len() != set_out.len() {
                    println!("VERIF-JOB C19.dedup FAIL {v:?} -> {out:?}");
                    panic!("dedup({v:?}) = {out:?}");
                }
                cases += 1;
            }
        }
        println!("VERIF-JOB C19.dedup CASES {cases}");
    }
}
