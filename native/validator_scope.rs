// appended to crates/air-lib/air-parser/src/parser/air_parser.rs (native jobs C23.scope.*): bounded stand-in for the scoping half of
// C23 on the REAL parser + validator. Every script up to a small number of instructions is generated from a grammar of instructions over
// the names x, y (scalars / iterators), $s, #c, %m, #%cm; an ORACLE written from the property statement (not from validator.rs) walks the
// generator's own tree in text order and decides "every variable used is defined earlier in the text or is the iterator of an enclosing fold,
// and every next names the iterator of an enclosing fold". Seven jobs share one enumeration:
//   C23.scope.undefined            no accepted script uses, in an operand the validator inspects, a name that no earlier operand defines and
//                                  that is the iterator of no fold starting earlier (the validator itself would have to report it)
//   C23.scope.iterator_after_fold  no accepted script uses a fold iterator outside its fold (after it) in an operand the validator inspects
//   C23.scope.next                 no accepted script has a next whose iterator is not the iterator of an enclosing fold
//   C23.scope.unrouted             no accepted script uses a name that is neither defined earlier nor the iterator of a fold starting earlier in an
//                                  operand the validator never inspects (peer of canon, value of ap-into-map, the scalar of a %last_error% lens)
//   C23.scope.unrouted_iterator_after_fold   the cross term: a fold iterator used after its fold in such an operand (needs both repairs)
//   C23.scope.unrouted_fail        the same for the one operand of `fail` (any name that is not in scope, iterator of an earlier fold or not)
//   C23.scope.tree                 the tree of an accepted script contains no `Instruction::Error`; the public `parse` agrees with the decision
// Each job fails exactly when some accepted script has a violation of ITS class and prints the smallest such script (FAIL line) and one line
// per sub-class `<instruction>.<operand>:<reason>`. Well-scoped scripts that are REJECTED are counted with the first error kind (expected:
// the validator has extra rules), as are accepted scripts whose canon reads a stream that is not defined earlier (deliberately unchecked).
// Why this file and not lib.rs: `parse` prints a diagnostic to stderr for every rejected script (hundreds of thousands here), so the decision
// is taken by the six lines of `parse` that precede the report (`decide` below: same PARSER, lexer, validator, `finalize`, accept condition);
// `finalize` is pub(super) and PARSER private, both visible from a child module of air_parser.rs only. The public `parse` is called on every
// accepted script and on every 997th rejected one and must agree.
#[cfg(test)]
mod verif_native_validator_scope {
    use super::super::lexer::AIRLexer;
    use super::super::VariableValidator;
    use crate::ast::Instruction;
    use std::collections::BTreeMap;
    use std::collections::BTreeSet;
    use std::rc::Rc;

    #[derive(Clone, Copy, PartialEq, Eq, PartialOrd, Ord, Debug)]
    enum Class {
        Undefined,
        IteratorAfterFold,
        Next,
        Unrouted,
        UnroutedIteratorAfterFold,
        UnroutedFail,
    }

    #[derive(Clone)]
    enum Ev {
        // a variable operand: name, operand slot, does the validator inspect this operand at all
        Use(&'static str, &'static str, bool),
        // the source stream of canon: a use the validator deliberately leaves unchecked ("empty streams are considered to be empty")
        CanonSource(&'static str),
        Def(&'static str),
        Next(&'static str),
    }

    struct Node {
        kind: &'static str,
        // text up to the first child (or the whole text but the closing bracket, for a leaf)
        head: String,
        // what the instruction's own operands do, in text order; they all precede the children in the text
        events: Vec<Ev>,
        // Some(iterator) for a fold: in scope in the children only
        fold_iterator: Option<&'static str>,
        children: Vec<Rc<Node>>,
    }

    impl Node {
        fn text(&self, out: &mut String) {
            out.push_str(&self.head);
            for c in &self.children {
                out.push(' ');
                c.text(out);
            }
            out.push(')');
        }
    }

    fn leaf(kind: &'static str, head: String, events: Vec<Ev>) -> Rc<Node> {
        Rc::new(Node { kind, head, events, fold_iterator: None, children: vec![] })
    }

    // ------------------------------------------------------------------ operands
    #[derive(Clone, Copy)]
    enum Op {
        Lit(&'static str),
        Var(&'static str),
        // name.$.[scalar]
        Lens(&'static str, &'static str),
        // %last_error%.$.[scalar]
        LastErrorLens(&'static str),
    }

    impl Op {
        fn text(&self) -> String {
            match self {
                Op::Lit(t) => t.to_string(),
                Op::Var(n) => n.to_string(),
                Op::Lens(n, a) => format!("{n}.$.[{a}]"),
                Op::LastErrorLens(a) => format!("%last_error%.$.[{a}]"),
            }
        }
        fn uses(&self, slot: &'static str, lens_slot: &'static str, routed: bool, out: &mut Vec<Ev>) {
            match self {
                Op::Lit(_) => {}
                Op::Var(n) => out.push(Ev::Use(n, slot, routed)),
                Op::Lens(n, a) => {
                    out.push(Ev::Use(n, slot, routed));
                    out.push(Ev::Use(a, lens_slot, routed));
                }
                Op::LastErrorLens(a) => out.push(Ev::Use(a, "last-error-lens-scalar", false)),
            }
        }
    }

    // ------------------------------------------------------------------ grammar
    // `core`: the reduced alphabet, used two instructions further than the full one
    fn leaves(core: bool) -> Vec<Rc<Node>> {
        let mut v = vec![];
        let args: &[Op] = if core {
            &[Op::Lit(""), Op::Var("x"), Op::Var("y")]
        } else {
            &[Op::Lit(""), Op::Var("x"), Op::Var("y"), Op::Var("#c"), Op::Lens("x", "y"), Op::LastErrorLens("x")]
        };
        let outs: &[&'static str] = if core { &["", "x"] } else { &["", "x", "y", "$s"] };
        for a in args {
            for o in outs {
                let mut ev = vec![];
                a.uses("arg", "arg-lens-scalar", true, &mut ev);
                if !o.is_empty() {
                    ev.push(Ev::Def(o));
                }
                let sep = if o.is_empty() { "" } else { " " };
                v.push(leaf("call", format!(r#"(call "p" ("s" "f") [{}]{}{}"#, a.text(), sep, o), ev));
            }
        }
        if !core {
            v.push(leaf("call", r#"(call x ("s" "f") []"#.into(), vec![Ev::Use("x", "peer", true)]));
            v.push(leaf("call", r#"(call "p" (x "f") []"#.into(), vec![Ev::Use("x", "service", true)]));
            v.push(leaf("call", r#"(call "p" ("s" x) []"#.into(), vec![Ev::Use("x", "function", true)]));
        }
        let ap_args: &[Op] = if core { &[Op::Var("x")] } else { &[Op::Lit("1"), Op::Var("x"), Op::Var("y"), Op::Var("#c")] };
        let ap_results: &[&'static str] = if core { &["y"] } else { &["x", "y", "$s"] };
        for a in ap_args {
            for r in ap_results {
                let mut ev = vec![];
                a.uses("arg", "arg-lens-scalar", true, &mut ev);
                ev.push(Ev::Def(r));
                v.push(leaf("ap", format!("(ap {} {}", a.text(), r), ev));
            }
        }
        if !core {
            for k in [Op::Lit("\"k\""), Op::Var("x")] {
                for val in [Op::Lit("1"), Op::Var("x")] {
                    let mut ev = vec![];
                    k.uses("key", "key-lens-scalar", true, &mut ev);
                    val.uses("value", "value-lens-scalar", false, &mut ev);
                    ev.push(Ev::Def("%m"));
                    v.push(leaf("ap-map", format!("(ap ({} {}) %m", k.text(), val.text()), ev));
                }
            }
            v.push(leaf("canon", r#"(canon "p" $s #c"#.into(), vec![Ev::CanonSource("$s"), Ev::Def("#c")]));
            v.push(leaf("canon-map", r#"(canon "p" %m #%cm"#.into(), vec![Ev::CanonSource("%m"), Ev::Def("#%cm")]));
            v.push(leaf("canon-map-scalar", r#"(canon x %m y"#.into(), vec![Ev::Use("x", "peer", false), Ev::CanonSource("%m"), Ev::Def("y")]));
            v.push(leaf("fail", "(fail x".into(), vec![Ev::Use("x", "value", false)]));
            v.push(leaf("fail", r#"(fail 1 "m""#.into(), vec![]));
        }
        v.push(leaf("canon", "(canon x $s #c".into(), vec![Ev::Use("x", "peer", false), Ev::CanonSource("$s"), Ev::Def("#c")]));
        v.push(leaf("next", "(next x".into(), vec![Ev::Next("x")]));
        v.push(leaf("next", "(next y".into(), vec![Ev::Next("y")]));
        v.push(leaf("null", "(null".into(), vec![]));
        v
    }

    // one-child instructions: (kind, head, events, fold iterator)
    fn unary(core: bool) -> Vec<(&'static str, String, Vec<Ev>, Option<&'static str>)> {
        let mut v = vec![];
        let news: &[&'static str] = if core { &["x"] } else { &["x", "y", "$s", "#c"] };
        for n in news {
            v.push(("new", format!("(new {n}"), vec![Ev::Def(n)], None));
        }
        v.push(("match", "(match x 1".into(), vec![Ev::Use("x", "left", true)], None));
        if !core {
            v.push(("match", "(match 1 y".into(), vec![Ev::Use("y", "right", true)], None));
            v.push(("mismatch", "(mismatch x 1".into(), vec![Ev::Use("x", "left", true)], None));
        }
        let iterables: &[Op] = if core { &[Op::Lit("[]"), Op::Var("x")] } else { &[Op::Lit("[]"), Op::Var("x"), Op::Var("y"), Op::Var("#c")] };
        for it in iterables {
            for iterator in ["x", "y"] {
                let mut ev = vec![];
                it.uses("iterable", "iterable-lens-scalar", true, &mut ev);
                v.push(("fold-scalar", format!("(fold {} {}", it.text(), iterator), ev, Some(iterator)));
            }
        }
        v.push(("fold-stream", "(fold $s x".into(), vec![Ev::Use("$s", "iterable", true)], Some("x")));
        if !core {
            v.push(("fold-stream", "(fold $s y".into(), vec![Ev::Use("$s", "iterable", true)], Some("y")));
            v.push(("fold-map", "(fold %m x".into(), vec![Ev::Use("%m", "iterable", true)], Some("x")));
        }
        v
    }

    fn binary(core: bool) -> &'static [&'static str] {
        if core { &["seq", "xor"] } else { &["seq", "par", "xor"] }
    }

    // all trees with exactly `size` instructions, fed to `f`; `memo[k]` holds the trees of size k (k < size)
    fn for_each_tree(core: bool, size: usize, memo: &[Vec<Rc<Node>>], f: &mut dyn FnMut(Rc<Node>)) {
        if size == 1 {
            for l in leaves(core) {
                f(l);
            }
            return;
        }
        for (kind, head, events, fold_iterator) in unary(core) {
            for child in &memo[size - 1] {
                f(Rc::new(Node { kind, head: head.clone(), events: events.clone(), fold_iterator, children: vec![child.clone()] }));
            }
        }
        for op in binary(core) {
            for left_size in 1..size - 1 {
                for l in &memo[left_size] {
                    for r in &memo[size - 1 - left_size] {
                        f(Rc::new(Node { kind: op, head: format!("({op}"), events: vec![], fold_iterator: None, children: vec![l.clone(), r.clone()] }));
                    }
                }
            }
        }
    }

    // ------------------------------------------------------------------ the oracle (from the property statement)
    fn collect(node: &Node, defs: &mut BTreeSet<&'static str>, iterators: &mut BTreeSet<&'static str>) {
        for e in &node.events {
            if let Ev::Def(n) = e {
                defs.insert(n);
            }
        }
        if let Some(i) = node.fold_iterator {
            iterators.insert(i);
        }
        for c in &node.children {
            collect(c, defs, iterators);
        }
    }

    struct Oracle {
        // names defined by an instruction operand textually before the current point
        defined: BTreeSet<&'static str>,
        // iterators of the enclosing folds
        enclosing: Vec<&'static str>,
        // iterators of all folds that start textually before the current point (enclosing or already closed): NOT part of the
        // property, only used to tell the classes apart
        earlier_folds: BTreeSet<&'static str>,
        all_defs: BTreeSet<&'static str>,
        all_iterators: BTreeSet<&'static str>,
        violations: Vec<(Class, String)>,
        unchecked_canon_sources: u64,
    }

    impl Oracle {
        fn walk(&mut self, node: &Node) {
            for e in &node.events {
                match e {
                    Ev::Use(n, slot, routed) => {
                        if !self.defined.contains(n) && !self.enclosing.contains(n) {
                            // a name that is the iterator of a fold starting earlier is what the validator's own rule (`<`) lets through
                            let class = match (self.earlier_folds.contains(n), *routed) {
                                // the operand of fail is its own class whatever the name is (recorded separately: upstream tests pin it)
                                (_, false) if node.kind == "fail" => Class::UnroutedFail,
                                (true, true) => Class::IteratorAfterFold,
                                (true, false) => Class::UnroutedIteratorAfterFold,
                                (false, false) => Class::Unrouted,
                                (false, true) => Class::Undefined,
                            };
                            let reason = if self.all_defs.contains(n) {
                                "defined-only-later"
                            } else if self.all_iterators.contains(n) {
                                "iterator-of-a-fold-that-does-not-enclose-the-use"
                            } else {
                                "never-defined"
                            };
                            self.violations.push((class, format!("{}.{}:{}", node.kind, slot, reason)));
                        }
                    }
                    Ev::CanonSource(n) => {
                        if !self.defined.contains(n) {
                            self.unchecked_canon_sources += 1;
                        }
                    }
                    Ev::Def(n) => {
                        self.defined.insert(n);
                    }
                    Ev::Next(n) => {
                        if !self.enclosing.contains(n) {
                            let reason = if self.all_iterators.contains(n) { "fold-does-not-enclose-it" } else { "no-such-fold" };
                            self.violations.push((Class::Next, format!("next.iterator:{}", reason)));
                        }
                    }
                }
            }
            if let Some(i) = node.fold_iterator {
                self.enclosing.push(i);
                self.earlier_folds.insert(i);
            }
            for c in &node.children {
                self.walk(c);
            }
            if node.fold_iterator.is_some() {
                self.enclosing.pop();
            }
        }
    }

    fn oracle(node: &Node) -> (Vec<(Class, String)>, u64) {
        let mut all_defs = BTreeSet::new();
        let mut all_iterators = BTreeSet::new();
        collect(node, &mut all_defs, &mut all_iterators);
        let mut o = Oracle { defined: BTreeSet::new(), enclosing: vec![], earlier_folds: BTreeSet::new(), all_defs, all_iterators, violations: vec![], unchecked_canon_sources: 0 };
        o.walk(node);
        (o.violations, o.unchecked_canon_sources)
    }

    // ------------------------------------------------------------------ the subject
    // the decision of `parse` (the lines before the report), Ok(tree) = accepted, Err(kind of the first error) = rejected
    fn decide(text: &str) -> Result<Instruction<'_>, String> {
        super::PARSER.with(|parser| {
            let mut errors = Vec::new();
            let lexer = AIRLexer::new(text);
            let mut validator = VariableValidator::new();
            let result = parser.parse(text, &mut errors, &mut validator, lexer);
            let validator_errors = validator.finalize();
            errors.extend(validator_errors);
            match result {
                Ok(r) if errors.is_empty() => Ok(r),
                Ok(_) => {
                    let d = format!("{:?}", errors[0].error);
                    let d = d.trim_start_matches("User { error: ");
                    Err(d.split(|c: char| !c.is_alphanumeric()).next().unwrap_or("?").to_string())
                }
                Err(e) => Err(format!("fatal {:?}", e).chars().take(40).collect()),
            }
        })
    }

    fn has_error_node(i: &Instruction<'_>) -> bool {
        match i {
            Instruction::Error => true,
            Instruction::Seq(s) => has_error_node(&s.0) || has_error_node(&s.1),
            Instruction::Par(s) => has_error_node(&s.0) || has_error_node(&s.1),
            Instruction::Xor(s) => has_error_node(&s.0) || has_error_node(&s.1),
            Instruction::Match(m) => has_error_node(&m.instruction),
            Instruction::MisMatch(m) => has_error_node(&m.instruction),
            Instruction::New(n) => has_error_node(&n.instruction),
            Instruction::FoldScalar(f) => has_error_node(&f.instruction) || f.last_instruction.as_ref().map(|l| has_error_node(l)).unwrap_or(false),
            Instruction::FoldStream(f) => has_error_node(&f.instruction) || f.last_instruction.as_ref().map(|l| has_error_node(l)).unwrap_or(false),
            Instruction::FoldStreamMap(f) => has_error_node(&f.instruction) || f.last_instruction.as_ref().map(|l| has_error_node(l)).unwrap_or(false),
            Instruction::Call(_) | Instruction::Ap(_) | Instruction::ApMap(_) | Instruction::Canon(_) | Instruction::CanonMap(_)
            | Instruction::CanonStreamMapScalar(_) | Instruction::Fail(_) | Instruction::Never(_) | Instruction::Next(_) | Instruction::Null(_) => false,
        }
    }

    #[derive(Default)]
    struct Tally {
        cases: u64,
        full_cases: u64,
        accepted: u64,
        accepted_with_unchecked_canon_source: u64,
        // (class, sub-class) -> (number of accepted scripts with such a violation, the first = smallest one)
        ill_scoped_accepted: BTreeMap<(Class, String), (u64, String)>,
        // class -> smallest accepted script with a violation of that class, preferring scripts with a single violation
        first_of_class: BTreeMap<Class, (usize, String)>,
        well_scoped_rejected: u64,
        well_scoped_rejected_by: BTreeMap<String, (u64, String)>,
        tree_failure: Option<String>,
    }

    fn check(node: &Node, t: &mut Tally) {
        let mut text = String::new();
        node.text(&mut text);
        let (violations, canon_sources) = oracle(node);
        t.cases += 1;
        match decide(&text) {
            Ok(tree) => {
                t.accepted += 1;
                if canon_sources > 0 {
                    t.accepted_with_unchecked_canon_source += 1;
                }
                if has_error_node(&tree) && t.tree_failure.is_none() {
                    t.tree_failure = Some(format!("accepted with an Instruction::Error node: {text}"));
                }
                if super::parse(&text).is_err() && t.tree_failure.is_none() {
                    t.tree_failure = Some(format!("parse() rejects what its own decision lines accept: {text}"));
                }
                let mut seen = BTreeSet::new();
                for (class, sub) in &violations {
                    if seen.insert((*class, sub.clone())) {
                        let e = t.ill_scoped_accepted.entry((*class, sub.clone())).or_insert((0, text.clone()));
                        e.0 += 1;
                    }
                    // scripts come in order of size: keep the first, but let a script with fewer violations of the same size class win
                    match t.first_of_class.get(class) {
                        Some((n, first)) if *n <= violations.len() || first.len() < text.len() => {}
                        _ => {
                            t.first_of_class.insert(*class, (violations.len(), text.clone()));
                        }
                    }
                }
            }
            Err(kind) => {
                if violations.is_empty() {
                    t.well_scoped_rejected += 1;
                    let e = t.well_scoped_rejected_by.entry(kind).or_insert((0, text.clone()));
                    e.0 += 1;
                }
                if t.cases % 997 == 0 && super::parse(&text).is_ok() && t.tree_failure.is_none() {
                    t.tree_failure = Some(format!("parse() accepts what its own decision lines reject: {text}"));
                }
            }
        }
    }

    // checks the trees of `min_size..=max_size` instructions (the smaller ones are only built)
    fn run(core: bool, min_size: usize, max_size: usize, t: &mut Tally) {
        let mut memo: Vec<Vec<Rc<Node>>> = vec![vec![]];
        for size in 1..=max_size {
            let keep = size < max_size;
            let mut level = vec![];
            for_each_tree(core, size, &memo, &mut |n| {
                if size >= min_size {
                    check(&n, t);
                }
                if keep {
                    level.push(n);
                }
            });
            memo.push(level);
        }
    }

    // the enumeration is done once per test process (the jobs run with --test-threads 1, OnceLock also serialises parallel callers)
    static TALLY: std::sync::OnceLock<Tally> = std::sync::OnceLock::new();

    fn tally() -> &'static Tally {
        TALLY.get_or_init(|| {
            let thorough = std::env::var("VERIF_TIER").map(|v| v == "thorough").unwrap_or(false);
            let mut t = Tally::default();
            // full alphabet up to 3 (thorough: 4) instructions, reduced alphabet two instructions further; the thorough tier goes through
            // the quick tier's scripts first, in the same order, so that the script named in a FAIL line does not depend on the tier
            run(false, 1, 3, &mut t);
            t.full_cases = t.cases;
            run(true, 1, 5, &mut t);
            if thorough {
                let n = t.cases;
                run(false, 4, 4, &mut t);
                t.full_cases += t.cases - n;
                run(true, 6, 6, &mut t);
            }
            t
        })
    }

    fn report(job: &str, class: Class) {
        let t = tally();
        println!("VERIF-JOB {job} INFO {} scripts over the full alphabet + {} over the reduced one; {} accepted", t.full_cases, t.cases - t.full_cases, t.accepted);
        for ((c, sub), (n, example)) in &t.ill_scoped_accepted {
            if *c == class {
                println!("VERIF-JOB {job} INFO ill-scoped but ACCEPTED, {sub}: {n} scripts, smallest {example}");
            }
        }
        if let Some((_, first)) = t.first_of_class.get(&class) {
            println!("VERIF-JOB {job} FAIL {first}");
            panic!("an accepted script is not well-scoped ({class:?}): {first}");
        }
        println!("VERIF-JOB {job} CASES {}", t.cases);
    }

    #[test]
    fn scope_undefined() {
        report("C23.scope.undefined", Class::Undefined);
    }

    #[test]
    fn scope_iterator_after_fold() {
        report("C23.scope.iterator_after_fold", Class::IteratorAfterFold);
    }

    #[test]
    fn scope_next() {
        report("C23.scope.next", Class::Next);
    }

    #[test]
    fn scope_unrouted() {
        report("C23.scope.unrouted", Class::Unrouted);
    }

    #[test]
    fn scope_unrouted_iterator_after_fold() {
        report("C23.scope.unrouted_iterator_after_fold", Class::UnroutedIteratorAfterFold);
    }

    #[test]
    fn scope_unrouted_fail() {
        report("C23.scope.unrouted_fail", Class::UnroutedFail);
    }

    #[test]
    fn scope_tree() {
        let job = "C23.scope.tree";
        let t = tally();
        println!("VERIF-JOB {job} INFO accepted {} of {} scripts; {} accepted scripts read a canon source stream/map that is not defined earlier (deliberately unchecked by the validator, not counted as a violation)",
            t.accepted, t.cases, t.accepted_with_unchecked_canon_source);
        println!("VERIF-JOB {job} INFO well-scoped but rejected: {}", t.well_scoped_rejected);
        for (kind, (n, example)) in &t.well_scoped_rejected_by {
            println!("VERIF-JOB {job} INFO   rejected-by {kind}: {n}, e.g. {example}");
        }
        if let Some(f) = &t.tree_failure {
            println!("VERIF-JOB {job} FAIL {f}");
            panic!("{f}");
        }
        println!("VERIF-JOB {job} CASES {}", t.cases);
    }
}
