// appended to crates/air-lib/interpreter-sede/src/multiformat.rs
// native job C27.roundtrip (bounded grid): decode_multiformat(encode_multiformat(v, codec), expected) with the real
// unsigned_varint, for codec, expected over the varint length boundaries and the codecs the interpreter really uses (0x0200 JSON,
// 0x0201 MessagePack, their neighbour 0x0202): a tag other than the expected one is Err(Codec(tag)) whatever it is; truncated input => Err(VarInt)
#[cfg(test)]
mod verif_native_multiformat {
    use super::*;

    struct ByteFormat;
    impl Format<u8> for ByteFormat {
        type SerializationError = std::io::Error;
        type DeserializationError = String;
        type WriteError = std::io::Error;
        fn to_vec(&self, val: &u8) -> Result<Vec<u8>, Self::SerializationError> { Ok(vec![*val]) }
        fn from_slice(&self, slice: &[u8]) -> Result<u8, Self::DeserializationError> {
            if slice.len() == 1 { Ok(slice[0]) } else { Err(format!("len {}", slice.len())) }
        }
        fn to_writer<W: std::io::Write>(&self, value: &u8, write: &mut W) -> Result<(), Self::WriteError> { write.write_all(&[*value]) }
    }

    #[test]
    fn multiformat_round_trip_on_boundaries() {
        let grid: Vec<u32> = vec![0, 1, 126, 127, 128, 129, 0x0200, 0x0201, 0x0202, 16383, 16384, 16385, 2097151, 2097152, 268435455, 268435456, u32::MAX - 1, u32::MAX];
        let mut cases = 0u64;
        for &codec in &grid {
            for &expected in &grid {
                for value in [0u8, 1, 0x7f, 0x80, 0xff] {
                    let bytes = encode_multiformat(&value, codec, &ByteFormat).unwrap();
                    let decoded = decode_multiformat::<u8, _>(&bytes, expected, &ByteFormat);
                    let ok = match (&decoded, codec == expected) {
                        (Ok(v), true) => *v == value,
                        (Err(DecodeError::Codec(c)), false) => *c == codec,
                        _ => false,
                    };
                    if !ok {
                        println!("VERIF-JOB C27.roundtrip FAIL codec={codec} expected={expected} value={value}: {:?}", decoded.map_err(|e| e.to_string()));
                        panic!("round trip");
                    }
                    // a truncated codec prefix is an error, never a misread
                    if bytes.len() > 2 {
                        let cut = &bytes[..bytes.len() - 2];
                        if let Ok(v) = decode_multiformat::<u8, _>(cut, codec, &ByteFormat) {
                            println!("VERIF-JOB C27.roundtrip FAIL truncated input codec={codec} decoded to {v}");
                            panic!("truncated input accepted");
                        }
                    }
                    cases += 1;
                }
            }
        }
        // a tag beyond the u32 range is another codec too: it must be rejected, not truncated to a known one
        for high in [0x10u8, 0x20, 0x40, 0x70] {
            let foreign: Vec<u8> = vec![0x81, 0x84, 0x80, 0x80, high, 7];   // varint(0x0201 + (high >> 4) * 2^32), then one payload byte
            if let Ok(v) = decode_multiformat::<u8, _>(&foreign, 0x0201, &ByteFormat) {
                println!("VERIF-JOB C27.roundtrip FAIL a payload tagged 0x{:x}_0000_0201 (bytes {foreign:02x?}) decodes as codec 0x0201: Ok({v})", high >> 4);
                panic!("tag beyond u32 misread");
            }
            cases += 1;
        }
        println!("VERIF-JOB C27.roundtrip CASES {cases}");
    }

    // native job C27.varint_all (thorough tier): the round-trip law assumed by unit multiformat (axiom_varint_round_trip), on the real
    // unsigned_varint, for EVERY u32 tag (complete in n) and three tails (bounded in `rest`): decode::u32(encode::u32(n) ++ rest) = (n, rest)
    #[test]
    fn varint_round_trip_every_u32() {
        let threads = 16u64;
        let handles: Vec<_> = (0..threads).map(|t| std::thread::spawn(move || {
            let lo = (1u64 << 32) * t / threads;
            let hi = (1u64 << 32) * (t + 1) / threads;
            let mut buf = unsigned_varint::encode::u32_buffer();
            let mut cases = 0u64;
            for n in lo..hi {
                let n = n as u32;
                let enc = unsigned_varint::encode::u32(n, &mut buf);
                let len = enc.len();
                let mut bytes = [0u8; 8];
                bytes[..len].copy_from_slice(enc);
                for rest in [&[][..], &[0x80u8, 0x01][..], &[0xffu8][..]] {
                    bytes[len..len + rest.len()].copy_from_slice(rest);
                    match unsigned_varint::decode::u32(&bytes[..len + rest.len()]) {
                        Ok((m, r)) if m == n && r == rest => {}
                        other => {
                            println!("VERIF-JOB C27.varint_all FAIL n={n} rest={rest:02x?}: decode(encode(n) ++ rest) = {:?}", other.map_err(|e| e.to_string()));
                            panic!("varint round trip");
                        }
                    }
                    cases += 1;
                }
            }
            cases
        })).collect();
        let cases: u64 = handles.into_iter().map(|h| h.join().expect("worker")).sum();
        println!("VERIF-JOB C27.varint_all CASES {cases}");
    }
}
