// appended to crates/air-lib/interpreter-cid/src/verify.rs
// native job C25.adversarial_ids (bounded): verification accepts EXACTLY the ids whose full digest matches. For a few values, both
// digest functions, every id derived from the genuine one by cutting the digest to 0..=31 bytes, by appending 1..=3 bytes, or by
// flipping one bit of one byte must be rejected by verify_value and verify_raw_value, and the genuine id must be accepted
// (real cid / multihash crates, real SHA2-256 and BLAKE3).
#[cfg(test)]
mod verif_native_cid_adversarial {
    use super::{verify_raw_value, verify_value};
    use crate::{CID, JSON_CODEC};
    use multihash_codetable::{Code, MultihashDigest};

    type Multihash = multihash::Multihash<64>;

    fn text_of(code: u64, digest: &[u8]) -> String {
        let mh = Multihash::wrap(code, digest).unwrap();
        cid::Cid::new(cid::Version::V1, JSON_CODEC, mh).unwrap().to_string()
    }

    #[test]
    fn only_the_full_digest_verifies() {
        let texts: [&str; 5] = ["1", "null", "\"evil\"", "[1,2,{\"a\":null}]", "{\"any\":[\"value\",null]}"];
        let mut cases = 0u64;
        let fail = |what: String| -> ! { println!("VERIF-JOB C25.adversarial_ids FAIL {what}"); panic!("{what}") };
        for text in texts {
            let value: serde_json::Value = serde_json::from_str(text).unwrap();
            for hasher in [Code::Sha2_256, Code::Blake3_256] {
                let genuine = hasher.digest(text.as_bytes());
                let code = genuine.code();
                let digest = genuine.digest().to_vec();
                let check = |what: &str, d: &[u8], must_accept: bool, cases: &mut u64| {
                    let id = text_of(code, d);
                    let a = verify_value(&CID::new(id.as_str()), &value).is_ok();
                    let b = verify_raw_value(&CID::<serde_json::Value>::new(id.as_str()), text.as_bytes()).is_ok();
                    if a != must_accept || b != must_accept {
                        fail(format!("value {text} hash {hasher:?} id {id} ({what}, digest of {} bytes): verify_value accepts = {a}, verify_raw_value accepts = {b}, expected {must_accept}", d.len()));
                    }
                    *cases += 2;
                };
                check("the genuine id", &digest, true, &mut cases);
                for len in 0..digest.len() {
                    check("digest cut short", &digest[..len], false, &mut cases);
                }
                for extra in 1..=3usize {
                    let mut d = digest.clone();
                    d.extend(std::iter::repeat(0u8).take(extra));
                    check("digest with bytes appended", &d, false, &mut cases);
                }
                for at in 0..digest.len() {
                    let mut d = digest.clone();
                    d[at] ^= 1 << (at % 8);
                    check("one bit flipped", &d, false, &mut cases);
                }
            }
        }
        println!("VERIF-JOB C25.adversarial_ids CASES {cases}");
    }
}
