// appended to crates/air-lib/interpreter-data/src/trace_pos.rs
// native job C01.tracepos (bounded grid): the operators newtype_derive generates for TracePos behave as the Verus shim of
// units/slider.rs says: `+`, `-`, `+=` panic exactly on u32 overflow/underflow, From/Into are the identity, checked_add.
#[cfg(test)]
mod verif_native_tracepos {
    use super::*;
    use num_traits::CheckedAdd;
    use std::panic::{catch_unwind, AssertUnwindSafe};

    #[test]
    fn operators_match_the_shim() {
        let grid: Vec<u32> = vec![0, 1, 2, 1 << 16, (1 << 31) - 1, 1 << 31, u32::MAX - 2, u32::MAX - 1, u32::MAX];
        let mut cases = 0u64;
        let fail = |what: String| -> ! { println!("VERIF-JOB C01.tracepos FAIL {what}"); panic!("{what}") };
        for &a in &grid {
            for &b in &grid {
                let pa = TracePos::from(a);
                let pb = TracePos::from(b);
                if u32::from(pa) != a || usize::from(pa) != a as usize { fail(format!("From/Into {a}")); }
                let add = catch_unwind(AssertUnwindSafe(|| pa + b));
                match (add, a.checked_add(b)) {
                    (Ok(r), Some(s)) if u32::from(r) == s => {}
                    (Err(_), None) => {}
                    _ => fail(format!("{a} + {b}")),
                }
                let sub = catch_unwind(AssertUnwindSafe(|| pa - pb));
                match (sub, a.checked_sub(b)) {
                    (Ok(r), Some(s)) if u32::from(r) == s => {}
                    (Err(_), None) => {}
                    _ => fail(format!("{a} - {b}")),
                }
                let add_assign = catch_unwind(AssertUnwindSafe(|| { let mut x = pa; x += b; x }));
                match (add_assign, a.checked_add(b)) {
                    (Ok(r), Some(s)) if u32::from(r) == s => {}
                    (Err(_), None) => {}
                    _ => fail(format!("{a} += {b}")),
                }
                if pa.checked_add(&pb).map(u32::from) != a.checked_add(b) { fail(format!("checked_add {a} {b}")); }
                if (pa < pb) != (a < b) || (pa == pb) != (a == b) || (pa >= pb) != (a >= b) { fail(format!("ordering {a} {b}")); }
                cases += 1;
            }
        }
        println!("VERIF-JOB C01.tracepos CASES {cases}");
    }
}
