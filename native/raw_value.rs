// appended to crates/air-lib/interpreter-data/src/raw_value.rs
// native job C01.raw_value (bounded): RawValue::get_value on every raw text of length <= 2 over a small alphabet.
// A value store entry only has to hash to its CID (verify_raw_value); nothing checks that it is JSON (F4).
#[cfg(test)]
mod verif_native_raw_value {
    use super::*;
    use std::panic::{catch_unwind, AssertUnwindSafe};

    #[test]
    fn get_value_is_total() {
        let alphabet = ['1', '"', '[', ']', 'x', ' '];
        let mut texts: Vec<String> = vec![String::new()];
        for a in alphabet { texts.push(a.to_string()); for b in alphabet { texts.push(format!("{a}{b}")); } }
        let mut cases = 0u64;
        let mut failing: Vec<String> = vec![];
        for text in &texts {
            let value = RawValue { raw: text.as_str().into(), parsed: RefCell::new(None) };
            let is_json = serde_json::from_str::<serde_json::Value>(text).is_ok();
            let got = catch_unwind(AssertUnwindSafe(|| value.get_value()));
            if got.is_err() { failing.push(text.clone()); }
            else if !is_json { println!("VERIF-JOB C01.raw_value FAIL get_value accepted non-JSON text {text:?}"); panic!("accepted non-JSON"); }
            cases += 1;
        }
        if !failing.is_empty() {
            println!("VERIF-JOB C01.raw_value FAIL RawValue::get_value panics on every raw text that is not JSON ({} of {cases} texts, first {:?})", failing.len(), failing[0]);
            panic!("get_value panicked");
        }
        println!("VERIF-JOB C01.raw_value CASES {cases}");
    }
}
