// appended to crates/air-lib/interpreter-value/src/value/mod.rs
// native job C26.roundtrip (bounded): the interpreter's JValue against serde_json::Value, through the REAL serde_json printer / parser.
// Values: every JSON value of nesting depth <= 2 with <= 2 children per node over the boundary atoms below
//   numbers  i64::MIN, -1, 0, 1, i64::MAX, i64::MAX+1, u64::MAX, 0.5, -0.0, 1e300, 1e-7, f64::MAX, f64::MIN_POSITIVE
//   strings  "", "a", quotes/backslash/control characters, U+0000, U+001F, U+007F, Cyrillic + check mark, an astral code point, U+2028
//   keys     "a", an escaped key, a unicode key
// (children of composite nodes are drawn from a reduced atom set; thorough tier: a third child, a denser depth-2 sample, a thin depth-3 sample).
// For each value v:  JValue::from(&v) prints exactly as v (compact, pretty, Display, {:#}); parsing the text gives the same JValue back;
// a second serializer / deserializer (serde_json::value) gives the same; accessors, indexing, pointer and scalar comparisons agree
// with serde_json::Value's; for each pair, JValue equality agrees with Value equality.  Plus the scalar / collection `From` impls.
#[cfg(test)]
mod verif_native_jvalue {
    use super::*;
    use serde_json::json;
    use serde_json::Value;
    use std::borrow::Cow;
    use std::collections::HashMap;

    const ID: &str = "C26.roundtrip";

    fn fail(what: String) -> ! {
        println!("VERIF-JOB {ID} FAIL {what}");
        panic!("{what}")
    }

    fn numbers() -> Vec<Value> {
        vec![
            json!(i64::MIN), json!(-1), json!(0), json!(1), json!(i64::MAX), json!(i64::MAX as u64 + 1), json!(u64::MAX),
            json!(0.5), json!(-0.0), json!(1e300), json!(1.0e-7), json!(f64::MAX), json!(f64::MIN_POSITIVE),
        ]
    }

    fn strings() -> Vec<&'static str> {
        vec!["", "a", "\"q\" \\ / \n\t\u{8}\u{c}\r", "\u{0}\u{1f}\u{7f}", "юникод ✓", "\u{1F600}", "\u{2028}\u{80}"]
    }

    fn atoms() -> Vec<Value> {
        let mut v = vec![json!(null), json!(true), json!(false)];
        v.extend(numbers());
        v.extend(strings().into_iter().map(|s| json!(s)));
        v
    }

    fn small_atoms() -> Vec<Value> {
        vec![json!(null), json!(true), json!(i64::MIN), json!(u64::MAX), json!(0.5), json!("\"\\\n\u{1}"), json!("ю✓\u{1F600}")]
    }

    fn keys() -> Vec<&'static str> {
        vec!["a", "\"k\\\n", "ключ✓"]
    }

    fn obj(entries: &[(&str, &Value)]) -> Value {
        let mut m = serde_json::Map::new();
        for (k, v) in entries {
            m.insert((*k).to_string(), (*v).clone());
        }
        Value::Object(m)
    }

    // composite values with <= `width` children taken from `kids`
    fn composites(kids: &[Value], width: usize) -> Vec<Value> {
        let ks = keys();
        let mut out = vec![json!([]), json!({})];
        for a in kids {
            out.push(json!([a]));
            for k in &ks {
                out.push(obj(&[(k, a)]));
            }
        }
        for a in kids {
            for b in kids {
                out.push(json!([a, b]));
                out.push(obj(&[(ks[0], a), (ks[1], b)]));
                out.push(obj(&[(ks[2], a), (ks[0], b)])); // inserted out of key order
            }
        }
        if width >= 3 {
            for a in kids.iter().step_by(2) {
                for b in kids.iter().step_by(3) {
                    for c in kids.iter().step_by(2) {
                        out.push(json!([a, b, c]));
                        out.push(obj(&[(ks[1], a), (ks[2], b), (ks[0], c)]));
                    }
                }
            }
        }
        out
    }

    fn values(thorough: bool) -> Vec<Value> {
        let mut level1 = atoms();
        level1.extend(composites(&small_atoms(), if thorough { 3 } else { 2 }));
        // depth 2: children are a sample of level-1 values (every composite shape and a few atoms)
        let kids: Vec<Value> = level1.iter().step_by(if thorough { 7 } else { 11 }).cloned().collect();
        let mut out = level1.clone();
        // keys that need JSON-pointer escaping, an empty key, a nested array
        out.push(json!({"a/b": 1, "m~n": [10, 20], "": {"x": null}, "~1": true}));
        out.extend(composites(&kids, 2));
        if thorough {
            // depth 3, a thin sample
            let kids3: Vec<Value> = out.iter().step_by(601).cloned().collect();
            out.extend(composites(&kids3, 2));
        }
        out
    }

    fn check_value(v: &Value) -> u64 {
        let jv = JValue::from(v);
        let show = || serde_json::to_string(v).unwrap();
        // printing: compact, pretty, Display, {:#}
        let text = serde_json::to_string(v).unwrap();
        match serde_json::to_string(&jv) {
            Ok(t) if t == text => {}
            other => fail(format!("value={text}: JValue prints {other:?}")),
        }
        let pretty = serde_json::to_string_pretty(v).unwrap();
        if serde_json::to_string_pretty(&jv).ok().as_deref() != Some(pretty.as_str()) { fail(format!("value={text}: pretty printing differs")); }
        if serde_json::to_vec(&jv).ok() != serde_json::to_vec(v).ok() { fail(format!("value={text}: to_vec differs")); }
        if jv.to_string() != v.to_string() { fail(format!("value={text}: Display gives {}", jv)); }
        if format!("{:#}", jv) != format!("{:#}", v) { fail(format!("value={text}: alternate Display differs")); }
        let _ = format!("{:?}", jv);
        // parsing: parse . print = id, and parsing agrees with serde_json's own parser followed by the conversion
        for t in [&text, &pretty] {
            match serde_json::from_str::<JValue>(t) {
                Ok(back) if back == jv => {}
                other => fail(format!("value={text}: parsing its text gives {:?}", other.map(|b| b.to_string()).map_err(|e| e.to_string()))),
            }
            let reparsed: Value = serde_json::from_str(t).unwrap();
            if JValue::from(&reparsed) != jv { fail(format!("value={text}: serde_json parse + conversion differs from conversion")); }
        }
        if serde_json::from_slice::<JValue>(text.as_bytes()).ok().as_ref() != Some(&jv) { fail(format!("value={text}: from_slice differs")); }
        // a second serializer and a second deserializer (serde_json::value): the data-model layer without text
        match serde_json::to_value(&jv) {
            Ok(back) if back == *v => {}
            other => fail(format!("value={text}: to_value gives {other:?}")),
        }
        match serde_json::from_value::<JValue>(v.clone()) {
            Ok(back) if back == jv => {}
            other => fail(format!("value={text}: from_value gives {:?}", other.map(|b| b.to_string()).map_err(|e| e.to_string()))),
        }
        if JValue::from(v.clone()) != jv { fail(format!("value={text}: From<Value> differs from From<&Value>")); }
        // accessors
        let same = jv.is_null() == v.is_null() && jv.as_null() == v.as_null() && jv.is_boolean() == v.is_boolean() && jv.as_bool() == v.as_bool()
            && jv.is_number() == v.is_number() && jv.as_number() == v.as_number()
            && jv.is_i64() == v.is_i64() && jv.is_u64() == v.is_u64() && jv.is_f64() == v.is_f64()
            && jv.as_i64() == v.as_i64() && jv.as_u64() == v.as_u64()
            && jv.as_f64().map(f64::to_bits) == v.as_f64().map(f64::to_bits)
            && jv.is_string() == v.is_string() && jv.as_str().map(|s| &**s) == v.as_str()
            && jv.is_array() == v.is_array() && jv.as_array().map(|a| a.len()) == v.as_array().map(|a| a.len())
            && jv.is_object() == v.is_object() && jv.as_object().map(|o| o.len()) == v.as_object().map(|o| o.len());
        if !same { fail(format!("value={text}: an accessor disagrees with serde_json::Value")); }
        if let (Some(ja), Some(va)) = (jv.as_array(), v.as_array()) {
            for (j, w) in ja.iter().zip(va) { if *j != JValue::from(w) { fail(format!("value={text}: array element differs / out of order")); } }
        }
        if let (Some(jo), Some(vo)) = (jv.as_object(), v.as_object()) {
            for (k, w) in vo { if jo.get(k.as_str()) != Some(&JValue::from(w)) { fail(format!("value={text}: object entry {k:?} differs")); } }
            // iteration order = key order (what the printer relies on)
            if !jo.keys().map(|k| k.to_string()).eq(vo.keys().cloned()) { fail(format!("value={text}: object key order differs")); }
        }
        // indexing: arrays by position, objects by key, everything else None / Null
        for i in [0usize, 1, 2, usize::MAX] {
            if jv.get(i) != v.get(i).map(JValue::from).as_ref() { fail(format!("value={text}: get({i}) differs")); }
            if jv[i] != JValue::from(&v[i]) { fail(format!("value={text}: [{i}] differs")); }
        }
        for k in keys().into_iter().chain(["", "zz"]) {
            if jv.get(k) != v.get(k).map(JValue::from).as_ref() { fail(format!("value={text}: get({k:?}) differs")); }
            if jv[k] != JValue::from(&v[k]) || jv[k.to_string()] != JValue::from(&v[k]) || jv[&k] != JValue::from(&v[k]) { fail(format!("value={text}: [{k:?}] differs")); }
        }
        for p in ["", "/", "/0", "/1", "/01", "/+1", "/a", "/a/0", "/a/a", "/0/a", "/~0", "/a~1", "a", "/ключ✓", "/\"k\\\n", "/18446744073709551616",
            "/a~1b", "/m~0n", "/m~0n/1", "/m~0n/01", "/m~0n/+1", "/m~0n/2", "//x", "/~01", "/~1"] {
            if jv.pointer(p) != v.pointer(p).map(JValue::from).as_ref() { fail(format!("value={text}: pointer({p:?}) differs")); }
        }
        // comparing with scalars
        for x in [i64::MIN, -1, 0, 1, i64::MAX] {
            if (jv == x) != (*v == x) || (x == jv) != (x == *v) || (&jv == x) != (*v == x) { fail(format!("value={text}: == {x}i64 differs")); }
        }
        for x in [0u64, 1, i64::MAX as u64, i64::MAX as u64 + 1, u64::MAX] {
            if (jv == x) != (*v == x) || (x == jv) != (x == *v) { fail(format!("value={text}: == {x}u64 differs")); }
        }
        for x in [-1i8, 0, 1, i8::MAX] { if (jv == x) != (*v == x) { fail(format!("value={text}: == {x}i8 differs")); } }
        for x in [0u8, 1, u8::MAX] { if (jv == x) != (*v == x) { fail(format!("value={text}: == {x}u8 differs")); } }
        for x in [i32::MIN, -1, 0, 1] { if (jv == x) != (*v == x) { fail(format!("value={text}: == {x}i32 differs")); } }
        for x in [0usize, 1, usize::MAX] { if (jv == x) != (*v == x) { fail(format!("value={text}: == {x}usize differs")); } }
        for x in [0.0f64, -0.0, 0.5, 1.0, -1.0, 1e300, 1.0e-7, f64::MAX, f64::MIN_POSITIVE, i64::MIN as f64, u64::MAX as f64, f64::NAN, f64::INFINITY] {
            if (jv == x) != (*v == x) || (x == jv) != (x == *v) { fail(format!("value={text}: == {x}f64 differs")); }
        }
        // f32: the crate compares exactly (`as_f64() == other as f64`); serde_json rounds the value to f32 first. Exact comparison is the JSON reading.
        for x in [0.0f32, 0.5, 1.0, -1.0, 1.0e-7, f32::MAX, f32::NAN] {
            let want = v.as_f64().map_or(false, |f| f == x as f64);
            if (jv == x) != want { fail(format!("value={text}: == {x}f32 is not exact comparison")); }
        }
        for x in [true, false] { if (jv == x) != (*v == x) || (x == jv) != (x == *v) { fail(format!("value={text}: == {x} differs")); } }
        for s in strings() {
            if (jv == s) != (*v == s) || (jv == *s) != (*v == *s) || (jv == s.to_string()) != (*v == s.to_string()) || (s == jv) != (s == *v)
                || (s.to_string() == jv) != (s.to_string() == *v) { fail(format!("value={text}: == {s:?} differs")); }
        }
        // take
        let mut t = jv.clone();
        if t.take() != jv || t != JValue::Null { fail(format!("value={text}: take")); }
        let _ = show;
        1
    }

    fn check_scalar_conversions() -> u64 {
        let mut n = 0u64;
        macro_rules! ints { ($($ty:ident)*) => { $( for x in [$ty::MIN, 0 as $ty, 1 as $ty, $ty::MAX] {
            let jv = JValue::from(x);
            if jv != JValue::from(&json!(x)) || jv.to_string() != x.to_string() { fail(format!("From<{}>({x}) gives {jv}", stringify!($ty))); }
            n += 1;
        } )* } }
        ints!(i8 i16 i32 i64 isize u8 u16 u32 u64 usize);
        for x in [0.0f64, -0.0, 0.5, 1e300, 1.0e-7, f64::MAX, f64::MIN_POSITIVE, f64::NAN, f64::INFINITY, f64::NEG_INFINITY] {
            let jv = JValue::from(x);
            let want = Value::from(x);
            if jv != JValue::from(&want) || jv.is_null() != !x.is_finite() || jv.as_f64().map(f64::to_bits) != want.as_f64().map(f64::to_bits) { fail(format!("From<f64>({x}) gives {jv}")); }
            n += 1;
        }
        for x in [0.0f32, -0.0, 0.5, 1.0e-7, f32::MAX, f32::NAN, f32::INFINITY] {
            let jv = JValue::from(x);
            let want = if x.is_finite() { json!(x as f64) } else { Value::Null };
            if jv != JValue::from(&want) { fail(format!("From<f32>({x}) gives {jv}")); }
            n += 1;
        }
        for b in [true, false] { if JValue::from(b) != JValue::from(&json!(b)) { fail(format!("From<bool>({b})")); } n += 1; }
        for s in strings() {
            let want = JValue::from(&json!(s));
            let rc: JsonString = s.into();
            if JValue::from(s) != want || JValue::from(s.to_string()) != want || JValue::from(rc.clone()) != want || JValue::string(s) != want
                || JValue::from(Cow::Borrowed(s)) != want || JValue::from(Cow::<str>::Owned(s.to_string())) != want { fail(format!("string conversions of {s:?}")); }
            n += 1;
        }
        if JValue::from(()) != JValue::Null || JValue::default() != JValue::Null || JValue::from(None::<i64>) != JValue::Null
            || JValue::from(Some(7i64)) != JValue::from(7i64) { fail("unit / option / default".to_string()); }
        if JValue::from(serde_json::Number::from(7u64)) != JValue::from(7u64) { fail("From<Number>".to_string()); }
        // collections: element order kept, keys and values not mixed up
        let xs = vec![3i64, -1, i64::MAX];
        let want = JValue::from(&json!([3, -1, i64::MAX]));
        if JValue::from(xs.clone()) != want || JValue::from(&xs[..]) != want || xs.iter().cloned().collect::<JValue>() != want
            || JValue::array_from_iter(xs.clone()) != want || JValue::array(xs.iter().cloned().map(JValue::from).collect::<Vec<_>>()) != want { fail("array conversions".to_string()); }
        let pairs = vec![("b", 1i64), ("a", 2), ("ключ", 3)];
        let want = JValue::from(&json!({"a": 2, "b": 1, "ключ": 3}));
        let hm: HashMap<&str, i64> = pairs.iter().cloned().collect();
        let bm: Map<JsonString, JValue> = pairs.iter().map(|(k, v)| ((*k).into(), JValue::from(*v))).collect();
        if JValue::object_from_pairs(pairs.clone()) != want || pairs.iter().cloned().collect::<JValue>() != want || JValue::from(hm) != want
            || JValue::from(bm.clone()) != want || JValue::object(bm) != want { fail("object conversions".to_string()); }
        n + 2
    }

    #[test]
    fn jvalue_agrees_with_serde_json() {
        let thorough = std::env::var("VERIF_TIER").map(|v| v == "thorough").unwrap_or(false);
        let vals = values(thorough);
        let mut cases = 0u64;
        for v in &vals {
            cases += check_value(v);
        }
        // equality agrees with serde_json::Value's, pair by pair
        let jvs: Vec<JValue> = vals.iter().map(JValue::from).collect();
        let step = if thorough { 2 } else { 3 };
        for (i, v) in vals.iter().enumerate() {
            for (k, w) in vals.iter().enumerate().skip(i % step).step_by(step) {
                if (jvs[i] == jvs[k]) != (v == w) { fail(format!("value={v} other={w}: JValue equality is {} but the JSON values are {}equal", jvs[i] == jvs[k], if v == w { "" } else { "not " })); }
                cases += 1;
            }
        }
        // duplicate keys in the text: the later one wins, as in serde_json
        for t in ["{\"a\":1,\"a\":2}", "{\"a\":[1],\"b\":0,\"a\":{\"a\":null}}"] {
            let want: Value = serde_json::from_str(t).unwrap();
            if serde_json::from_str::<JValue>(t).ok() != Some(JValue::from(&want)) { fail(format!("text={t}: duplicate keys")); }
            cases += 1;
        }
        // texts that are not JSON values are rejected
        for t in ["", "{", "[1,]", "{\"a\"}", "{1:2}", "nul", "01", "\"\\x\"", "1 2", "NaN"] {
            if serde_json::from_str::<JValue>(t).is_ok() != serde_json::from_str::<Value>(t).is_ok() { fail(format!("text={t:?}: acceptance differs from serde_json")); }
            cases += 1;
        }
        cases += check_scalar_conversions();
        println!("{ID}: {} values", vals.len());
        println!("VERIF-JOB {ID} CASES {cases}");
    }
}
