// appended to crates/air-lib/trace-handler/src/merger/fold_merger/fold_lore_resolver.rs
// native job C01.convolution_grid (bounded grid; refuter paired with unit convolution): compute_lens_convolution on every fold lore
// of <= 3 records, generations over {g0, g1}, lens over a boundary grid, against a reference convolution computed in u64.
// It must never panic (hostile lens!), return Err exactly when the total overflows u32, and Ok with the reference values otherwise.
#[cfg(test)]
mod verif_native_convolution_grid {
    use super::compute_lens_convolution;
    use super::LoresLen;
    use crate::data_keeper::TraceSlider;
    use crate::MergeCtx;
    use air_interpreter_data::{ApResult, ExecutedState, FoldResult, FoldSubTraceLore, SubTraceDesc, TracePos};
    use std::panic::{catch_unwind, AssertUnwindSafe};

    fn reference(recs: &[(u32, u32, u32)]) -> Option<(u64, Vec<(u64, u64)>)> {
        // recs: (generation, before, after). Per generation group [s..=e]: after' = prefix sum of after inside the group;
        // before' = suffix sum of before inside the group + after'[e]
        let total: u64 = recs.iter().map(|r| r.1 as u64 + r.2 as u64).sum();
        // the function checks the running total after each record
        let mut run = 0u64;
        for r in recs { run += r.1 as u64 + r.2 as u64; if run > u32::MAX as u64 { return None; } }
        let mut out = vec![(0u64, 0u64); recs.len()];
        let mut s = 0usize;
        while s < recs.len() {
            let mut e = s;
            while e + 1 < recs.len() && recs[e + 1].0 == recs[s].0 { e += 1; }
            let mut cum_after = 0u64;
            for k in s..=e { cum_after += recs[k].2 as u64; out[k].1 = cum_after; }
            let mut cum_before = 0u64;
            for k in (s..=e).rev() { cum_before += recs[k].1 as u64; out[k].0 = cum_before + out[e].1; }
            s = e + 1;
        }
        Some((total, out))
    }

    #[test]
    fn convolution_matches_reference_and_never_panics() {
        let lens: Vec<u32> = vec![0, 1, 2, 1 << 30, 1 << 31, u32::MAX - 1, u32::MAX];
        let slider = TraceSlider::new(vec![ExecutedState::Ap(ApResult::new(0.into())), ExecutedState::Ap(ApResult::new(1.into()))]);
        let ctx = MergeCtx { slider };
        let mut cases = 0u64;
        let mut recs_all: Vec<Vec<(u32, u32, u32)>> = vec![vec![]];
        for n in 1..=3usize {
            let per = 2 * lens.len() * lens.len();
            for mut code in 0..per.pow(n as u32) {
                let mut recs = vec![];
                for _ in 0..n {
                    let c = code % per; code /= per;
                    recs.push(((c % 2) as u32, lens[(c / 2) % lens.len()], lens[c / 2 / lens.len()]));
                }
                // generations must be non-decreasing along a fold lore to form groups; keep all orders anyway (hostile data)
                recs_all.push(recs);
            }
            if n == 2 { /* 9604 */ }
            if n == 3 && recs_all.len() > 120000 { break; }
        }
        for recs in recs_all.iter().step_by(if recs_all.len() > 60000 { 7 } else { 1 }) {
            let lore: Vec<FoldSubTraceLore> = recs.iter().map(|r| FoldSubTraceLore {
                value_pos: TracePos::from(r.0),
                subtraces_desc: vec![SubTraceDesc { begin_pos: 0.into(), subtrace_len: r.1 }, SubTraceDesc { begin_pos: 0.into(), subtrace_len: r.2 }],
            }).collect();
            let fold = FoldResult { lore };
            let got = catch_unwind(AssertUnwindSafe(|| compute_lens_convolution(&fold, &ctx)));
            let got = match got {
                Ok(g) => g,
                Err(_) => { println!("VERIF-JOB C01.convolution_grid FAIL compute_lens_convolution panics on (generation, before, after) records {recs:?}"); panic!("panic on {recs:?}"); }
            };
            match (got, reference(recs)) {
                (Ok((count, out)), Some((total, want))) => {
                    let want_lens: Vec<LoresLen> = want.iter().map(|w| LoresLen::new(w.0 as u32, w.1 as u32)).collect();
                    if count as u64 != total || out != want_lens {
                        println!("VERIF-JOB C01.convolution_grid FAIL records {recs:?}: got count {count} lens {out:?}, reference count {total} lens {want:?}");
                        panic!("mismatch on {recs:?}");
                    }
                }
                (Err(_), None) => {}
                (g, w) => {
                    println!("VERIF-JOB C01.convolution_grid FAIL records {recs:?}: ok={} but reference ok={}", g.is_ok(), w.is_some());
                    panic!("Ok/Err mismatch on {recs:?}");
                }
            }
            cases += 1;
        }
        println!("VERIF-JOB C01.convolution_grid CASES {cases}");
    }
}
