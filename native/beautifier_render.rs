// appended to crates/beautifier/src/lib.rs (native job C28.render): bounded exhaustive
// Executable reading of the contract of unit `beautifier` on the REAL code, parser and std::fmt included: for every accepted script
// of the enumeration, every indent step in {0, 1, 4} and both settings of try_hopon, the bytes the real Beautifier writes are exactly
// `render(ast, 0, step, hopon)` (one line per instruction, `indent` spaces, head, '\n'; seq flattened; par:/|, try:/catch:, "<header>:",
// last:, hopon). This is what checks the one trusted assumption of the unit (format_args!/write_fmt/`{:w$}` semantics, and rule R5's
// cutting of the literals) against the real std, and the operand texts the unit leaves uninterpreted: every simple instruction's line,
// put back between parentheses, must parse to an instruction that prints the same line. A failing writer (fails after k bytes) checks
// the Err half: what was written is a prefix of the full text.
#[cfg(test)]
mod verif_native_beautifier {
    use crate::Beautifier;
    use air_parser::ast;
    use air_parser::ast::Instruction;
    use std::io;

    fn line(out: &mut String, indent: usize, head: &str) {
        for _ in 0..indent {
            out.push(' ');
        }
        out.push_str(head);
        out.push('\n');
    }

    // (new $s (new #c (canon peer $s #c))) with peer not a lens on that #c
    fn hopon(n: &ast::New<'_>) -> Option<String> {
        if let (ast::NewArgument::Stream(s), Instruction::New(inner)) = (&n.argument, &n.instruction) {
            if let (ast::NewArgument::CanonStream(c), Instruction::Canon(canon)) = (&inner.argument, &inner.instruction) {
                let shadows = matches!(&canon.peer_id, ast::ResolvableToPeerIdVariable::CanonStreamWithLambda(l) if l.name == c.name);
                if canon.stream.name == s.name && canon.canon_stream.name == c.name && !shadows {
                    return Some(format!("hopon {}", canon.peer_id));
                }
            }
        }
        None
    }

    fn call_head(c: &ast::Call<'_>) -> String {
        let mut h = String::new();
        match &c.output {
            ast::CallOutputValue::Scalar(v) => h.push_str(&format!("{v} <- ")),
            ast::CallOutputValue::Stream(v) => h.push_str(&format!("{v} <- ")),
            ast::CallOutputValue::None => {}
        }
        let args: Vec<String> = c.args.iter().map(|a| a.to_string()).collect();
        h.push_str(&format!(
            "call {} ({}, {}) [{}]",
            c.triplet.peer_id,
            c.triplet.service_id,
            c.triplet.function_name,
            args.join(", ")
        ));
        h
    }

    fn render(out: &mut String, node: &Instruction<'_>, indent: usize, step: usize, hop: bool) {
        let i1 = indent + step;
        match node {
            Instruction::Call(c) => line(out, indent, &call_head(c)),
            Instruction::Ap(x) => line(out, indent, &x.to_string()),
            Instruction::ApMap(x) => line(out, indent, &x.to_string()),
            Instruction::Canon(x) => line(out, indent, &x.to_string()),
            Instruction::CanonMap(x) => line(out, indent, &x.to_string()),
            Instruction::CanonStreamMapScalar(x) => line(out, indent, &x.to_string()),
            Instruction::Fail(x) => line(out, indent, &x.to_string()),
            Instruction::Never(x) => line(out, indent, &x.to_string()),
            Instruction::Next(x) => line(out, indent, &x.to_string()),
            Instruction::Null(x) => line(out, indent, &x.to_string()),
            Instruction::Error => line(out, indent, "error"),
            Instruction::Seq(s) => {
                render(out, &s.0, indent, step, hop);
                render(out, &s.1, indent, step, hop);
            }
            Instruction::Par(p) => {
                line(out, indent, "par:");
                render(out, &p.0, i1, step, hop);
                line(out, indent, "|");
                render(out, &p.1, i1, step, hop);
            }
            Instruction::Xor(x) => {
                line(out, indent, "try:");
                render(out, &x.0, i1, step, hop);
                line(out, indent, "catch:");
                render(out, &x.1, i1, step, hop);
            }
            Instruction::Match(m) => {
                line(out, indent, &format!("{m}:"));
                render(out, &m.instruction, i1, step, hop);
            }
            Instruction::MisMatch(m) => {
                line(out, indent, &format!("{m}:"));
                render(out, &m.instruction, i1, step, hop);
            }
            Instruction::FoldScalar(f) => {
                line(out, indent, &format!("{f}:"));
                render(out, &f.instruction, i1, step, hop);
                if let Some(l) = &f.last_instruction {
                    line(out, indent, "last:");
                    render(out, l, i1, step, hop);
                }
            }
            Instruction::FoldStream(f) => {
                line(out, indent, &format!("{f}:"));
                render(out, &f.instruction, i1, step, hop);
                if let Some(l) = &f.last_instruction {
                    line(out, indent, "last:");
                    render(out, l, i1, step, hop);
                }
            }
            Instruction::FoldStreamMap(f) => {
                line(out, indent, &format!("{f}:"));
                render(out, &f.instruction, i1, step, hop);
                if let Some(l) = &f.last_instruction {
                    line(out, indent, "last:");
                    render(out, l, i1, step, hop);
                }
            }
            Instruction::New(n) => match hopon(n).filter(|_| hop) {
                Some(h) => line(out, indent, &h),
                None => {
                    line(out, indent, &format!("{n}:"));
                    render(out, &n.instruction, i1, step, hop);
                }
            },
        }
    }

    // the parser wants every variable defined: put the script after instructions that define the variables the enumeration uses
    fn with_prelude(script: &str) -> String {
        let mut s = String::new();
        let scalars = ["scalar", "x", "y", "key", "peer", "service", "function", "a", "arg", "iterable", "relay"];
        let mut n = 0;
        for v in scalars.iter() {
            s.push_str(&format!("(seq (call \"p\" (\"s\" \"f\") [] {v}) "));
            n += 1;
        }
        for d in [r#"(ap ("k" 1) %map)"#, r#"(ap 1 $stream)"#, r#"(canon "p" $stream #canon)"#, r#"(canon "p" $stream #other)"#, r#"(canon "p" $stream #can)"#, r#"(canon "p" %map #%cmap)"#] {
            s.push_str(&format!("(seq {d} "));
            n += 1;
        }
        s.push_str(script);
        for _ in 0..n {
            s.push(')');
        }
        s
    }

    // "operands printed as in the script": a simple instruction's line is script text again
    fn check_reparse(node: &Instruction<'_>, script: &str) -> Result<(), String> {
        let head = match node {
            Instruction::Ap(x) => x.to_string(),
            Instruction::ApMap(x) => x.to_string(),
            Instruction::Canon(x) => x.to_string(),
            Instruction::CanonMap(x) => x.to_string(),
            Instruction::CanonStreamMapScalar(x) => x.to_string(),
            Instruction::Fail(x) => x.to_string(),
            Instruction::Never(x) => x.to_string(),
            Instruction::Null(x) => x.to_string(),
            _ => return Ok(()),
        };
        let again = with_prelude(&format!("({head})"));
        let tree = air_parser::parse(&again).map_err(|e| format!("line `{head}` of `{script}` is not script text: {e}"))?;
        let mut last = &tree;
        while let Instruction::Seq(s) = last {
            last = &s.1;
        }
        let head2 = last.to_string();
        if head2 != head {
            return Err(format!("line `{head}` of `{script}` re-parses to `{head2}`"));
        }
        Ok(())
    }

    fn walk<'a, 'i>(node: &'a Instruction<'i>, f: &mut dyn FnMut(&'a Instruction<'i>)) {
        f(node);
        match node {
            Instruction::Seq(s) => {
                walk(&s.0, f);
                walk(&s.1, f);
            }
            Instruction::Par(s) => {
                walk(&s.0, f);
                walk(&s.1, f);
            }
            Instruction::Xor(s) => {
                walk(&s.0, f);
                walk(&s.1, f);
            }
            Instruction::Match(m) => walk(&m.instruction, f),
            Instruction::MisMatch(m) => walk(&m.instruction, f),
            Instruction::FoldScalar(x) => {
                walk(&x.instruction, f);
                if let Some(l) = &x.last_instruction {
                    walk(l, f);
                }
            }
            Instruction::FoldStream(x) => {
                walk(&x.instruction, f);
                if let Some(l) = &x.last_instruction {
                    walk(l, f);
                }
            }
            Instruction::FoldStreamMap(x) => {
                walk(&x.instruction, f);
                if let Some(l) = &x.last_instruction {
                    walk(l, f);
                }
            }
            Instruction::New(n) => walk(&n.instruction, f),
            _ => {}
        }
    }

    struct FailAfter {
        buf: Vec<u8>,
        left: usize,
    }
    impl io::Write for FailAfter {
        fn write(&mut self, data: &[u8]) -> io::Result<usize> {
            if self.left == 0 {
                return Err(io::Error::new(io::ErrorKind::Other, "full"));
            }
            let n = data.len().min(self.left);
            self.buf.extend_from_slice(&data[..n]);
            self.left -= n;
            Ok(n)
        }
        fn flush(&mut self) -> io::Result<()> {
            Ok(())
        }
    }

    fn leaves() -> Vec<&'static str> {
        vec![
            "(null)",
            "(never)",
            r#"(fail 1337 "error message")"#,
            "(fail %last_error%)",
            "(fail :error:)",
            "(fail scalar)",
            "(fail scalar.$.field)",
            "(ap 1 x)",
            r#"(ap "text" $stream)"#,
            "(ap scalar.$.field.[0] y)",
            "(ap %init_peer_id% y)",
            "(ap %last_error%.$.message y)",
            "(ap [] y)",
            "(ap true y)",
            r#"(ap ("key" 1) %map)"#,
            "(ap (key scalar) %map)",
            r#"(canon "peer" $stream #canon)"#,
            "(canon peer %map #%cmap)",
            "(canon %init_peer_id% %map scalar)",
            r#"(call "peer" ("service" "function") [])"#,
            r#"(call peer ("service" function) [a "b" 1 true [] %ttl% %timestamp% #canon #canon.$.[0] x.$.y] result)"#,
            r#"(call %init_peer_id% (service.$.name "function") [arg] $results)"#,
            "(call #canon.$.[0] (\"s\" \"f\") [%last_error% :error:.$.message])",
        ]
    }

    // every way of putting `a` (and `b`) under one compound instruction; `i` is the iterator name (the parser wants it unique in a script)
    fn compounds(a: &str, b: &str, i: &str) -> Vec<String> {
        vec![
            format!("(seq {a} {b})"),
            format!("(par {a} {b})"),
            format!("(xor {a} {b})"),
            format!("(match x \"text\" {a})"),
            format!("(mismatch 1 y.$.f {a})"),
            format!("(fold iterable {i} {a})"),
            format!("(fold iterable.$.list {i} {a} {b})"),
            format!("(fold $stream {i} {a})"),
            format!("(fold $stream {i} (seq {a} (next {i})) {b})"),
            format!("(fold %map {i} {a})"),
            format!("(fold %map {i} {a} {b})"),
            format!("(fold #canon {i} (par {a} (next {i})))"),
            format!("(new scalar {a})"),
            format!("(new $stream {a})"),
            format!("(new #canon {a})"),
            format!("(new %map {a})"),
        ]
    }

    fn hopons() -> Vec<String> {
        vec![
            r#"(new $e (new #e (canon "relay" $e #e)))"#.to_string(),
            r#"(new $e (new #e (canon relay $e #e)))"#.to_string(),
            r#"(new $e (new #e (canon %init_peer_id% $e #e)))"#.to_string(),
            r#"(new $e (new #c (canon "relay" $e #e)))"#.to_string(),
            r#"(new $s (new #e (canon "relay" $e #e)))"#.to_string(),
            r#"(new #e (new $e (canon "relay" $e #e)))"#.to_string(),
            r#"(new $e (new #can (canon #can.$.[0] $e #can)))"#.to_string(),
            r#"(new $e (new #e (canon #other.$.[0] $e #e)))"#.to_string(),
            r#"(new $e (new #e (seq (canon "relay" $e #e) (null))))"#.to_string(),
            r#"(new $e (new #e (canon "relay" %e #%e)))"#.to_string(),
        ]
    }

    fn check(script: &str, with_failing_sink: bool, cases: &mut u64, io_cases: &mut u64) -> Result<bool, String> {
        let shown = script;
        let script = &with_prelude(script);
        let tree = match air_parser::parse(script) {
            Ok(t) => t,
            Err(e) => {
                if std::env::var("VERIF_SHOW_REJECTED").is_ok() {
                    println!("{e}");
                }
                return Ok(false);
            }
        };
        let mut err = None;
        walk(&tree, &mut |n| {
            if err.is_none() {
                err = check_reparse(n, shown).err();
            }
        });
        if let Some(e) = err {
            return Err(e);
        }
        for step in [0usize, 1, 4] {
            for hop in [false, true] {
                let mut expected = String::new();
                render(&mut expected, &tree, 0, step, hop);
                let mut out = vec![];
                let mut b = Beautifier::new_with_indent(&mut out, step);
                if hop {
                    b = b.enable_all_patterns();
                }
                b.beautify_ast(&tree).map_err(|e| format!("{shown} (after the variable-defining prelude): {e}"))?;
                if out != expected.as_bytes() {
                    return Err(format!(
                        "script `{shown}` (after the variable-defining prelude) step {step} hopon {hop}: expected {expected:?}, got {:?}",
                        String::from_utf8_lossy(&out)
                    ));
                }
                *cases += 1;
                // the entry points that take the script text: Beautifier::beautify, crate::beautify (default step), beautify_to_string
                if step == crate::DEFAULT_INDENT_STEP {
                    let mut out2 = vec![];
                    crate::beautify(script, &mut out2, hop).map_err(|e| format!("{shown} (after the variable-defining prelude): {e}"))?;
                    let out3 = if hop { expected.clone() } else { crate::beautify_to_string(script)? };
                    if out2 != expected.as_bytes() || out3 != expected {
                        return Err(format!("script `{shown}` hopon {hop}: beautify / beautify_to_string differ from beautify_ast"));
                    }
                }
                // the Err half (on part of the enumeration): a sink that fails after k bytes holds a prefix of the text
                if with_failing_sink && step == 4 {
                    for k in 0..expected.len() {
                        let mut sink = FailAfter { buf: vec![], left: k };
                        let mut b = Beautifier::new_with_indent(&mut sink, step);
                        if hop {
                            b = b.enable_all_patterns();
                        }
                        let r = b.beautify_ast(&tree);
                        if r.is_ok() || !expected.as_bytes().starts_with(&sink.buf) {
                            return Err(format!("script `{shown}` hopon {hop}: sink failing after {k} bytes: ok={} wrote {:?}", r.is_ok(),
                                String::from_utf8_lossy(&sink.buf)));
                        }
                        *io_cases += 1;
                    }
                }
            }
        }
        Ok(true)
    }

    #[test]
    fn output_is_render_of_the_ast() {
        let thorough = std::env::var("VERIF_TIER").map(|v| v == "thorough").unwrap_or(false);
        let leaves = leaves();
        let mut scripts: Vec<String> = leaves.iter().map(|s| s.to_string()).collect();
        scripts.extend(hopons());
        // depth 1: every compound over every pair of a small leaf set, every leaf in first position
        let few = ["(null)", r#"(call "peer" ("service" "function") [])"#, "(ap 1 x)"];
        let mut level1 = vec![];
        for a in leaves.iter() {
            for b in few.iter() {
                level1.extend(compounds(a, b, "i"));
            }
        }
        scripts.extend(level1.iter().cloned());
        // depth 2 (and 3 in the thorough tier): compounds over compounds and hop-on patterns
        let mut inner_a: Vec<String> = compounds("(null)", "(never)", "ia");
        inner_a.extend(hopons());
        let mut inner_b: Vec<String> = compounds("(never)", "(null)", "ib");
        inner_b.extend(hopons());
        let mut level2 = vec![];
        for a in inner_a.iter() {
            for b in inner_b.iter().take(if thorough { inner_b.len() } else { 4 }) {
                level2.extend(compounds(a, b, "i"));
            }
        }
        scripts.extend(level2.iter().cloned());
        if thorough {
            for a in level2.iter().step_by(7) {
                scripts.extend(compounds(a, "(null)", "it"));
            }
        }
        let (mut cases, mut io_cases, mut accepted, mut rejected) = (0u64, 0u64, 0u64, 0u64);
        let with_sink = leaves.len() + hopons().len() + 48;
        for (idx, s) in scripts.iter().enumerate() {
            match check(s, idx < with_sink, &mut cases, &mut io_cases) {
                Ok(true) => accepted += 1,
                Ok(false) => rejected += 1,
                Err(e) => {
                    println!("VERIF-JOB C28.render FAIL {e}");
                    panic!("{e}");
                }
            }
        }
        // every script of the enumeration is meant to be accepted (a rejected one makes the parser write to stderr and says the
        // enumeration has rotted)
        if rejected > 0 || accepted < 1000 {
            println!("VERIF-JOB C28.render FAIL {rejected} of {} scripts of the enumeration are rejected by the parser (set VERIF_SHOW_REJECTED=1)", scripts.len());
            panic!("enumeration degenerated");
        }
        println!("VERIF-JOB C28.render CASES {}", cases + io_cases);
        println!("C28.render: {accepted} accepted scripts ({rejected} rejected by the parser), {cases} (script, step, hopon) outputs, {io_cases} failing-sink runs");
    }
}
