// appended to crates/air-lib/interpreter-data/src/cid_store.rs
// native job C25.canonical (bounded): on a set of boundary JSON values (integers at the i64/u64 edges, floats, escaped and
// unicode strings, nested arrays, objects built in different key orders) the content id of the interpreter's JValue equals
// the id of the same serde_json value and the id of its canonical text, and verify_value(cid(v), w) succeeds exactly when v == w.
#[cfg(test)]
mod verif_native_cid_canonical {
    use crate::JValue;
    use air_interpreter_cid::{raw_value_to_json_cid, value_to_json_cid, verify_raw_value, verify_value, CID};
    use serde_json::json;
    use serde_json::Value;

    fn values() -> Vec<Value> {
        let mut v = vec![
            json!(null), json!(true), json!(false), json!(0), json!(-1), json!(1), json!(i64::MIN), json!(i64::MAX),
            json!(i64::MAX as u64 + 1), json!(u64::MAX - 1), json!(u64::MAX), json!(1.5), json!(-0.25), json!(1e300), json!(1.0e-7),
            json!(""), json!("a"), json!("\"quoted\" \\ \n\t"), json!("юникод ✓"), json!([]), json!({}),
        ];
        let scalars: Vec<Value> = v.clone();
        for a in scalars.iter().step_by(3) { v.push(json!([a])); v.push(json!({"k": a})); v.push(json!([a, [a]])); v.push(json!({"a": a, "b": {"c": a}})); }
        v.push(json!({"b": 1, "a": 2, "c": [3, {"z": 1, "y": 2}]}));
        v
    }

    #[test]
    fn content_ids_are_canonical() {
        let vals = values();
        let mut cases = 0u64;
        let fail = |what: String| -> ! { println!("VERIF-JOB C25.canonical FAIL {what}"); panic!("{what}") };
        let cids: Vec<CID<JValue>> = vals.iter().map(|v| value_to_json_cid(&JValue::from(v)).unwrap()).collect();
        for (i, v) in vals.iter().enumerate() {
            let jv = JValue::from(v);
            // the id depends only on the value: the same value as serde_json::Value, and as canonical text
            let via_serde: CID<Value> = value_to_json_cid(v).unwrap();
            let text = serde_json::to_string(v).unwrap();
            let via_text: CID<JValue> = raw_value_to_json_cid(text.as_bytes());
            if cids[i].get_inner() != via_serde.get_inner() { fail(format!("id of JValue {v} differs from the id of the same serde_json value")); }
            if cids[i].get_inner() != via_text.get_inner() { fail(format!("id of JValue {v} differs from the id of its canonical text {text}")); }
            if jv.to_string() != text { fail(format!("JValue prints {} for {text}", jv.to_string())); }
            if verify_raw_value(&cids[i], text.as_bytes()).is_err() { fail(format!("verify_raw_value rejects the canonical text of {v}")); }
            // verification accepts exactly the matching pairs
            for (k, w) in vals.iter().enumerate() {
                let ok = verify_value(&cids[i], &JValue::from(w)).is_ok();
                if ok != (v == w) { fail(format!("verify_value(cid({v}), {w}) = {ok} (values {}equal, #{i} vs #{k})", if v == w { "" } else { "not " })); }
                cases += 1;
            }
        }
        // key insertion order does not matter
        let mut m1 = serde_json::Map::new(); m1.insert("a".into(), json!(1)); m1.insert("b".into(), json!([2]));
        let mut m2 = serde_json::Map::new(); m2.insert("b".into(), json!([2])); m2.insert("a".into(), json!(1));
        let c1: CID<JValue> = value_to_json_cid(&JValue::from(&Value::Object(m1))).unwrap();
        let c2: CID<JValue> = value_to_json_cid(&JValue::from(&Value::Object(m2))).unwrap();
        if c1.get_inner() != c2.get_inner() { fail("object id depends on key insertion order".to_string()); }
        println!("VERIF-JOB C25.canonical CASES {cases}");
    }
}
