// appended to air/src/preparation_step/preparation.rs
// native job C21.gate (bounded grid): the real semver::Version order is the strict total order the Verus unit `version`
// axiomatises, and the real check_version_compatibility rejects exactly the versions below min_supported_version()
#[cfg(test)]
mod verif_native_version {
    use super::*;
    use std::cmp::Ordering;

    #[test]
    fn gate_rejects_exactly_older_versions() {
        let min = super::super::min_supported_version().clone();
        let majors = [min.major.saturating_sub(1), min.major, min.major + 1];
        let minors = [min.minor.saturating_sub(1), min.minor, min.minor + 1];
        let patches = [min.patch.saturating_sub(1), min.patch, min.patch + 1];
        let pres = ["", "alpha", "rc.1"];
        let mut grid = vec![];
        for ma in majors { for mi in minors { for pa in patches { for pre in pres {
            let text = if pre.is_empty() { format!("{ma}.{mi}.{pa}") } else { format!("{ma}.{mi}.{pa}-{pre}") };
            grid.push(semver::Version::parse(&text).unwrap());
        }}}}
        grid.sort(); grid.dedup();
        let mut cases = 0u64;
        let fail = |what: String| -> ! { println!("VERIF-JOB C21.gate FAIL {what}"); panic!("{what}") };
        // lexicographic (major, minor, patch), a pre-release sorts before its release
        let key = |v: &semver::Version| (v.major, v.minor, v.patch, v.pre.is_empty(), v.pre.to_string());
        for a in &grid {
            if a.cmp(a) != Ordering::Equal { fail(format!("{a} not reflexive")); }
            for b in &grid {
                if a.cmp(b) != b.cmp(a).reverse() { fail(format!("antisymmetry {a} {b}")); }
                if a.cmp(b) != key(a).cmp(&key(b)) { fail(format!("{a} vs {b} not lexicographic")); }
                if (a < b) != (a.cmp(b) == Ordering::Less) { fail(format!("`<` and cmp disagree on {a} {b}")); }
                for c in &grid {
                    if a < b && b < c && !(a < c) { fail(format!("transitivity {a} {b} {c}")); }
                }
            }
            let versions = Versions::new(a.clone());
            let result = check_version_compatibility(&versions);
            match (&result, a < &min) {
                (Err(PreparationError::UnsupportedInterpreterVersion { actual_version, required_version }), true)
                    if actual_version == a && required_version == &min => {}
                (Ok(()), false) => {}
                _ => fail(format!("gate on {a} with min {min}: {:?}", result.map_err(|e| e.to_string()))),
            }
            cases += 1;
        }
        // empty current data is treated as empty data of the minimal supported version
        let env = try_to_envelope(&[]).unwrap();
        if check_version_compatibility(&env.versions).is_err() { fail("empty data rejected".to_string()); }
        println!("VERIF-JOB C21.gate CASES {cases}");
    }
}
