// appended to air/src/execution_step/errors/execution_errors.rs (native job C02.codes.exec)
#[cfg(test)]
mod verif_native_codes_exec {
    use super::super::catchable_errors::CatchableErrorDiscriminants;
    use super::super::uncatchable_errors::UncatchableErrorDiscriminants;
    use crate::utils::{CATCHABLE_ERRORS_START_ID, UNCATCHABLE_ERRORS_START_ID};
    use crate::{CatchableError, ExecutionError, ToErrorCode, UncatchableError};
    use strum::IntoEnumIterator;

    fn fail(what: String) -> ! {
        println!("VERIF-JOB C02.codes.exec FAIL {what}");
        panic!("{what}");
    }

    #[test]
    fn code_ranges() {
        let mut cases = 0u64;
        for (pos, d) in CatchableErrorDiscriminants::iter().enumerate() {
            let code = CATCHABLE_ERRORS_START_ID + pos as i64;
            if !(10000..=19999).contains(&code) { fail(format!("CatchableError::{d:?} has code {code} outside 10000..=19999")); }
            cases += 1;
        }
        for (pos, d) in UncatchableErrorDiscriminants::iter().enumerate() {
            let code = UNCATCHABLE_ERRORS_START_ID + pos as i64;
            if !(20000..=29999).contains(&code) { fail(format!("UncatchableError::{d:?} has code {code} outside 20000..=29999")); }
            cases += 1;
        }
        // to_error_code of real values = START + position of their discriminant; ExecutionError delegates; is_catchable
        let catchables: Vec<CatchableError> = vec![
            CatchableError::MatchValuesNotEqual,
            CatchableError::MismatchValuesEqual,
            CatchableError::VariableNotFound("x".to_string()),
            CatchableError::VariableWasNotInitializedAfterNew("x".to_string()),
            CatchableError::LocalServiceError(1, std::rc::Rc::new("e".to_string())),
        ];
        for c in catchables {
            let d = CatchableErrorDiscriminants::from(&c);
            let pos = CatchableErrorDiscriminants::iter().position(|x| x == d).unwrap() as i64;
            let inner = c.to_error_code();
            if inner != CATCHABLE_ERRORS_START_ID + pos { fail(format!("{d:?}: to_error_code {inner} != start + position {pos}")); }
            let e = ExecutionError::from(c);
            if !e.is_catchable() { fail(format!("ExecutionError::Catchable({d:?}).is_catchable() is false")); }
            if e.to_error_code() != inner { fail(format!("ExecutionError code {} != inner code {inner}", e.to_error_code())); }
            cases += 1;
        }
        let uncatchables: Vec<UncatchableError> = vec![
            UncatchableError::StreamSizeLimitExceeded,
            UncatchableError::FoldStateNotFound("i".to_string()),
            UncatchableError::IterableShadowing("i".to_string()),
        ];
        for u in uncatchables {
            let d = UncatchableErrorDiscriminants::from(&u);
            let pos = UncatchableErrorDiscriminants::iter().position(|x| x == d).unwrap() as i64;
            let inner = u.to_error_code();
            if inner != UNCATCHABLE_ERRORS_START_ID + pos { fail(format!("{d:?}: to_error_code {inner} != start + position {pos}")); }
            let e = ExecutionError::Uncatchable(u);
            if e.is_catchable() { fail(format!("ExecutionError::Uncatchable({d:?}).is_catchable() is true")); }
            if e.to_error_code() != inner { fail(format!("ExecutionError code {} != inner code {inner}", e.to_error_code())); }
            cases += 1;
        }
        println!("VERIF-JOB C02.codes.exec CASES {cases}");
    }
}
