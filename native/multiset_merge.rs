// appended to crates/air-lib/interpreter-data/src/interpreter_data/verification.rs
// native job C15.merge (bounded): to_count_map / is_multisubset / DataVerifier::merge on the real HashMap code,
// for every pair of CID vectors of length <= 3 over 3 literals (40 x 40 pairs)
#[cfg(test)]
mod verif_native_multiset {
    use super::*;
    use air_interpreter_signatures::KeyPair;
    use fluence_keypair::KeyFormat;
    use std::collections::BTreeMap;

    fn vectors(max_len: usize) -> Vec<Vec<Rc<CidRef>>> {
        let alphabet = ["a", "b", "c"];
        let mut out = vec![];
        for len in 0..=max_len {
            for mut code in 0..alphabet.len().pow(len as u32) {
                let mut v: Vec<Rc<CidRef>> = vec![];
                for _ in 0..len { v.push(alphabet[code % alphabet.len()].into()); code /= alphabet.len(); }
                out.push(v);
            }
        }
        out
    }
    fn multiset(v: &[Rc<CidRef>]) -> BTreeMap<String, usize> {
        let mut m = BTreeMap::new();
        for c in v { *m.entry(c.to_string()).or_insert(0usize) += 1; }
        m
    }
    fn included(small: &BTreeMap<String, usize>, large: &BTreeMap<String, usize>) -> bool {
        small.iter().all(|(k, n)| large.get(k).cloned().unwrap_or(0) >= *n)
    }

    #[test]
    fn merge_keeps_the_larger_multiset_or_rejects() {
        let keypair = KeyPair::from_secret_key((0..32).collect(), KeyFormat::Ed25519).unwrap();
        let other_keypair = KeyPair::from_secret_key((1..33).collect(), KeyFormat::Ed25519).unwrap();
        let pk = keypair.public();
        let other_pk = other_keypair.public();
        let sig_ours = keypair.sign(b"ours").unwrap();
        let sig_theirs = keypair.sign(b"theirs").unwrap();
        let sig_other_peer = other_keypair.sign(b"other").unwrap();
        let peer_id: Box<str> = pk.to_peer_id().unwrap().into();
        let other_peer_id: Box<str> = other_pk.to_peer_id().unwrap().into();
        let mut cases = 0u64;
        let all = vectors(if std::env::var("VERIF_TIER").map(|v| v == "thorough").unwrap_or(false) { 4 } else { 3 });
        for ours in &all {
            // to_count_map returns the multiset of its argument (the contract assumed by the Verus unit `multisubset`)
            let counted: BTreeMap<String, usize> = to_count_map(ours).into_iter().map(|(k, v)| (k.to_string(), v)).collect();
            if counted != multiset(ours) {
                println!("VERIF-JOB C15.merge FAIL to_count_map({ours:?}) = {counted:?}");
                panic!("to_count_map");
            }
            for theirs in &all {
                let (m_ours, m_theirs) = (multiset(ours), multiset(theirs));
                let sub = is_multisubset(to_count_map(ours), to_count_map(theirs));
                if sub != included(&m_theirs, &m_ours) {
                    println!("VERIF-JOB C15.merge FAIL is_multisubset(larger={ours:?}, smaller={theirs:?}) = {sub}");
                    panic!("is_multisubset");
                }
                let mut sorted_ours = ours.clone(); sorted_ours.sort_unstable();
                let mut sorted_theirs = theirs.clone(); sorted_theirs.sort_unstable();
                let mut g1 = HashMap::new();
                g1.insert(peer_id.clone(), PeerInfo { public_key: &pk, signature: &sig_ours, cids: sorted_ours });
                let mut g2 = HashMap::new();
                g2.insert(peer_id.clone(), PeerInfo { public_key: &pk, signature: &sig_theirs, cids: sorted_theirs });
                // a peer known to one side only is kept
                g2.insert(other_peer_id.clone(), PeerInfo { public_key: &other_pk, signature: &sig_other_peer, cids: vec![] });
                let v1 = DataVerifier { grouped_cids: g1, salt: "salt" };
                let v2 = DataVerifier { grouped_cids: g2, salt: "salt" };
                let merged = v1.merge(v2);
                let comparable = included(&m_ours, &m_theirs) || included(&m_theirs, &m_ours);
                match merged {
                    Err(DataVerifierError::MergeMismatch { .. }) if !comparable => {}
                    Ok(store) if comparable => {
                        let kept = store.get(&pk);
                        let expected = if ours.len() < theirs.len() { &sig_theirs } else { &sig_ours };
                        // equal sizes and comparable => equal multisets: either signature covers the same set
                        let ok = if ours.len() == theirs.len() { kept == Some(&sig_ours) || kept == Some(&sig_theirs) } else { kept == Some(expected) };
                        if !ok || store.get(&other_pk) != Some(&sig_other_peer) || store.len() != 2 {
                            println!("VERIF-JOB C15.merge FAIL merge(ours={ours:?}, theirs={theirs:?}) kept the wrong signature");
                            panic!("merge kept the wrong signature");
                        }
                    }
                    other => {
                        println!("VERIF-JOB C15.merge FAIL merge(ours={ours:?}, theirs={theirs:?}) = {:?}, comparable = {comparable}", other.map(|_| "Ok"));
                        panic!("merge decision");
                    }
                }
                cases += 1;
            }
        }
        println!("VERIF-JOB C15.merge CASES {cases}");
    }
}
