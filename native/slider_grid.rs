// appended to crates/air-lib/trace-handler/src/data_keeper/trace_slider.rs
// native job C01.slider_grid (bounded grid; refuter paired with the Verus obligations of unit slider): the executable reading of the
// slider contracts on traces of length 0..=3 and boundary values of position / length; a failure prints the concrete input.
#[cfg(test)]
mod verif_native_slider_grid {
    use super::*;
    use air_interpreter_data::ExecutedState;
    use std::panic::{catch_unwind, AssertUnwindSafe};

    fn trace(n: usize) -> ExecutionTrace {
        ExecutionTrace::from((0..n).map(|k| ExecutedState::par(k, 0)).collect::<Vec<_>>())
    }
    fn fail(what: String) -> ! { println!("VERIF-JOB C01.slider_grid FAIL {what}"); panic!("{what}") }

    #[test]
    fn slider_contracts_on_boundary_grid() {
        let grid: Vec<u32> = vec![0, 1, 2, 3, 4, 1 << 31, u32::MAX - 2, u32::MAX - 1, u32::MAX];
        let mut cases = 0u64;
        for n in 0..=3usize {
            let tlen = n as u64;
            for &pos in &grid { for &len in &grid {
                // set_position_and_len: Ok <=> len == 0 || pos + len <= tlen; Err leaves the slider unchanged
                let mut s = TraceSlider::new(trace(n));
                let before = s.clone();
                let r = catch_unwind(AssertUnwindSafe(|| s.set_position_and_len(TracePos::from(pos), len)));
                let r = match r { Ok(r) => r, Err(_) => fail(format!("set_position_and_len panics: trace_len={n} position={pos} subtrace_len={len}")) };
                let want_ok = len == 0 || pos as u64 + len as u64 <= tlen;
                if r.is_ok() != want_ok { fail(format!("set_position_and_len(trace_len={n}, position={pos}, subtrace_len={len}) = {:?}, expected ok={want_ok}", r)); }
                if r.is_err() && s != before { fail(format!("set_position_and_len changed the slider on Err: trace_len={n} position={pos} subtrace_len={len}")); }
                if r.is_ok() && (u32::from(s.position()) != pos || s.subtrace_len() != len) { fail(format!("set_position_and_len stored the wrong window: trace_len={n} position={pos} subtrace_len={len}")); }
                // next_state from there: Some <=> window not exhausted and position inside the trace; advances by exactly one
                if r.is_ok() {
                    let p0 = u32::from(s.position()); let l0 = s.subtrace_len();
                    let st = catch_unwind(AssertUnwindSafe(|| s.next_state()));
                    let st = match st { Ok(x) => x, Err(_) => fail(format!("next_state panics: trace_len={n} position={pos} subtrace_len={len}")) };
                    let want_some = l0 > 0 && (p0 as u64) < tlen;
                    if st.is_some() != want_some { fail(format!("next_state after (trace_len={n}, position={pos}, subtrace_len={len}): some={}, expected {want_some}", st.is_some())); }
                    if st.is_some() && (u32::from(s.position()) != p0 + 1 || s.subtrace_len() != l0 - 1) { fail(format!("next_state did not advance by one: trace_len={n} position={pos} subtrace_len={len}")); }
                    if let Some(state) = st { if state != ExecutedState::par(p0 as usize, 0) { fail(format!("next_state returned the wrong state: trace_len={n} position={pos}")); } }
                }
                // set_subtrace_len at a (possibly inconsistent) position: Ok <=> len2 == 0 || pos + len2 <= tlen; never a panic
                let mut s2 = TraceSlider::new(trace(n));
                let _ = s2.set_position_and_len(TracePos::from(pos), 0);
                let r2 = catch_unwind(AssertUnwindSafe(|| s2.set_subtrace_len(len)));
                let r2 = match r2 { Ok(r) => r, Err(_) => fail(format!("set_subtrace_len panics: trace_len={n} position={pos} subtrace_len={len}")) };
                let want2 = len == 0 || pos as u64 + len as u64 <= tlen;
                if r2.is_ok() != want2 { fail(format!("set_subtrace_len(trace_len={n}, position={pos}, subtrace_len={len}) = {:?}, expected ok={want2}", r2)); }
                cases += 1;
            }}
        }
        println!("VERIF-JOB C01.slider_grid CASES {cases}");
    }
}
