#!/bin/sh
# offline setup: checks tool presence and pre-builds the native job harnesses (cargo test --no-run on a scratch
# copy of /repo with the harness modules of /verif/native appended) into /verif/.cache, so that checks start warm
set -e
cd "$(dirname "$0")"
verus --version >/dev/null
mkdir -p evidence/replay .cache
python3 - <<'PY'
import sys
sys.path.insert(0, 'lib')
import jobs
crates = sorted(set(j['crate'] for j in jobs.all_jobs() if j['engine'] == 'native'))
res = jobs.run_native_batch(crates, build_only=True)
for c, (rc, out, secs, cmd) in res.items():
    print('native build %s: rc=%s %.0fs' % (c, rc, secs))
    if rc != 0:
        print(out[-3000:])
PY
echo "setup ok"
