#!/bin/sh
# offline setup: nothing to build for the Verus route; checks tool presence
set -e
cd "$(dirname "$0")"
verus --version >/dev/null
python3 -c "import json" 
mkdir -p evidence/replay
echo "setup ok"
