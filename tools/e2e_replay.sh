#!/bin/sh
# End-to-end replay of the findings of DESIGN.md section 5 on the real interpreter (native runner of air-test-utils).
# usage: tools/e2e_replay.sh [test-name-filter]     exit 0 = no replay panics
#        VERIF_E2E_FEATURES=gen_signatures,check_signatures tools/e2e_replay.sh verif_f8   (replays that need real signature verification)
set -e
HERE="$(cd "$(dirname "$0")/.." && pwd)"
REPO="${VERIF_REPO:-/repo}"
S=/var/tmp/aquavm-e2e.$$
trap 'rm -rf "$S"' EXIT
mkdir -p "$S"
rsync -a --exclude target --exclude .git "$REPO"/ "$S"/src/
cat "$HERE"/replay/*.rs >> "$S/src/air/tests/test_module/negative_tests/uncatchable_trace_related.rs"
cd "$S/src"
CARGO_TARGET_DIR="${VERIF_E2E_TARGET:-$S/target}" RUST_BACKTRACE=0 CARGO_NET_OFFLINE=true cargo test -p aquavm-air --features "air-test-utils/test_with_native_code${VERIF_E2E_FEATURES:+,$VERIF_E2E_FEATURES}" --offline --test test_module "${1:-verif_}" -- --test-threads 1 --nocapture 2>&1 | grep -E "^test |panicked at|test result|^error|VERIF F" | tail -40
