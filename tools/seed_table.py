#!/usr/bin/env python3
"""writes seeded/README.md from seeded/*/meta.json"""
import glob, json, os
HERE = os.path.dirname(os.path.dirname(os.path.abspath(__file__)))
rows = []
for p in sorted(glob.glob(os.path.join(HERE, 'seeded', '*', 'meta.json'))):
    m = json.load(open(p))
    obl = '; '.join('%s: %s' % (k, ', '.join(v)) for k, v in sorted(m['checks']['obligations'].items()))
    ran = m['checks'].get('checked_properties')
    rows.append('| `%s` | %s | %s | %s | %s | %s |' % (m['name'], m['breaks_property'], ' '.join(m['checks']['caught_by']) or '**none**',
                'yes' if m['checks']['target_check_catches'] else 'NO', 'all claimed' if not ran or len(ran) > 15 else ' '.join(ran), obl[:500]))
out = ['# Seeded changes', '',
       'Each directory holds a breaking change written by a fresh sub-agent that saw only one property record and its own scratch',
       'worktree of /repo (nothing from /verif): `patch.diff`, `demo.diff` (a test that fails with the change and passes without it),',
       'the author\'s `README.md`, and `meta.json` (what it needs to manifest; my own confirmation in a scratch worktree: the 407 baseline',
       'tests still pass with the patch, the demo fails with it and passes without it; and which checks report it when it is applied to /repo).',
       'None of these changes is ever committed to /repo.', '',
       '| seed | written against | reported by (exit 1) | target check catches it | checks run | failing obligations |', '|---|---|---|---|---|---|'] + rows + ['']
hist = os.path.join(HERE, 'seeded', 'HISTORY.md')
if os.path.exists(hist):
    out += [open(hist).read()]
open(os.path.join(HERE, 'seeded', 'README.md'), 'w').write('\n'.join(out))
print('\n'.join(rows))
