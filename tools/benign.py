#!/usr/bin/env python3
"""Behaviour-preserving edits that must NOT be reported (run on a scratch copy with VERIF_REPO).
usage: tools/benign.py <scratch-copy-of-repo>"""
import os, subprocess, sys
root = sys.argv[1]
HERE = os.path.dirname(os.path.dirname(os.path.abspath(__file__)))
EDITS = [
 # (unit, file, from, to[, 'all'])  -- renamed locals, reordered independent statements, equivalent control flow, added logging/comments
 ('slider', 'crates/air-lib/trace-handler/src/data_keeper/trace_slider.rs', 'subtrace_fits', 'fits', 'all'),
 ('slider', 'crates/air-lib/trace-handler/src/data_keeper/trace_slider.rs', '        self.position = position;\n        self.subtrace_len = subtrace_len;', '        self.subtrace_len = subtrace_len;\n        self.position = position;'),
 ('slider', 'crates/air-lib/trace-handler/src/data_keeper/trace_slider.rs', '        self.position += 1;\n        self.seen_elements += 1;', '        self.seen_elements += 1;\n        // moved\n        self.position += 1;'),
 ('runner', 'air/src/runner.rs', 'let salt = params.particle_id.clone();', 'let salt = params.particle_id.clone(); // the salt'),
 ('runner', 'air/src/preparation_step/sizes_limits_check.rs', '    *soft_limit_flag = true;\n\n    if run_parameters.hard_limit_enabled {\n        Err(error)\n    } else {\n        Ok(())\n    }', '    *soft_limit_flag = true;\n\n    if !run_parameters.hard_limit_enabled {\n        Ok(())\n    } else {\n        Err(error)\n    }'),
 ('runner', 'air/src/farewell_step/outcome.rs', 'let ret_code = error.to_error_code();\n    let data = data.into();', 'let data = data.into();\n    let ret_code = error.to_error_code();'),
 ('call_merger', 'crates/air-lib/trace-handler/src/merger/call_merger.rs', 'use PreparationScheme::*;', 'use PreparationScheme::*; // schemes'),
 ('streams', 'air/src/execution_step/value_types/stream/values_matrix.rs', '        self.values[generation_idx].push(value);\n        self.size += 1;', '        self.values[generation_idx].push(value);\n        log::trace!("value added");\n        self.size += 1;'),
 ('streams', 'air/src/execution_step/value_types/stream/stream_definition.rs', 'let cumulative_size = prev_size + curr_size + new_size;', 'let cumulative_size = new_size + curr_size + prev_size;'),
 ('context', 'air/src/execution_step/execution_context/context.rs', 'self.last_call_request_id += 1;', 'self.last_call_request_id = self.last_call_request_id + 1;'),
 ('xor', 'air/src/execution_step/instructions/xor.rs', 'if e.is_catchable()', 'if e.is_catchable() && true'),
 ('version', 'air/src/preparation_step/preparation.rs', 'if &versions.interpreter_version < super::min_supported_version() {', 'let min_version = super::min_supported_version();\n    if &versions.interpreter_version < min_version {'),
 ('call_verifier', 'air/src/execution_step/instructions/call/verifier.rs', 'if expected_argument_hash != stored_argument_hash {', 'if stored_argument_hash != expected_argument_hash {'),
 ('multisubset', 'crates/air-lib/interpreter-data/src/interpreter_data/verification.rs', "    let mut count_map = HashMap::<_, usize>::new();", "    let mut count_map = HashMap::<_, usize>::new();\n    let _len = cids.len();"),
 ('cid_state', 'air/src/execution_step/execution_context/cid_state.rs', 'let fake_trace_pos = TracePos::default();\n        Ok(ValueAggregate::new(\n            result,\n            tetraplet,\n            fake_trace_pos,', 'let no_trace_pos = TracePos::default();\n        Ok(ValueAggregate::new(\n            result,\n            tetraplet,\n            no_trace_pos,'),
 ('cid_record_sign', 'crates/air-lib/interpreter-signatures/src/trackers.rs', 'let serialized_cids = SaltedData::new(&cids, salt).serialize();\n    keypair.sign(&serialized_cids)', 'let bytes = SaltedData::new(&cids, salt).serialize();\n    keypair.sign(&bytes)'),
 ('misc_c01', 'crates/air-lib/trace-handler/src/data_keeper/merge_ctx.rs', 'state => Err(KeeperError::NoStreamState { state: state.clone() }),', 'other => Err(KeeperError::NoStreamState { state: other.clone() }),'),
]
bad = 0
ONLY = os.environ.get('BENIGN_ONLY', '').split()
for e in EDITS:
    if ONLY and e[0] not in ONLY:
        continue
    unit, f, a, b = e[:4]
    count = -1 if len(e) > 4 else 1
    p = os.path.join(root, f)
    orig = open(p).read()
    if a not in orig:
        print('SKIP (anchor not found): %s %r' % (f, a[:40])); continue
    open(p, 'w').write(orig.replace(a, b, count))
    r = subprocess.run([os.path.join(HERE, 'check'), '--unit', unit], env=dict(os.environ, VERIF_REPO=root), capture_output=True, text=True)
    head = r.stdout.split('\n')[0]
    ok = 'status=ok' in head and 'canary_ok=True' in head
    print('%-14s %-5s %s  [%r -> %r]' % (unit, 'ok' if ok else 'ALARM' if 'status=failed' in head else 'UNDEC', f.split('/')[-1], a[:30], b[:30]))
    if not ok:
        bad += 1
        print('\n'.join(r.stdout.split('\n')[1:8]))
    open(p, 'w').write(orig)
print('%d of %d benign edits not accepted' % (bad, len(EDITS)))
