#!/bin/sh
# run every claimed check once (tier from $1, default quick); prints one line per property
cd "$(dirname "$0")/.."
tier="${1:-quick}"
for p in $(python3 -c "import sys; sys.path.insert(0,'lib'); import meta; print(' '.join(sorted(meta.CLAIMED)))"); do
  out=$(./check "$p" --tier "$tier" 2>&1); rc=$?
  echo "rc=$rc $(echo "$out" | tail -1)"
  echo "$out" | grep -E "^(VIOLATION|UNDECIDED|KNOWN-FINDING)" | head -5
done
