#!/bin/sh
# usage: tools/seed_setup.sh <round-tag> Cxx   -> creates worktree /tmp/seed<tag>-Cxx and /tmp/seed<tag>-Cxx-out/PROPERTY.json
set -e
tag=$1; p=$2
wt=/tmp/seed$tag-$p
git -C /repo worktree remove --force $wt 2>/dev/null || true
git -C /repo worktree add --detach $wt HEAD >/dev/null
mkdir -p $wt-out
python3 - "$p" "$wt-out/PROPERTY.json" <<'P'
import json,sys
for l in open('/verif/properties.jsonl'):
    d=json.loads(l)
    if d['id']==sys.argv[1]:
        json.dump(d,open(sys.argv[2],'w'),indent=1)
P
echo $wt
