#!/usr/bin/env python3
"""numbers for DESIGN.md from the evidence files of the last run"""
import glob, json, os
HERE = os.path.dirname(os.path.dirname(os.path.abspath(__file__)))
obs, fn, bounded = {}, set(), set()
for f in sorted(glob.glob(os.path.join(HERE, 'evidence', 'C*.json'))):
    d = json.load(open(f))
    c = d['coverage']
    for o in c['per_obligation']:
        obs[o['id']] = (o['engine'].split()[0], o.get('kind', o.get('cls')), o['status'])
    for o in c.get('bounded_obligations', []):
        bounded.add(o['id'])
    fn.update(c.get('functions_under_contract', []))
kinds = {}
for k, v in obs.items():
    kinds[(v[0], v[1])] = kinds.get((v[0], v[1]), 0) + 1
print('units', len(glob.glob(os.path.join(HERE, 'units', '*.rs'))))
print('distinct proof-class obligations', len(obs), kinds)
print('not discharged', [k for k, v in obs.items() if v[2] != 'discharged'])
print('functions under contract', len(fn))
print('bounded jobs', sorted(bounded))
