#!/usr/bin/env python3
"""Confirm a seeded change in a scratch git worktree of /repo (never in /repo itself):
   (1) patch.diff applies and the repository's baseline suite gives the same 407 passes with it,
   (2) demo.diff's test FAILS with the patch and PASSES without it.
usage: tools/seed_confirm.py <seed-dir> <demo test filter> [extra cargo features]
prints a JSON summary on the last line."""
import json, os, re, subprocess, sys, shutil
seed, filt = os.path.abspath(sys.argv[1]), sys.argv[2]
feats = 'air-test-utils/test_with_native_code' + ((',' + sys.argv[3]) if len(sys.argv) > 3 else '')
wt = '/tmp/confirm-' + os.path.basename(seed.rstrip('/'))
env = dict(os.environ, CARGO_TARGET_DIR=os.environ.get('CONFIRM_TARGET', '/var/tmp/seed-target'), CARGO_NET_OFFLINE='true', RUST_BACKTRACE='0')
def sh(cmd, **kw):
    return subprocess.run(cmd, shell=True, cwd=kw.pop('cwd', wt), env=env, capture_output=True, text=True, **kw)
subprocess.run(['git', '-C', '/repo', 'worktree', 'remove', '--force', wt], capture_output=True)
BASE = os.environ.get('CONFIRM_BASE', 'HEAD')
r = subprocess.run(['git', '-C', '/repo', 'worktree', 'add', '--detach', wt, BASE], capture_output=True, text=True)
assert r.returncode == 0, r.stderr
out = dict(seed=seed, base=subprocess.run(['git', '-C', '/repo', 'rev-parse', '--short', os.environ.get('CONFIRM_BASE', 'HEAD')], capture_output=True, text=True).stdout.strip())
try:
    r = sh('git apply --check %s/patch.diff && git apply %s/patch.diff' % (seed, seed))
    out['patch_applies'] = r.returncode == 0
    if r.returncode != 0:
        out['error'] = r.stderr[-500:]
        raise SystemExit
    # (1) baseline with the patch
    r = sh('cargo nextest run --workspace --no-fail-fast --tool-config-file pb:/w/lib/nextest.toml --profile pb --test-threads 8 --offline 2>&1 | tail -400')
    m = re.search(r'(\d+) tests run: (\d+) passed(?: \([^)]*\))?, (\d+) failed', r.stdout)
    out['baseline_with_patch'] = m.group(0) if m else r.stdout[-400:]
    out['baseline_ok'] = bool(m) and m.group(2) == '407'
    # (2) demo with / without the patch
    r = sh('git apply %s/demo.diff' % seed)
    out['demo_applies'] = r.returncode == 0
    cmd = 'cargo test -p aquavm-air --features %s --offline --test test_module %s -- --test-threads 1 2>&1 | grep -E "^test |test result|panicked|error(\\[|:)" | head -40' % (feats, filt)
    if os.environ.get('CONFIRM_DEMO_CMD'):
        # demonstrations that live in another crate: the full cargo command, e.g. `cargo test -p air-beautifier --offline <filter>`
        cmd = os.environ['CONFIRM_DEMO_CMD'] + ' 2>&1 | grep -E "^test |test result|panicked|error(\\[|:)" | head -40'
    r = sh(cmd)
    out['demo_with_patch'] = r.stdout[-1500:]
    with_fail = bool(re.search(r'test result: FAILED', r.stdout))
    sh('git apply -R %s/patch.diff' % seed)
    r = sh(cmd)
    out['demo_without_patch'] = r.stdout[-1500:]
    without_ok = bool(re.search(r'test result: ok\. [1-9]', r.stdout))
    out['demo_fails_with_patch'] = with_fail
    out['demo_passes_without_patch'] = without_ok
    out['confirmed'] = out['baseline_ok'] and with_fail and without_ok
finally:
    subprocess.run(['git', '-C', '/repo', 'worktree', 'remove', '--force', wt], capture_output=True)
    print(json.dumps(out))
