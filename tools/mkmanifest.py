#!/usr/bin/env python3
"""writes MANIFEST.json from lib/meta.py"""
import json, os, sys
HERE = os.path.dirname(os.path.dirname(os.path.abspath(__file__)))
sys.path.insert(0, os.path.join(HERE, 'lib'))
import meta
import jobs

BASELINE = "cd /repo && cargo nextest run --workspace --no-fail-fast --tool-config-file pb:/w/lib/nextest.toml --profile pb --test-threads 8 --offline  (fallback: cargo test --workspace --no-fail-fast --offline)"
checks = []
for pid in sorted(meta.CLAIMED):
    m = meta.CLAIMED[pid]
    pj = [j for j in jobs.all_jobs() if pid in j['props']]
    bounded = sorted(j['id'] for j in pj if j['cls'] == 'bounded')
    finite = sorted(j['id'] for j in pj if j['cls'] == 'proof')
    technique = 'contract-based deductive verification: Verus discharges requires/ensures/invariants spliced onto the real functions lifted mechanically from /repo on every run'
    if finite:
        technique += '; finite domains enumerated completely on the real code (%s)' % ', '.join(finite)
    if bounded:
        technique += '; bounded native enumeration of the real code as a labelled stand-in for code outside the verifier, never counted as proved (%s)' % ', '.join(bounded)
    checks.append(dict(
        property_id=pid,
        quick_cmd='./check %s --tier quick' % pid,
        thorough_cmd='./check %s --tier thorough' % pid,
        evidence_file='/verif/evidence/%s.json' % pid,
        replay_cmd_template='./check %s --replay {path}' % pid,
        engine='verus' + ('+native-bounded' if bounded else ''),
        level_claimed=dict(category=m.get('level', 'proof'),
                           text=m.get('text', 'Verus discharges the contracts spliced onto the functions lifted mechanically from /repo on every run; see DESIGN.md'),
                           design_ref=m.get('design_ref', 'DESIGN.md section 3, ' + pid)),
        level_note=m.get('note', '; '.join(m.get('assumptions', []))),
        technique=m.get('technique', technique),
    ))
na = [dict(property_id=k, reason=v) for k, v in sorted(meta.NOT_APPLICABLE.items())]
na += [dict(property_id=k, reason=v) for k, v in sorted(meta.PENDING.items()) if k not in meta.CLAIMED]
man = dict(
    version=1,
    setup_cmd='./setup.sh',
    hooks=dict(guard='none', enable='no hooks: the checks read /repo\'s working tree and lift functions into generated Verus files outside /repo; /repo is never patched for the machinery',
               baseline_off_cmd=BASELINE, source_commits=[], add_only=True),
    engines=[dict(name='verus-lift', path='/verif/check', serves_properties=sorted(meta.CLAIMED),
                  kind_free_text='Verus 0.2026.09.13 on functions lifted mechanically from /repo (lib/extract.py) with contracts from units/*.rs; native bounded stand-ins where stated')],
    checks=checks,
    not_applicable=na,
    notes='fix: commits in /repo repair genuine defects found by the contracts (see known_findings.txt, DESIGN.md section 5)',
)
with open(os.path.join(HERE, 'MANIFEST.json'), 'w') as f:
    json.dump(man, f, indent=1)
print('MANIFEST.json: %d checks, %d not_applicable' % (len(checks), len(na)))
