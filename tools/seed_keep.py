#!/usr/bin/env python3
"""File a confirmed seeded change under /verif/seeded/<name>/ and record which checks catch it.
usage: tools/seed_keep.py [--scratch] <seed-out-dir> <confirm.json> <name> <Cxx>   (Cxx = the property it was written against)
Applies patch.diff to /repo (git apply), runs ./check for every claimed property, undoes it (git checkout -- .).
With --scratch the patch is applied to an rsync copy of /repo's working tree instead and the checks run with VERIF_REPO=<copy>
(same code path; used while other work needs /repo's tree untouched)."""
import json, os, shutil, subprocess, sys, re
HERE = os.path.dirname(os.path.dirname(os.path.abspath(__file__)))
sys.path.insert(0, os.path.join(HERE, 'lib'))
import meta
SCRATCH = '--scratch' in sys.argv
if SCRATCH:
    sys.argv.remove('--scratch')
src, confirm, name = os.path.abspath(sys.argv[1]), sys.argv[2], sys.argv[3]
target = sys.argv[4]
dst = os.path.join(HERE, 'seeded', name)
os.makedirs(dst, exist_ok=True)
for f in ('patch.diff', 'demo.diff', 'README.md'):
    if os.path.exists(os.path.join(src, f)):
        shutil.copy(os.path.join(src, f), os.path.join(dst, f))
conf = json.load(open(confirm))
assert conf.get('confirmed'), 'seed is not confirmed: %s' % confirm
env = dict(os.environ)
if SCRATCH:
    import tempfile
    root = tempfile.mkdtemp(prefix='aquavm-seed-keep.', dir='/var/tmp')
    subprocess.run(['rsync', '-a', '--exclude', '/target', '--exclude', '.git', '/repo/', root + '/'], check=True)
    r = subprocess.run(['patch', '-p1', '--no-backup-if-mismatch', '-i', os.path.join(dst, 'patch.diff')], cwd=root, capture_output=True, text=True)
    assert r.returncode == 0, r.stdout + r.stderr
    env['VERIF_REPO'] = root
else:
    st = subprocess.run(['git', '-C', '/repo', 'status', '--porcelain'], capture_output=True, text=True).stdout.strip()
    assert not st, '/repo working tree is not clean:\n' + st
    r = subprocess.run(['git', '-C', '/repo', 'apply', os.path.join(dst, 'patch.diff')], capture_output=True, text=True)
    assert r.returncode == 0, r.stderr
results = {}
try:
    import concurrent.futures as cf
    def one(p):
        r = subprocess.run([os.path.join(HERE, 'check'), p], capture_output=True, text=True, cwd=HERE, env=env)
        obl = sorted(set(re.findall(r'^  obligation (\S+?)(?=: | \()', r.stdout, re.M)))
        return p, dict(rc=r.returncode, obligations=obl, summary=r.stdout.strip().split('\n')[-1])
    with cf.ThreadPoolExecutor(max_workers=4) as ex:
        props = os.environ.get('KEEP_PROPS', '').split() or sorted(meta.CLAIMED)
        for p, v in ex.map(one, props):
            results[p] = v
            print(p, v['rc'], v['obligations'], flush=True)
finally:
    if SCRATCH:
        shutil.rmtree(root, ignore_errors=True)
    else:
        subprocess.run(['git', '-C', '/repo', 'checkout', '--', '.'], check=True)
caught = [p for p, v in results.items() if v['rc'] == 1]
undec = [p for p, v in results.items() if v['rc'] == 2]
readme = open(os.path.join(dst, 'README.md')).read() if os.path.exists(os.path.join(dst, 'README.md')) else ''
m = re.search(r'(?is)(trigger|manifest)[^\n]*\n(.{0,900})', readme)
meta_json = dict(
    name=name, breaks_property=target, written_by='fresh sub-agent given only the property record and its own /tmp worktree',
    needs_to_manifest=(m.group(2).strip()[:900] if m else 'see README.md'),
    confirmed=dict(base_commit=conf.get('base'), patch_applies=conf.get('patch_applies'), baseline_with_patch=conf.get('baseline_with_patch'),
                   demo_fails_with_patch=conf.get('demo_fails_with_patch'), demo_passes_without_patch=conf.get('demo_passes_without_patch'),
                   demo_with_patch=conf.get('demo_with_patch', '')[:600], demo_without_patch=conf.get('demo_without_patch', '')[:600],
                   how='tools/seed_confirm.py in a scratch git worktree of /repo: cargo nextest baseline with the patch, demo test with and without the patch (native runner)'),
    checks=dict(caught_by=caught, undecided=undec, target_check_catches=target in caught,
                obligations={p: v['obligations'] for p, v in results.items() if v['rc'] == 1},
                how=('patch applied to an rsync copy of /repo, ./check Cxx with VERIF_REPO=<copy> for every claimed property' if SCRATCH else
                     'git -C /repo apply patch.diff; ./check Cxx for every claimed property; git -C /repo checkout -- .'),
                checked_properties=sorted(results)),
)
json.dump(meta_json, open(os.path.join(dst, 'meta.json'), 'w'), indent=1)
print('CAUGHT BY', caught, 'UNDECIDED', undec)
