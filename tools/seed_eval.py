#!/usr/bin/env python3
"""Run the checks against a seeded change without touching /repo.
usage: tools/seed_eval.py <patch.diff> [Cxx ...]      (no property given: all claimed properties)
Copies /repo's working tree to a scratch dir, applies the patch there, runs ./check with VERIF_REPO=<scratch>."""
import os, subprocess, sys, shutil, tempfile
HERE = os.path.dirname(os.path.dirname(os.path.abspath(__file__)))
sys.path.insert(0, os.path.join(HERE, 'lib'))
import meta
patch = os.path.abspath(sys.argv[1])
props = sys.argv[2:] or sorted(meta.CLAIMED)
scratch = tempfile.mkdtemp(prefix='aquavm-seed-eval.', dir='/var/tmp')
try:
    subprocess.run(['rsync', '-a', '--exclude', '/target', '--exclude', '.git', '/repo/', scratch + '/'], check=True)
    r = subprocess.run(['patch', '-p1', '--no-backup-if-mismatch', '-i', patch], cwd=scratch, capture_output=True, text=True)
    if r.returncode != 0:
        print('PATCH DOES NOT APPLY:\n' + r.stdout + r.stderr)
        sys.exit(3)
    caught = []
    for p in props:
        r = subprocess.run([os.path.join(HERE, 'check'), p], env=dict(os.environ, VERIF_REPO=scratch), capture_output=True, text=True)
        lines = [l for l in r.stdout.split('\n') if l.startswith(('VIOLATION', 'UNDECIDED', '  obligation'))]
        print('%s rc=%d %s' % (p, r.returncode, r.stdout.strip().split('\n')[-1]))
        for l in lines[:6]:
            print('    ' + l[:220])
        if r.returncode == 1:
            caught.append(p)
    print('CAUGHT BY: %s' % (' '.join(caught) or 'nothing'))
finally:
    shutil.rmtree(scratch, ignore_errors=True)
